"""C02 - type inference is sound: no value is narrowed or re-typed on the device."""
from __future__ import annotations

import ast
import itertools
import json
import re
from fractions import Fraction

from harness import common as C
from harness import fw
from harness import c02_fngen as FG
from harness import c02_ctl as CT
from harness import c02_retype as RT
from harness import pyast_wire as W

META = {
    "id": "C02",
    "technique": "Coq proof (C++ name lookup over the emitted prototype block + overload resolution: the overload a call reaches is position independent and is the variant the parser specialised, under call_guard; soundness of a line-by-line model of _infer_expr_type w.r.t. the reference Python expression semantics, by induction over expressions and over nested list comprehensions with their var_types bracket; join / declaration / hoisting / signature-alias lemmas; a reference statement semantics with a path oracle and, by mutual induction over statements / blocks / branches, the covering theorem for if / elif / else, while, for, tuple assignment, the main loop and function bodies under an executable fixed-point guard; refutation witnesses by vm_compute) + extracted-model correspondence with the real _infer_expr_type/_cpp_type/_merge_* and with the declaration lines of the emitted C++ + firmware-vs-CPython value oracle",
    "level_text": "Theorems C02_* (coq/Props/C02.v) are proved for all expressions, all statement trees (if / elif / else, while, for, tuple assignment, returns at any depth), all paths (every oracle of branch choices and loop counts) and all parser states about Gallina models (coq/Lang/Infer.v, Decl.v, StmtRef.v) of the type-label layer of transpile/parser.py; _partial theorems carry an executable guard, each guard clause has a _refuted witness. The models are run against the real functions (direct calls, exact label and mutated var_types) and against the declared C types in the emitted sketch; the property itself is tested on compiled firmware (mock core) against CPython for programs inside the guard.",
    "level_note": "Trusted: Coq kernel, extraction (ExtrOcamlBasic), OCaml driver, translator plug-in harness/gen/c02_infer.py (builtin call table), harness codecs, g++ and the mock Arduino core as 'device', CPython 3.12 as 'Python', PySem.v as the reference expression semantics (validated against CPython's eval). The theorems are about the models; the correspondence bounds their distance from parser.py.",
    "design_ref": "DESIGN.md section 4 C02, Appendix B.1-B.4",
}

# --------------------------------------------------------------------------- label codec
SCALARS = {"int": 0, "float": 1, "bool": 2, "String": 3, "void": 5}
SCALAR_BY_CODE = {v: k for k, v in SCALARS.items()}


def enc_label(s: str):
    if s in SCALARS:
        return [SCALARS[s]]
    if isinstance(s, str) and s.startswith("list[") and s.endswith("]"):
        return [4, enc_label(s[5:-1])]
    return [6, s]


def dec_label(w) -> str:
    if w[0] in SCALAR_BY_CODE:
        return SCALAR_BY_CODE[w[0]]
    if w[0] == 4:
        return "list[" + dec_label(w[1]) + "]"
    return w[1] if isinstance(w[1], str) else C.wstr(w[1])


def enc_ctype(s: str):
    m = {"int": [0], "float": [1], "bool": [2], "String": [3], "void": [5]}
    if s in m:
        return m[s]
    if s.startswith("__redu_list<") and s.endswith(">"):
        return [4, enc_ctype(s[len("__redu_list<"):-1])]
    raise ValueError(s)


def dec_ctype(w) -> str:
    m = {0: "int", 1: "float", 2: "bool", 3: "String", 5: "void"}
    if w[0] in m:
        return m[w[0]]
    return "__redu_list<" + dec_ctype(w[1]) + ">"


def enc_tenv(d: dict):
    return [[k, enc_label(v)] for k, v in d.items()]


def dec_tenv(w) -> dict:
    return {C.wstr(k): dec_label(v) for k, v in w}


def enc_functions(fs: dict):
    out = []
    for name, ent in fs.items():
        if isinstance(ent, str):
            out.append([name, [0, enc_label(ent)]])
        else:
            out.append([name, [1, [[[enc_label(x) for x in sig], enc_label(lab)] for sig, lab in ent]]])
    return out


def enc_aliases(al: dict):
    return [[name, [[[enc_label(x) for x in a], [enc_label(x) for x in b]] for a, b in prs]] for name, prs in al.items()]


CTX_KEYS = ["led_names", "servo_names", "serial_monitors", "ultrasonic_names"]


def enc_ictx(cx):
    if cx is None:
        return []
    return [list(cx[k]) for k in CTX_KEYS]


LABEL_POOL = ["int", "float", "bool", "String", "void", "list[int]", "list[float]", "list[String]",
              "list[list[int]]", "list[bool]", "foo", ""]

# --------------------------------------------------------------------------- expression generator (typing-relevant shapes)
NAMES = ["a", "b", "c", "d", "e", "s", "t", "xs", "ys", "led", "sv", "mon", "us", "q"]


def gen_typed_expr(rng, depth, names=NAMES):
    def atom():
        r = rng.random()
        if r < 0.42:
            return rng.choice(names)
        if r < 0.55:
            return _lit_int(rng)
        if r < 0.67:
            return repr(rng.choice([0.5, 2.5, 1.0, 0.0, 7.75]))
        if r < 0.77:
            return rng.choice(["True", "False"])
        if r < 0.92:
            return repr(rng.choice(W.STR_LITS))
        return rng.choice(["None", "...", "b'x'"])

    def go(d):
        if d <= 0 or rng.random() < 0.18:
            return atom()
        r = rng.random()
        if r < 0.30:
            op = rng.choice(["+", "+", "+", "-", "*", "*", "/", "//", "%", "**", "&", "|", "^", "<<", ">>", "@"])
            return f"({go(d - 1)} {op} {go(d - 1)})"
        if r < 0.38:
            return f"({rng.choice(['-', '+', 'not ', '~'])}{go(d - 1)})"
        if r < 0.44:
            return "(" + f" {rng.choice(['and', 'or'])} ".join(go(d - 1) for _ in range(rng.choice([2, 3]))) + ")"
        if r < 0.50:
            ops = ["==", "!=", "<", "<=", ">", ">=", "is", "in", "not in"]
            if rng.random() < 0.25:
                return f"({go(d - 1)} {rng.choice(ops)} {go(d - 1)} {rng.choice(ops)} {go(d - 1)})"
            return f"({go(d - 1)} {rng.choice(ops)} {go(d - 1)})"
        if r < 0.60:
            return f"({go(d - 1)} if {go(d - 1)} else {go(d - 1)})"
        if r < 0.72:
            f = rng.choice(["abs", "min", "max", "int", "float", "bool", "len", "str", "digital_read", "analog_read"])
            n = rng.choice([0, 1, 1, 1, 2, 2, 3])
            args = [go(d - 1) for _ in range(n)]
            if rng.random() < 0.12:
                args.append("key=" + go(d - 1))
            return f"{f}(" + ", ".join(args) + ")"
        if r < 0.80:
            f = rng.choice(["f", "g", "h", "k"])
            n = rng.choice([0, 1, 1, 2, 2, 3])
            return f"{f}(" + ", ".join(go(d - 1) for _ in range(n)) + ")"
        if r < 0.87:
            owner = rng.choice(["led", "sv", "mon", "us", "q", "a", "(a + b)", "xs"])
            attr = rng.choice(["get_state", "get_brightness", "read", "read_us", "measure_distance", "foo", "append"])
            args = ", ".join(go(d - 1) for _ in range(rng.choice([0, 0, 0, 1])))
            return f"{owner}.{attr}({args})"
        if r < 0.93:
            n = rng.choice([0, 1, 2, 2, 3])
            return "[" + ", ".join(go(d - 1) for _ in range(n)) + "]"
        if r < 0.97:
            return f"{go(d - 1)}[{go(d - 1)}]"
        if r < 0.985:
            return "f\"v={" + go(d - 1).replace('"', "'") + "}\""
        return rng.choice([f"({go(d - 1)}, {go(d - 1)})", "a.b", "(lambda: 1)", "{1: 2}"])

    return go(depth)


def _lit_int(rng):
    v = rng.choice(W.INT_LITS)
    return f"({v})" if v < 0 else str(v)


def gen_env(rng):
    env = {}
    for n in NAMES:
        r = rng.random()
        if r < 0.2:
            continue
        if n in ("xs", "ys") and r < 0.8:
            env[n] = rng.choice(["list[int]", "list[float]", "list[String]", "list[list[int]]", "list[bool]"])
        elif n in ("s", "t") and r < 0.75:
            env[n] = "String"
        else:
            env[n] = rng.choice(["int", "int", "float", "float", "bool", "String"] + LABEL_POOL)
    return env


def gen_functions(rng):
    fs = {}
    sc = ["int", "float", "bool", "String"]
    if rng.random() < 0.8:
        ent = []
        for _ in range(rng.randint(0, 4)):
            sig = [rng.choice(sc) for _ in range(rng.choice([0, 1, 1, 2, 2, 3]))]
            if all(sig != s for s, _ in ent):
                ent.append([sig, rng.choice(sc + ["void", "list[int]"])])
        fs["f"] = ent
    if rng.random() < 0.5:
        fs["g"] = rng.choice(sc + ["void"])
    if rng.random() < 0.5:
        fs["h"] = [[[rng.choice(sc)], rng.choice(sc)], [[rng.choice(sc), rng.choice(sc)], rng.choice(sc)]]
        if fs["h"][0][0] == fs["h"][1][0]:
            fs["h"].pop()
    al = {}
    if "f" in fs and fs["f"] and rng.random() < 0.6:
        al["f"] = [[[rng.choice(sc) for _ in range(len(fs["f"][0][0]))], fs["f"][0][0]]]
    return fs, al


def gen_ctx(rng):
    if rng.random() < 0.35:
        return None
    pool = ["led", "sv", "mon", "us", "q"]
    return {k: [n for n in pool if rng.random() < 0.45] for k in CTX_KEYS}


# --------------------------------------------------------------------------- part (a'): comprehensions, direct calls
FALSY = {"int": [0, 0, 7], "float": [0.0, 0.0, 2.5], "bool": [False, False, True], "String": ["", "", "ab"]}


def comp_src(c):
    return c["elt"] if c["targets"] == [] else None


def render_comp(targets, elt):
    src = elt
    for t, n in reversed(targets):
        src = f"[{src} for {t} in range({n})]"
    return src


def enc_rhs(targets, elt):
    w = [0, W.enc_src(elt)]
    for t, n in reversed(targets):
        w = [1, t, W.enc_src(n), w]
    return w


def part_a_comp(ctx, stats):
    """[elt for t in range(n)] (nested up to 2): real _infer_expr_type (label, var_types afterwards) and real _to_c_expr
    (var_types afterwards, with folded constants of every truthiness bound to the names) vs Lang/InferComp.v"""
    rng = ctx.rng
    n = 900 if ctx.tier == "thorough" else 260
    cases = []
    fixed = [([("a", "3")], "a * 2"), ([("a", "3")], "a * 0.5"), ([("s", "2")], "s + 1"), ([("zz", "4")], "zz + a"), ([("a", "b")], "b"),
             ([("xs", "2")], "xs"), ([("a", "2"), ("b", "3")], "a * b"), ([("a", "2"), ("a", "3")], "a + 0.5"), ([("s", "2")], "t + s"),
             ([("a", "2")], "s + a"), ([("c", "2")], "[c, a]"), ([("a", "3")], "f(a)"), ([("e", "1")], "e if c else 2.5"), ([("a", "0")], "a > 1")]
    for targets, elt in fixed:
        for _ in range(3):
            fs, al = gen_functions(rng)
            cases.append({"targets": targets, "elt": elt, "var_types": gen_env(rng), "functions": fs, "aliases": al, "ctx": gen_ctx(rng)})
    for _ in range(n):
        targets = [(rng.choice(NAMES + ["zz", "i"]), rng.choice(["3", "0", "a", "b", "len(xs)"])) for _ in range(rng.choice([1, 1, 1, 2]))]
        elt = gen_typed_expr(rng, rng.choice([0, 1, 2, 2]), names=NAMES + [targets[-1][0]] * 4)
        fs, al = gen_functions(rng)
        cases.append({"targets": targets, "elt": elt, "var_types": gen_env(rng), "functions": fs, "aliases": al, "ctx": gen_ctx(rng)})
    for c in cases:
        if c["ctx"] is None:
            c["aliases"] = {}
        c["src"] = render_comp(c["targets"], c["elt"])
        c["vars"] = {}
        for name, lab in c["var_types"].items():
            if lab in FALSY and rng.random() < 0.7:
                c["vars"][name] = rng.choice(FALSY[lab])
    impl = C.run_impl("c02_impl.py", {"cases": [["infer", c] for c in cases] + [["toc", c] for c in cases]})
    r_inf, r_toc = impl[:len(cases)], impl[len(cases):]
    wire = [[9, enc_ictx(c["ctx"] if c["ctx"] is not None else None), enc_functions(c["functions"]), enc_aliases(c["aliases"]),
             enc_tenv(c["var_types"]), enc_rhs(c["targets"], c["elt"])] for c in cases]
    model = ctx.model(wire) if ctx.exe else [None] * len(cases)
    st = {"cases": len(cases), "labels": {}, "target_shadows_label": {}, "toc_compared": 0, "toc_untranslatable": 0,
          "shadowed_name_bound_to_a_falsy_constant": 0, "var_types_mutated_by_contagion": 0}
    for c, r, t, m in zip(cases, r_inf, r_toc, model):
        for tg, _ in c["targets"]:
            lab = c["var_types"].get(tg, "(unbound)")
            st["target_shadows_label"][lab] = st["target_shadows_label"].get(lab, 0) + 1
            if tg in c["vars"] and not c["vars"][tg]:
                st["shadowed_name_bound_to_a_falsy_constant"] += 1
        key = ("raises " + r["exc"]) if "exc" in r else r["label"]
        st["labels"][key] = st["labels"].get(key, 0) + 1
        if "exc" in r and r["exc"] != "ValueError":
            ctx.fail("_infer_expr_type raised something other than ValueError on a comprehension", c, "label or ValueError", r, key="infer-exc")
        if m is None:
            continue
        if m == [2]:
            ctx.disagree("comprehension: model cannot decode the case (harness codec)", c, m, r)
            continue
        if "exc" in r:
            if not (m[0] == 1 and r["exc"] == "ValueError"):
                ctx.disagree("comprehension: implementation raises, model does not agree", c, m, r)
            continue
        if m[0] != 0:
            ctx.disagree("comprehension: model raises ValueError, implementation returns", c, m, r)
            continue
        ml, menv = dec_label(m[1]), dec_tenv(m[2])
        if ml != r["label"]:
            ctx.disagree("comprehension: returned label differs", c, ml, r["label"])
        elif menv != r["var_types"]:
            ctx.disagree("comprehension: var_types after _infer_expr_type differ (target bracket)", c, menv, r["var_types"])
        if r["var_types"] != c["var_types"]:
            st["var_types_mutated_by_contagion"] += 1
            continue                      # outside rhs_pure: _to_c_expr infers sub-nodes in another order (contagion is order dependent)
        if "exc" in t:
            st["toc_untranslatable"] += 1
            continue
        st["toc_compared"] += 1
        if m[3]:
            tenv = dec_tenv(m[3][0])
            if tenv != t["var_types"]:
                ctx.disagree("comprehension: var_types after _to_c_expr differ (target bracket; constants bound to the names: %s)" % json.dumps(c["vars"], sort_keys=True),
                             c, tenv, t["var_types"])
    stats["comprehension_cases"] = st
    return len(cases)


# --------------------------------------------------------------------------- part (a): direct calls
def part_a(ctx, stats):
    rng = ctx.rng
    thorough = ctx.tier == "thorough"
    n_random = 6000 if thorough else 1500
    cases = []
    # boundary shapes first (every clause of the model at least once, with and without ctx)
    fixed_srcs = [
        "1", "True", "2.5", "'s'", "None", "a", "zz", "a + b", "s + a", "a + s", "s + t", "a * s", "'x' + a", "a + 'x'", "a - s",
        "(a + 1) + s", "s + (a + 1)", "a / b", "a // b", "a % b", "a ** b", "a @ b", "2.5 + a", "a + 2.5", "True + True",
        "-a", "+a", "~a", "not a", "-True", "not s", "a and b", "a or s", "a < b", "a < b < c", "a is b", "a in xs",
        "a if c else b", "s if c else a", "2.5 if c else a", "True if c else 1", "xs if c else a", "(s + a) if c else a",
        "f'{a}'", "f'x'", "abs(a)", "abs(-2.5)", "max(a, 2.5)", "min(a, b)", "int(s)", "float(a)", "bool(a)", "str(a)", "len(xs)",
        "digital_read(3)", "analog_read('A0')", "abs(s + a)", "int(a, key=s + b)", "f()", "f(a)", "f(a, 2.5)", "f(s + a)", "g(1)", "h(a)", "h(a, b)", "k(a)",
        "led.get_state()", "q.get_state()", "led.get_brightness()", "sv.read()", "mon.read()", "q.read()", "sv.read_us()", "us.measure_distance()",
        "q.measure_distance()", "(a + b).read()", "xs.append(s + a)", "led.foo()", "[]", "[1]", "[1, 2.5]", "[1, True]", "['a', 1]", "[True, False]",
        "[[1], [2]]", "[[1], [2.5]]", "[[1], 2]", "[xs, xs]", "[xs, ys]", "[s + a, a]", "[a, s + a]", "xs[0]", "s[0]", "a[0]", "[1, 2][a]", "xs[s + a]",
        "(xs + xs)[0]", "[[1.5]][0][0]", "(1, 2)", "a.b", "(lambda: 1)", "{1: 2}", "[g(1), 2]", "-s", "-(s + a)", "not (s + a)", "(s + a) < 1",
    ]
    for src in fixed_srcs:
        for _ in range(3 if thorough else 2):
            fs, al = gen_functions(rng)
            cases.append({"src": src, "var_types": gen_env(rng), "functions": fs, "aliases": al, "ctx": gen_ctx(rng)})
    for i in range(n_random):
        depth = rng.choice([1, 2, 2, 3, 3, 4])
        fs, al = gen_functions(rng)
        cases.append({"src": gen_typed_expr(rng, depth), "var_types": gen_env(rng), "functions": fs, "aliases": al, "ctx": gen_ctx(rng)})
    # also the shared Lang generator (numeric / string programs)
    for i in range(n_random // 3):
        src = W.gen_expr(rng, rng.choice([2, 3, 4]), names=["a", "b", "c", "s"])
        cases.append({"src": src, "var_types": gen_env(rng), "functions": {}, "aliases": {}, "ctx": None})
    for c in cases:
        if c["ctx"] is None:
            c["aliases"] = {}
    impl = C.run_impl("c02_impl.py", {"cases": [["infer", c] for c in cases]})
    wire = [[0, enc_ictx(c["ctx"]), enc_functions(c["functions"]), enc_aliases(c["aliases"]), enc_tenv(c["var_types"]), W.enc_src(c["src"])]
            for c in cases]
    model = ctx.model(wire) if ctx.exe else [None] * len(cases)
    kinds, labels, mutated, nontrivial = {}, {}, 0, set()
    for c, r, m in zip(cases, impl, model):
        node = ast.parse(c["src"], mode="eval").body
        kinds[type(node).__name__] = kinds.get(type(node).__name__, 0) + 1
        if "exc" in r:
            labels["raises " + r["exc"]] = labels.get("raises " + r["exc"], 0) + 1
            if r["exc"] != "ValueError":
                ctx.fail("_infer_expr_type raised something other than ValueError", c, "label or ValueError", r, key="infer-exc")
        else:
            labels[r["label"]] = labels.get(r["label"], 0) + 1
            if r["var_types"] != c["var_types"]:
                mutated += 1
            if not isinstance(node, (ast.Constant, ast.Name)):
                nontrivial.add(c["src"] + "|" + json.dumps(c["var_types"], sort_keys=True))
        if m is None:
            continue
        if m == [2]:
            ctx.disagree("infer: model cannot decode the case (harness codec)", c, m, r)
        elif "exc" in r:
            if not (m[0] == 1 and r["exc"] == "ValueError"):
                ctx.disagree("infer: implementation raises, model does not agree", c, m, r)
        elif m[0] != 0:
            ctx.disagree("infer: model raises ValueError, implementation returns", c, m, r)
        else:
            ml, menv = dec_label(m[1]), dec_tenv(m[2])
            if ml != r["label"]:
                ctx.disagree("infer: returned label differs", c, ml, r["label"])
            elif menv != r["var_types"]:
                ctx.disagree("infer: mutated var_types differ", c, menv, r["var_types"])
    n_comp = part_a_comp(ctx, stats)
    stats["infer_cases"] = len(cases)
    stats["infer_root_kinds"] = kinds
    stats["infer_labels"] = labels
    stats["infer_cases_mutating_var_types"] = mutated
    stats["infer_distinct_nontrivial"] = len(nontrivial)

    # ---- enumerated helper functions
    pool = ["int", "float", "bool", "String", "void", "list[int]", "list[float]", "foo", ""]
    small = ["int", "float", "bool", "String", "list[int]", "void"]
    lab_cases = LABEL_POOL + ["list[list[list[float]]]", "list[void]", "list[foo]", "list[]", "Int", "string", "list[", "list"]
    impl = C.run_impl("c02_impl.py", {"cases": [["cpp", l] for l in lab_cases]})
    if ctx.exe:
        for l, r, m in zip(lab_cases, impl, ctx.model([[1, enc_label(l)] for l in lab_cases])):
            got = [C.wstr(m[1]), C.wstr(m[2])]
            if got != r or dec_ctype(m[0]) != r[0]:
                ctx.disagree("_cpp_type / _default_value_for_type", l, got, r)
            if C.wstr(m[3]) != l:
                ctx.disagree("label codec: label_text of the decoded label is not the label", l, C.wstr(m[3]), l)
    ctypes = ["int", "float", "bool", "String", "void", "__redu_list<int>", "__redu_list<float>", "__redu_list<String>",
              "__redu_list<__redu_list<bool>>"]
    impl = C.run_impl("c02_impl.py", {"cases": [["default", t] for t in ctypes]})
    if ctx.exe:
        for t, r, m in zip(ctypes, impl, ctx.model([[4, enc_ctype(t)] for t in ctypes])):
            if C.wstr(m) != r:
                ctx.disagree("_default_value_for_type", t, C.wstr(m), r)
    mr = [[list(t), hv] for n in range(0, 4) for t in itertools.product(pool, repeat=n) for hv in (False, True)]
    for _ in range(600 if thorough else 150):
        mr.append([[rng.choice(pool) for _ in range(rng.randint(4, 7))], rng.random() < 0.2])
    impl = C.run_impl("c02_impl.py", {"cases": [["merge_ret", t, hv] for t, hv in mr]})
    n_raise = 0
    if ctx.exe:
        for (t, hv), r, m in zip(mr, impl, ctx.model([[2, [enc_label(x) for x in t], hv] for t, hv in mr])):
            n_raise += r[0] == "ValueError"
            got = ["ok", dec_label(m[1])] if m[0] == 0 else ["ValueError"]
            if got != r:
                ctx.disagree("_merge_return_types", [t, hv], got, r)
    me = [list(t) for n in range(0, 4) for t in itertools.product(pool + ["list[list[int]]"], repeat=n)]
    for _ in range(600 if thorough else 150):
        me.append([rng.choice(pool) for _ in range(rng.randint(4, 7))])
    impl = C.run_impl("c02_impl.py", {"cases": [["merge_elem", t] for t in me]})
    if ctx.exe:
        for t, r, m in zip(me, impl, ctx.model([[3, [enc_label(x) for x in t]] for t in me])):
            got = ["ok", dec_label(m[1])] if m[0] == 0 else ["ValueError"]
            if got != r:
                ctx.disagree("_merge_element_types", t, got, r)
    an = [None, "int", "float", "bool", "str", "String", "None", "void", "list", "object"]
    impl = C.run_impl("c02_impl.py", {"cases": [["annot", a] for a in an]})
    if ctx.exe:
        for a, r, m in zip(an, impl, ctx.model([[8, [] if a is None else [a]] for a in an])):
            if dec_label(m) != r:
                ctx.disagree("_annotation_to_type_label", a, dec_label(m), r)
    # the harness codec's notion of a list label is the implementation's
    impl = C.run_impl("c02_impl.py", {"cases": [["listlabel", l] for l in lab_cases]})
    for l, r in zip(lab_cases, impl):
        e = enc_label(l)
        if (e[0] == 4) != r[0] or (e[0] == 4 and dec_label(e[1]) != r[1]) or dec_label([4, e]) != r[2]:
            ctx.disagree("label codec vs _is_list_type/_list_element_type/_make_list_type_label", l, e, r)
    stats["helper_cases"] = {"cpp_type": len(lab_cases), "default_value": len(ctypes), "merge_return_types": len(mr),
                             "merge_return_types_raising": n_raise, "merge_element_types": len(me), "annotation": len(an)}
    return len(cases) + n_comp + len(lab_cases) * 2 + len(ctypes) + len(mr) + len(me) + len(an)


# --------------------------------------------------------------------------- statement-level programs
# stmt: ("assign", x, src) ("aug", x, op, src) ("if", [(cond, body)...], else|None) ("while", cond, body)
#       ("for", i, nsrc, body) ("return", src|None) ("write", src)
# item: ("stmt", s) ("def", name, [param...], body) ("loop", body)
HEADER = (
    "from Reduino import target\n"
    "from Reduino.Core import analog_read, digital_read\n"
    "from Reduino.Communication import SerialMonitor\n"
    "target(\"COM3\", upload=False)\n"
    "mon = SerialMonitor(9600)\n"
)
MODEL_CTX = [[], [], ["mon"], []]
AUG_OPS = {"+": 0, "-": 1, "*": 2, "/": 3, "//": 4, "%": 5}


def render_block(stmts, lvl, out):
    pad = "    " * lvl
    if not stmts:
        out.append(pad + "pass\n")
    for st in stmts:
        k = st[0]
        if k == "assign":
            out.append(f"{pad}{st[1]} = {st[2]}\n")
        elif k == "aug":
            out.append(f"{pad}{st[1]} {st[2]}= {st[3]}\n")
        elif k == "write":
            out.append(f"{pad}mon.write({st[1]})\n")
        elif k == "return":
            out.append(pad + ("return\n" if st[1] is None else f"return {st[1]}\n"))
        elif k == "assignc":
            out.append(f"{pad}{st[1]} = [{st[4]} for {st[2]} in range({st[3]})]\n")
        elif k == "tassign":
            out.append(f"{pad}{', '.join(st[1])} = {', '.join(st[2])}\n")
        elif k == "if":
            for i, (c, b) in enumerate(st[1]):
                out.append(f"{pad}{'if' if i == 0 else 'elif'} {c}:\n")
                render_block(b, lvl + 1, out)
            if st[2] is not None:
                out.append(pad + "else:\n")
                render_block(st[2], lvl + 1, out)
        elif k == "while":
            out.append(f"{pad}while {st[1]}:\n")
            render_block(st[2], lvl + 1, out)
        elif k == "for":
            out.append(f"{pad}for {st[1]} in range({st[2]}):\n")
            render_block(st[3], lvl + 1, out)
        else:
            raise ValueError(k)


def render_items(items) -> str:
    out = [HEADER]
    for it in items:
        if it[0] == "stmt":
            render_block([it[1]], 0, out)
        elif it[0] == "def":
            out.append(f"def {it[1]}({', '.join(it[2])}):\n")
            render_block(it[3], 1, out)
        else:
            out.append("while True:\n")
            render_block(it[1], 1, out)
    return "".join(out)


def wire_block(stmts):
    out = []
    for st in stmts:
        k = st[0]
        if k == "assign":
            out.append([0, st[1], W.enc_src(st[2])])
        elif k == "assignc":
            out.append([6, st[1], [1, st[2], W.enc_src(st[3]), [0, W.enc_src(st[4])]]])
        elif k == "aug":
            out.append([1, st[1], AUG_OPS[st[2]], W.enc_src(st[3])])
        elif k == "if":
            out.append([2, [wire_block(b) for _, b in st[1]], [] if st[2] is None else [wire_block(st[2])]])
        elif k == "while":
            out.append([3, wire_block(st[2])])
        elif k == "for":
            out.append([4, st[1], wire_block(st[3])])
        elif k == "return":
            out.append([5] if st[1] is None else [5, W.enc_src(st[1])])
        elif k == "tassign":
            out.append([7, list(st[1]), [W.enc_src(x) for x in st[2]]])
        elif k == "write":
            pass                                   # no typing effect
        else:
            raise ValueError(k)
    return out


def wire_items(items):
    out = []
    for it in items:
        if it[0] == "stmt":
            w = wire_block([it[1]])
            if w:
                out.append([0, w[0]])
        elif it[0] == "def":
            out.append([1, it[1], [[p, []] for p in it[2]], [], wire_block(it[3])])
        else:
            out.append([2, wire_block(it[1])])
    return out


class TypGen:
    """programs for the declaration correspondence: every typing-relevant shape, not necessarily runnable"""
    VARS = ["a", "b", "c", "d", "s", "u"]

    def __init__(self, rng):
        self.rng = rng
        self.funcs = {}                 # name -> arity (defined so far or later)

    def atom(self, names):
        rng = self.rng
        r = rng.random()
        if r < 0.45 and names:
            return rng.choice(names)
        if r < 0.62:
            return str(rng.choice([0, 1, 2, 3, 7, 10, 255]))
        if r < 0.80:
            return repr(rng.choice([0.5, 2.5, 1.0, 7.75]))
        if r < 0.88:
            return rng.choice(["True", "False"])
        return repr(rng.choice(["x", "ab", ""]))

    def expr(self, d, names, calls=True):
        rng = self.rng
        if d <= 0 or rng.random() < 0.3:
            return self.atom(names)
        r = rng.random()
        if r < 0.40:
            return f"({self.expr(d - 1, names, calls)} {rng.choice(['+', '+', '-', '*', '*', '/', '%'])} {self.expr(d - 1, names, calls)})"
        if r < 0.48:
            return f"({self.expr(d - 1, names, calls)} {rng.choice(['<', '>', '==', '!='])} {self.expr(d - 1, names, calls)})"
        if r < 0.54:
            return f"({self.expr(d - 1, names, calls)} {rng.choice(['and', 'or'])} {self.expr(d - 1, names, calls)})"
        if r < 0.60:
            return f"({rng.choice(['-', 'not '])}{self.expr(d - 1, names, calls)})"
        if r < 0.68:
            return f"({self.expr(d - 1, names, calls)} if {self.atom(names)} else {self.expr(d - 1, names, calls)})"
        if r < 0.80:
            f = rng.choice(["abs", "min", "max", "int", "float", "bool", "str", "analog_read"])
            if f in ("min", "max"):
                return f"{f}({self.expr(d - 1, names, calls)}, {self.expr(d - 1, names, calls)})"
            if f == "analog_read":
                return "analog_read(\"A0\")"
            return f"{f}({self.expr(d - 1, names, calls)})"
        if r < 0.94 and calls and self.funcs:
            f = rng.choice(sorted(self.funcs))
            n = self.funcs[f]
            return f"{f}(" + ", ".join(self.expr(d - 1, names, calls) for _ in range(n)) + ")"
        return self.atom(names)

    def block(self, depth, names, in_fn, n=None):
        rng = self.rng
        out = []
        calls = True                      # incl. calls from inside function bodies: earlier / later helpers, itself (recursion)
        for _ in range(n if n is not None else rng.choice([1, 2, 2, 3])):
            r = rng.random()
            if depth > 0 and r < 0.22:
                brs = [(self.cond(names), self.block(depth - 1, names, in_fn)) for _ in range(rng.choice([1, 1, 2, 3]))]
                els = self.block(depth - 1, names, in_fn) if rng.random() < 0.6 else None
                out.append(("if", brs, els))
            elif depth > 0 and r < 0.30:
                out.append(("while", self.cond(names), self.block(depth - 1, names, in_fn)))
            elif depth > 0 and r < 0.38:
                out.append(("for", rng.choice(["i", "j", "a"]), rng.choice(["3", "a", "2"]), self.block(depth - 1, names, in_fn)))
            elif r < 0.46:
                out.append(("aug", rng.choice(names), rng.choice(["+", "-", "*", "+"]), self.expr(1, names, calls)))
            elif r < 0.54:                                   # a comprehension whose target is (mostly) a name of the enclosing scope
                t = rng.choice(names) if rng.random() < 0.75 else "e"
                out.append(("assignc", rng.choice(["L1", "L1", "L2"]), t, rng.choice(["3", "2", "a"]), self.expr(rng.choice([0, 1, 1]), names + [t, t], calls)))
            elif in_fn and r < 0.58:
                out.append(("return", None if rng.random() < 0.12 else self.expr(2, names, calls)))
            elif r < 0.66:                                   # tuple assignment: new and old names, swaps, an extra value
                k = rng.choice([2, 2, 3])
                tnames = [rng.choice(names + ["m", "n"]) for _ in range(k)]
                vals = [self.expr(rng.choice([0, 1, 1]), names, calls) for _ in range(k + (rng.random() < 0.1))]
                if rng.random() < 0.2 and len(names) >= 2:
                    tnames = rng.sample(names, 2)
                    vals = list(reversed(tnames))
                out.append(("tassign", tnames, vals))
            else:
                out.append(("assign", rng.choice(names), self.expr(rng.choice([0, 1, 2, 2]), names, calls)))
        return out

    def cond(self, names):
        return f"{self.rng.choice(names)} {self.rng.choice(['<', '>', '!='])} {self.rng.choice([0, 1, 5])}"

    def program(self):
        rng = self.rng
        items = []
        nf = rng.choice([0, 0, 1, 1, 2])
        fnames = ["f", "g"][:nf]
        for f in fnames:
            self.funcs[f] = rng.choice([0, 1, 1, 2, 2])
        pending = list(fnames)
        for _ in range(rng.choice([2, 3, 4, 5, 6])):
            if pending and rng.random() < 0.4:
                f = pending.pop(0)
                params = ["p", "q"][:self.funcs[f]]
                items.append(("def", f, params, self.block(2, params + ["z", "w", "a"], True)))
            else:
                items.append(("stmt", self.block(2, self.VARS, False, n=1)[0]))
        for f in pending:
            params = ["p", "q"][:self.funcs[f]]
            items.append(("def", f, params, self.block(2, params + ["z", "w", "a"], True)))
            if rng.random() < 0.7:
                items.append(("stmt", ("assign", rng.choice(self.VARS), self.expr(2, self.VARS))))
        if rng.random() < 0.6:
            items.append(("loop", self.block(2, self.VARS + ["r", "t"], False)))
        return items


FIXED_PROGRAMS = [
    [("stmt", ("assign", "a", "1")), ("stmt", ("assign", "a", "2.5"))],
    [("stmt", ("assign", "a", "2.5")), ("stmt", ("assign", "a", "1"))],
    [("stmt", ("assign", "a", "1")), ("stmt", ("aug", "a", "+", "0.5")), ("stmt", ("assign", "b", "a"))],
    [("stmt", ("if", [("1 > 0", [("assign", "a", "1")])], [("assign", "a", "2.5")]))],
    [("stmt", ("if", [("1 > 0", [("assign", "a", "2.5")]), ("2 > 0", [("assign", "a", "1"), ("assign", "b", "'x'")])], None))],
    [("stmt", ("while", "1 > 2", [("assign", "a", "2.5"), ("assign", "b", "a")]))],
    [("stmt", ("for", "i", "3", [("assign", "a", "i"), ("assign", "i", "2.5")]))],
    [("def", "f", ["p"], [("return", "p")]), ("stmt", ("assign", "a", "f(1)")), ("stmt", ("assign", "b", "f(2.5)")), ("stmt", ("assign", "c", "f('x')"))],
    [("stmt", ("assign", "a", "f(1)")), ("def", "f", ["p"], [("return", "p * 2.5")]), ("stmt", ("assign", "b", "f(True)"))],
    [("def", "f", ["p", "q"], [("if", [("p > 1", [("return", "1")])], None), ("return", "2.5")]), ("stmt", ("assign", "a", "f(1, 2)"))],
    [("def", "f", [], [("return", "True")]), ("def", "g", ["p"], [("assign", "p", "2.5"), ("return", "p")]), ("stmt", ("assign", "a", "f()")), ("stmt", ("assign", "b", "g(1)"))],
    [("def", "f", ["p"], [("if", [("p > 1", [("assign", "z", "1")])], [("assign", "z", "2.5")]), ("return", "z")]),
     ("def", "g", ["p"], [("while", "p > 1", [("assign", "z", "2.5"), ("assign", "p", "p - 1")]), ("return", "p")]),
     ("stmt", ("assign", "a", "f(1)")), ("stmt", ("assign", "b", "g(1)"))],
    [("stmt", ("assign", "s", "'x'")), ("stmt", ("assign", "a", "1")), ("stmt", ("assign", "b", "a * s")), ("stmt", ("assign", "c", "a"))],
    [("loop", [("assign", "r", "analog_read(\"A0\")"), ("assign", "t", "r / 4.0"), ("if", [("r > 1", [("assign", "k", "t")])], None)])],
    [("stmt", ("assign", "a", "1")), ("loop", [("assign", "a", "a + 0.5"), ("assign", "b", "a")])],
    [("def", "f", ["p"], [("return", None)]), ("stmt", ("assign", "a", "f(1)"))],
    [("def", "f", ["p"], [("return", "'x'"), ("return", "1")])],
    [("def", "f", ["p"], [("return", "p")]), ("stmt", ("assign", "a", "f(1, 2)"))],
    # comprehension targets shadowing a float / str / undeclared name, at top level, in a def, in the main loop
    [("stmt", ("assign", "a", "0.0")), ("stmt", ("assignc", "L1", "a", "4", "a * 2")), ("stmt", ("assign", "b", "a * 2"))],
    [("stmt", ("assign", "s", "''")), ("stmt", ("assignc", "L1", "s", "2", "s + 1")), ("stmt", ("assign", "b", "s")), ("stmt", ("assignc", "L1", "e", "2", "e * 0.5"))],
    [("def", "f", ["p"], [("assign", "z", "0.0"), ("for", "i", "3", [("assign", "z", "z + 0.5")]), ("assignc", "L1", "z", "p", "z + p"), ("assign", "w", "z * 3"), ("return", "w")]),
     ("stmt", ("assign", "a", "f(2)")), ("stmt", ("assign", "b", "f(2.5)")), ("loop", [("assign", "c", "False"), ("assignc", "L2", "c", "2", "c"), ("assign", "d", "c")])],
    # parameters widened by the body: alias-reached variants, call sites in both orders (and the overwritten variant)
    [("def", "f", ["p", "q"], [("assign", "p", "p + q"), ("return", "p")]), ("stmt", ("assign", "x", "0.5")), ("stmt", ("assign", "a", "f(x, x)")),
     ("stmt", ("assign", "b", "f(1, x)")), ("stmt", ("assign", "c", "f(2, 3)")), ("stmt", ("assign", "d", "f(True, x)"))],
    [("def", "f", ["p", "q"], [("assign", "w", "p * 2"), ("aug", "p", "+", "q"), ("return", "p + w")]), ("stmt", ("assign", "x", "0.5")),
     ("stmt", ("assign", "a", "f(1, x)")), ("stmt", ("assign", "b", "f(x, x)")), ("stmt", ("assign", "c", "f(1, x)"))],
    # the witness programs of C02_loop_hoist_stale_table_refuted / C02_loop_hoist_fresh_table / C02_param_relabel_refuted
    [("stmt", ("assign", "mode", "2")), ("stmt", ("if", [("mode > 1", [("assign", "gain", "1.5")])], [("assign", "gain", "0.5")])),
     ("def", "f", ["p"], [("if", [("p > 1", [("assign", "out", "1")])], [("assign", "out", "2")]), ("return", "out")]),
     ("def", "g", ["p"], [("assign", "k", "0"), ("while", "k < 2", [("assign", "out", "p * 0.5"), ("assign", "k", "k + 1")]), ("return", "out")]),
     ("stmt", ("assign", "a", "f(3)")), ("stmt", ("assign", "b", "g(3)"))],
    [("def", "f", ["p"], [("if", [("p > 1", [("assign", "out", "1")])], [("assign", "out", "2")]), ("return", "out")]),
     ("def", "g", ["p"], [("assign", "k", "0"), ("while", "k < 2", [("assign", "out", "p * 0.5"), ("assign", "k", "k + 1")]), ("return", "out")]),
     ("stmt", ("assign", "a", "f(3)")), ("stmt", ("assign", "b", "g(3)"))],
    [("def", "f", ["p"], [("assign", "q", "p * 2"), ("assign", "p", "1"), ("return", "q")]),
     ("stmt", ("assign", "x", "2.5")), ("stmt", ("assign", "a", "f(x)"))],
    # the function of C02_function_result_nonvacuous, and differently typed returns under several call signatures
    [("def", "f", ["count", "limit"], [("if", [("count < 0", [("return", "False")])], None), ("if", [("count >= limit", [("return", "True")])], None),
                                       ("return", "count + 1")]),
     ("stmt", ("assign", "a", "f(3, 10)")), ("stmt", ("assign", "x", "2.5")), ("stmt", ("assign", "b", "f(x, 10)")), ("stmt", ("assign", "c", "f(True, 1)"))],
    # helpers calling helpers: an earlier helper under a new signature (variant parsed on demand inside the caller's body),
    # a later helper (no source yet), itself (recursion: _refreshing_functions), a chain of three
    [("def", "f", ["p"], [("return", "p")]), ("def", "g", ["p"], [("return", "f(p) + f(p)")]),
     ("stmt", ("assign", "x", "2.5")), ("stmt", ("assign", "a", "g(x)")), ("stmt", ("assign", "b", "g(3)"))],
    [("def", "g", ["p"], [("assign", "z", "f(p)"), ("return", "z")]), ("def", "f", ["p"], [("return", "p * 0.5")]),
     ("stmt", ("assign", "a", "g(1)")), ("stmt", ("assign", "b", "g(2.5)"))],
    [("def", "f", ["p"], [("if", [("p > 0", [("return", "f(p - 1)")])], None), ("return", "p * 0.5")]),
     ("stmt", ("assign", "a", "f(3)")), ("stmt", ("assign", "b", "f(2.5)"))],
    [("def", "f", ["p"], [("return", "p")]), ("def", "g", ["p", "q"], [("assign", "w", "f(q)"), ("return", "w + f(p)")]),
     ("def", "h", ["p"], [("for", "i", "2", [("assign", "z", "g(p, i)")]), ("return", "g(p, 0.5)")]),
     ("stmt", ("assign", "s", "'x'")), ("stmt", ("assign", "a", "h(1)")), ("stmt", ("assign", "b", "h(2.5)")), ("stmt", ("assign", "c", "f(s)"))],
    # callers defined ABOVE the helper they call: the helper gets a variant from the caller's def-time parse (int), more from the
    # real calls (float, bool), directly and through another helper; the def-time variant of the caller keeps its int typing
    [("def", "g", ["p"], [("return", "f(p) + 1")]), ("def", "f", ["p"], [("return", "p * 2")]),
     ("stmt", ("assign", "x", "1.5")), ("stmt", ("assign", "a", "g(x)")), ("stmt", ("assign", "b", "f(3)")), ("stmt", ("assign", "c", "g(True)"))],
    [("def", "h", ["p"], [("assign", "w", "g(p)"), ("return", "w * 2")]), ("def", "g", ["p"], [("return", "f(p, 1) + f(p, p)")]),
     ("def", "f", ["p", "q"], [("return", "p + q")]), ("stmt", ("assign", "x", "1.5")), ("stmt", ("assign", "a", "h(x)")),
     ("stmt", ("assign", "b", "h(3)")), ("stmt", ("assign", "c", "g(True)")), ("stmt", ("assign", "d", "f(x, x)"))],
    [("def", "g", ["p"], [("return", "f(p) + 1")]), ("def", "f", ["p"], [("return", "p * 0.5")]), ("stmt", ("assign", "a", "g(3)"))],
    # tuple assignments: all-new names at column 0 (globals, no temporaries), a swap, mixed new/old, inside a block,
    # in a def, in the main loop, one name twice
    [("stmt", ("tassign", ["a", "b", "s"], ["1", "2.5", "'x'"])), ("stmt", ("tassign", ["a", "b"], ["b", "a"])),
     ("stmt", ("tassign", ["a", "c"], ["a + 1", "a * 0.5"])), ("stmt", ("if", [("a > 0", [("tassign", ["d", "e"], ["True", "b"])])], None)),
     ("def", "f", ["p"], [("tassign", ["z", "w"], ["p", "p * 0.5"]), ("tassign", ["z", "w"], ["w", "z"]), ("return", "z")]),
     ("stmt", ("assign", "u", "f(1)")), ("loop", [("tassign", ["r", "t"], ["a", "2.5"]), ("tassign", ["r", "r"], ["1", "2"])])],
    [("stmt", ("if", [("1 > 0", [("assign", "g", "1.5")])], [("assign", "g", "0.5")])),
     ("def", "f", ["v"], [("if", [("v > 1", [("assign", "r", "v * 2")])], [("assign", "r", "v")]), ("return", "r")]),
     ("stmt", ("assign", "n", "3")), ("stmt", ("assign", "x", "1.25")), ("stmt", ("assign", "a", "f(n)")), ("stmt", ("assign", "b", "f(x)")),
     ("stmt", ("assign", "s", "'t'")), ("stmt", ("assign", "c", "f(s)"))],
]


def norm_decls(l):
    return sorted([str(n), str(t)] for n, t in l)


def norm_set(l):
    """globals as a set of (name, type): the emitter drops a global declaration line identical to an earlier one"""
    return sorted([n, t] for n, t in {(str(n), str(t)) for n, t in l})


def part_b(ctx, stats):
    rng = ctx.rng
    n = 1500 if ctx.tier == "thorough" else 260
    progs = list(FIXED_PROGRAMS)
    for _ in range(n):
        progs.append(TypGen(rng).program())
    srcs = [render_items(p) for p in progs]
    impl = []
    for i in range(0, len(srcs), 300):
        impl += C.run_impl("c02_impl.py", {"cases": [["decls", s] for s in srcs[i:i + 300]]}, timeout=900)
    model = ctx.model([[5, MODEL_CTX, wire_items(p)] for p in progs]) if ctx.exe else [None] * len(progs)
    st = {"accepted": 0, "rejected": 0, "globals": 0, "loop_locals": 0, "functions": 0, "function_locals": 0, "params": 0,
          "ctypes": {}}
    nontrivial = set()
    for p, src, r, m in zip(progs, srcs, impl, model):
        body = src[len(HEADER):]
        if "exc" in r:
            st["rejected"] += 1
            if r["exc"] != "ValueError":
                ctx.fail(f"transpiler raised {r['exc']} (not ValueError)", {"script": src}, "ValueError or success", r, key="reject-kind")
            if m is not None and not (m[0] == 1):
                ctx.disagree("decls: real parser rejects, model accepts", body, "accepted", r)
            continue
        st["accepted"] += 1
        if m is None:
            continue
        if m[0] != 0:
            ctx.disagree("decls: model rejects/undecodable, real parser accepts", body, m, "accepted")
            continue
        user = {it[1] for it in p if it[0] == "def"}
        fw_funcs = [f for f in r["funcs"] if f["name"] in user]
        fw_setup = [f for f in r["funcs"] if f["name"] == "setup"]
        fw_loop = [f for f in r["funcs"] if f["name"] == "loop"]
        def split_tmps(locs):
            """tuple-assignment temporaries (`__tmp_assign_k`) are compared by the multiset of their C types"""
            named = [x for x in locs if not str(x[0]).startswith("__tmp_assign_")]
            return named, sorted(str(x[1]) for x in locs if str(x[0]).startswith("__tmp_assign_"))
        s_named, s_tmps = split_tmps(fw_setup[0]["locals"]) if fw_setup else ([], [])
        l_named, l_tmps = split_tmps(fw_loop[0]["locals"]) if fw_loop else ([], [])
        got = {
            # a NEW name declared at column 0 by a tuple assignment that also re-assigns an old one is emitted as a local of
            # setup() (its scope is C05/C06's subject); the model lists every column-0 declaration in p_globals
            "globals": norm_set(list(r["globals"]) + list(s_named)),
            "setup_locals": [],
            "loop_locals": norm_decls(l_named),
            "functions": sorted([f["name"], f["ret"], [list(x) for x in (f["params"] or [])], norm_decls(split_tmps(f["locals"])[0]),
                                 split_tmps(f["locals"])[1]] for f in fw_funcs),
            "tuple_temporaries": sorted(s_tmps + l_tmps),
        }
        exp = {
            "globals": norm_set([(C.wstr(x), dec_ctype(t)) for x, t in m[1]]),
            "setup_locals": [],
            "loop_locals": norm_decls([(C.wstr(x), dec_ctype(t)) for x, t in m[2]]),
            "functions": sorted([C.wstr(f[0]), dec_ctype(f[1]), [[C.wstr(x), dec_ctype(t)] for x, t in f[2]],
                                 norm_decls([(C.wstr(x), dec_ctype(t)) for x, t in f[3]]), sorted(dec_ctype(t) for t in f[4])] for f in m[3]),
            "tuple_temporaries": sorted(dec_ctype(t) for t in m[6]),
        }
        st["tuple_temporaries"] = st.get("tuple_temporaries", 0) + len(got["tuple_temporaries"]) + sum(len(f[4]) for f in got["functions"])
        if got != exp:
            first = next(k for k in got if got[k] != exp[k])
            ctx.disagree(f"decls: declared C types differ ({first})", body, exp, {k: got[k] for k in got})
            continue
        st["globals"] += len(got["globals"])
        st["loop_locals"] += len(got["loop_locals"])
        st["functions"] += len(got["functions"])
        for f in got["functions"]:
            st["params"] += len(f[2])
            st["function_locals"] += len(f[3])
            st["ctypes"][f[1]] = st["ctypes"].get(f[1], 0) + 1
        for _, t in got["globals"] + got["loop_locals"]:
            st["ctypes"][t] = st["ctypes"].get(t, 0) + 1
        if len(got["globals"]) + len(got["loop_locals"]) + len(got["functions"]) >= 2:
            nontrivial.add(body)
    stats["decl_programs"] = st
    stats["decl_distinct_nontrivial"] = len(nontrivial)
    return len(progs), [render_items(progs[len(FIXED_PROGRAMS)])[len(HEADER):], render_items(progs[-1])[len(HEADER):]]


# --------------------------------------------------------------------------- part (c): firmware values vs CPython values
KORD = {"bool": 0, "int": 1, "float": 2, "str": 9}
LABEL_KIND = {"bool": "bool", "int": "int", "float": "float", "String": "str"}

# helper-function templates: source lines, arity, result kind as a function of the argument kinds
def _join(*ks):
    return "float" if "float" in ks else "int"


FUNC_TEMPLATES = [
    ("ident", 1, ["return p"], lambda k: k[0]),
    ("addq", 2, ["z = p + q", "return z"], lambda k: _join(*k)),
    ("pick", 1, ["if p > 1:", "    return 1", "return 2.5"], lambda k: "float"),
    ("scale", 2, ["w = p * 2", "if q > 0:", "    return w", "return 0.5"], lambda k: "float"),
    ("flag", 1, ["if p > 2:", "    return True", "return False"], lambda k: "bool"),
    ("twice", 1, ["return ident(p) + ident(p)"], lambda k: _join(k[0])),          # a helper calling a helper
    ("count", 1, ["n = p + 0", "for i in range(3):", "    n = n + p", "return n"], lambda k: _join(k[0])),
    ("hoist", 1, ["if p > 1:", "    y = p * 0.5", "else:", "    y = 1.5", "return y"], lambda k: "float"),
]


class RunGen:
    """runnable programs inside the guard: every name is declared by its first assignment (text order) with kind K,
    later assignments have kind <= K (bool < int < float, str alone); a name whose current label is below its
    declared kind is not read by a right-hand side until it is re-assigned at its declared kind; names first
    assigned inside a nested block keep one kind; helper bodies read only parameters and locals."""

    def __init__(self, rng):
        self.rng = rng
        self.decl = {}            # name -> declared kind (whole program: names are distinct per scope)
        self.fresh = 0
        self.mixed = 0            # assignments of a narrower kind into a wider variable
        self.calls = 0
        self.mixed_ifexp = 0
        self.augs = 0
        self.used_funcs = set()
        self.comps = 0            # list comprehensions
        self.comp_shadow = {}     # kind of the enclosing variable the comprehension target shadows -> count
        self.comp_shadow_falsy = 0  # ... whose parser-known constant is falsy (0, 0.0, False, "") while its run-time value is not
        self.accumulators = 0
        self.tuples = {}          # tuple assignments by the set of kinds they declare

    def newname(self, prefix="v"):
        self.fresh += 1
        return f"{prefix}{self.fresh}"

    # ---- typed expressions (rd: dict kind -> readable names)
    def int_e(self, d, rd):
        rng = self.rng
        if d <= 0 or rng.random() < 0.35:
            r = rng.random()
            if r < 0.45 and rd["int"]:
                return rng.choice(rd["int"])
            if r < 0.52 and rd["bool"]:
                return f"({rng.choice(rd['bool'])} + {rng.choice([0, 1, 2])})"
            return str(rng.choice([0, 1, 2, 3, 5, 7, 10, 12, 255]))
        r = rng.random()
        if r < 0.55:
            return f"({self.int_e(d - 1, rd)} {rng.choice(['+', '-', '*'])} {self.int_e(d - 1, rd)})"
        if r < 0.65:
            return f"abs({self.int_e(d - 1, rd)} - 7)"
        if r < 0.75:
            return f"{rng.choice(['min', 'max'])}({self.int_e(d - 1, rd)}, {self.int_e(d - 1, rd)})"
        if r < 0.83:
            return f"({self.int_e(d - 1, rd)} if {self.bool_e(d - 1, rd)} else {self.int_e(d - 1, rd)})"
        if r < 0.90:                                      # the bool/int join of a conditional expression, both orders
            a, b = self.bool_e(d - 1, rd), self.int_e(d - 1, rd)
            if rng.random() < 0.5:
                a, b = b, a
            self.mixed_ifexp += 1
            return f"({a} if {self.bool_e(d - 1, rd)} else {b})"
        return f"int({self.float_e(d - 1, rd)})"

    def float_e(self, d, rd):
        rng = self.rng
        if d <= 0 or rng.random() < 0.35:
            if rd["float"] and rng.random() < 0.5:
                return rng.choice(rd["float"])
            return repr(rng.choice([0.5, 2.5, 1.0, 7.75, 0.25, 3.0, 12.5, 0.0]))
        r = rng.random()
        if r < 0.30:
            return f"({self.int_e(d - 1, rd)} * {rng.choice(['0.5', '2.5', '1.0'])})"
        if r < 0.55:
            return f"({self.float_e(d - 1, rd)} {rng.choice(['+', '-', '*'])} {self.float_e(d - 1, rd)})"
        if r < 0.68:
            return f"({self.float_e(d - 1, rd)} {rng.choice(['+', '-'])} {self.int_e(d - 1, rd)})"
        if r < 0.78:
            return f"float({self.int_e(d - 1, rd)})"
        if r < 0.90:
            return f"({self.int_e(d - 1, rd)} / {rng.choice(['4.0', '2.0', '0.5'])})"
        a, b = self.float_e(d - 1, rd), (self.int_e(d - 1, rd) if rng.random() < 0.6 else self.float_e(d - 1, rd))
        if rng.random() < 0.5:
            a, b = b, a                                   # the float/int join of a conditional expression, both orders
        return f"({a} if {self.bool_e(d - 1, rd)} else {b})"

    def bool_e(self, d, rd):
        rng = self.rng
        if d <= 0 or rng.random() < 0.3:
            if rd["bool"] and rng.random() < 0.5:
                return rng.choice(rd["bool"])
            return rng.choice(["True", "False"])
        r = rng.random()
        if r < 0.4:
            return f"({self.int_e(d - 1, rd)} {rng.choice(['<', '>', '==', '!=', '<=', '>='])} {self.int_e(d - 1, rd)})"
        if r < 0.6:
            return f"({self.float_e(d - 1, rd)} {rng.choice(['<', '>'])} {self.float_e(d - 1, rd)})"
        if r < 0.75:
            return f"(not {self.bool_e(d - 1, rd)})"
        return f"({self.bool_e(d - 1, rd)} {rng.choice(['and', 'or'])} {self.bool_e(d - 1, rd)})"

    def str_e(self, d, rd):
        rng = self.rng
        if d <= 0 or rng.random() < 0.45:
            if rd["str"] and rng.random() < 0.5:
                return rng.choice(rd["str"])
            return repr(rng.choice(["x", "ab", "", "v="]))
        if rd["str"] and rng.random() < 0.6:
            return f"({rng.choice(rd['str'])} + {self.str_e(d - 1, rd)})"       # a String variable on the left: "x" + "y" is not C++
        return f"str({self.int_e(d - 1, rd)} + 0)"      # + 0: str(True) is "True" but String(true) is "1" (text form of bool: C01's subject)

    def expr(self, kind, d, rd):
        return {"int": self.int_e, "float": self.float_e, "bool": self.bool_e, "str": self.str_e}[kind](d, rd)

    def arg_e(self, kind, rd):
        """call arguments are variables or int/bool literals, so that the C++ argument type is exactly the label
        (a float literal is a double and makes a call with two variants ambiguous: compilability is C06's subject)"""
        rng = self.rng
        if rd[kind] and (kind == "float" or rng.random() < 0.6):
            return rng.choice(rd[kind])
        if kind == "int":
            return str(rng.choice([0, 1, 2, 3, 7]))
        if kind == "bool":
            return rng.choice(["True", "False"])
        return None

    def call_e(self, rd, want, exact):
        """a call of a helper template whose result kind is <= want (== want if exact); returns (src, kind) or None"""
        rng = self.rng
        for _ in range(8):
            name, ar, _, resk = rng.choice(FUNC_TEMPLATES)
            ks = [rng.choice(["int", "int", "float", "bool"]) for _ in range(ar)]
            k = resk(ks)
            args = [self.arg_e(x, rd) for x in ks]
            if None in args:
                continue
            if (k == want if exact else KORD[k] <= KORD[want]) and want != "str":
                self.used_funcs.add(name)
                if name == "twice":
                    self.used_funcs.add("ident")
                self.calls += 1
                return f"{name}(" + ", ".join(args) + ")", k
        return None

    # ---- statements.  st: {"assigned": set, "label_ok": set} ; names in both are readable
    def rd(self, st):
        out = {"int": [], "float": [], "bool": [], "str": []}
        for n in sorted(st["assigned"] & st["label_ok"]):
            out[self.decl[n]].append(n)
        return out

    def assign(self, st, nested, allow_new=True):
        rng = self.rng
        rd = self.rd(st)
        existing = sorted(n for n in self.decl if n in st["known"])
        if existing and (not allow_new or rng.random() < 0.6):
            x = rng.choice(existing)
            K = self.decl[x]
            if K == "str" or x in st["nested_names"]:
                k = K
            else:
                k = rng.choice([kk for kk in ("bool", "int", "float") if KORD[kk] <= KORD[K]])
        else:
            x = self.newname()
            K = k = rng.choice(["int", "int", "float", "float", "bool", "str"])
            self.decl[x] = K
            st["known"].add(x)
            if nested:
                st["nested_names"].add(x)
        if (x in st["assigned"] and x in st["label_ok"] and K in ("int", "float") and rng.random() < 0.25):
            # x op= e keeps the label of x: float op anything numeric is float, int op int/bool is int
            ek = rng.choice(["int", "bool"] if K == "int" else ["int", "float", "bool"])
            self.augs += 1
            return [("aug", x, rng.choice(["+", "-", "*"]), self.expr(ek, rng.choice([0, 1]), rd)), ("write", x)]
        src = None
        if K != "str" and rng.random() < 0.22:
            c = self.call_e(rd, k, exact=(K == k))
            if c:
                src, k = c
        if src is None:
            src = self.expr(k, rng.choice([0, 1, 1, 2]), rd)
        if k != K:
            self.mixed += 1
            st["label_ok"].discard(x)
        else:
            st["label_ok"].add(x)
        st["assigned"].add(x)
        return [("assign", x, src), ("write", x)]

    # ---- list comprehensions: the target is typed int while the element is translated and the enclosing scope's
    #      knowledge about a same-named variable must be back afterwards (the target does not leak in Python 3)
    def _new(self, st, kind, nested):
        x = self.newname()
        self.decl[x] = kind
        st["known"].add(x)
        if nested:
            st["nested_names"].add(x)
        st["assigned"].add(x)
        st["label_ok"].add(x)
        return x

    def derive(self, st, x, nested):
        """a NEW variable computed from x (so that its declaration is typed from the label of x), written out"""
        rng = self.rng
        K = self.decl[x]
        src = {"int": [f"({x} + 1)", f"({x} * 3)", x], "float": [f"({x} * 2)", f"({x} + 0.5)", x, f"({x} * 3)"],
               "bool": [f"(not {x})", x], "str": [f"({x} + \"!\")", x]}[K]
        v = self._new(st, K, nested)
        return [("assign", v, rng.choice(src)), ("write", v)]

    def comp(self, st, nested, shadow=None):
        rng = self.rng
        rd = self.rd(st)
        cands = sorted(n for n in st["known"] if n in self.decl)
        if shadow is None and cands and rng.random() < 0.65:
            shadow = rng.choice(cands)
        t = shadow if shadow is not None else self.newname("c")
        rd2 = {k: [n for n in v if n != t] for k, v in rd.items()}
        rd2["int"] = rd2["int"] + [t, t]
        ek = rng.choice(["int", "int", "float", "float", "bool"])
        elt = self.expr(ek, rng.choice([1, 1, 2]), rd2)
        if t not in elt and rng.random() < 0.7:
            elt = {"int": f"({t} + {elt})", "float": f"({t} * 0.5 + {elt})", "bool": f"({t} > 1)"}[ek]
        n = rng.choice([1, 2, 3, 4])
        self.fresh += 1
        L = f"L{self.fresh}"
        out = [("assign", L, f"[{elt} for {t} in range({n})]"), ("write", f"{L}[{rng.randrange(n)}]")]
        self.comps += 1
        if shadow is not None:
            K = self.decl[shadow]
            self.comp_shadow[K] = self.comp_shadow.get(K, 0) + 1
            if shadow in st["assigned"] and shadow in st["label_ok"]:
                out += self.derive(st, shadow, nested)
        return out

    def tuple_assign(self, st, nested):
        """x, y = e1, e2 : two or three NEW names of different kinds declared by one statement, or a swap of two readable
        variables of one numeric kind"""
        rng = self.rng
        rd = self.rd(st)
        same = [k for k in ("int", "float") if len(rd[k]) >= 2]
        if same and rng.random() < 0.35:
            k = rng.choice(same)
            a, b = rng.sample(rd[k], 2)
            self.tuples["swap"] = self.tuples.get("swap", 0) + 1
            return [("tassign", [a, b], [b, a]), ("write", a), ("write", b)]
        kinds = [rng.choice(["int", "float", "bool", "str"]) for _ in range(rng.choice([2, 2, 3]))]
        srcs = [self.expr(k, rng.choice([0, 1]), rd) for k in kinds]
        names = [self._new(st, k, nested) for k in kinds]
        key = "+".join(sorted(set(kinds)))
        self.tuples[key] = self.tuples.get(key, 0) + 1
        return [("tassign", names, srcs)] + [("write", n) for n in names]

    ZERO = {"int": ["0", "0", "5"], "float": ["0.0", "0.0", "2.25"], "bool": ["False", "False", "True"], "str": ['""', '""', '"ab"']}

    def accumulator(self, st, nested):
        """acc = <constant, mostly a falsy one>; updated only inside a loop / branch body (so that whatever the parser
        knows about its value is stale); then a comprehension whose target re-uses the name; then a new variable
        derived from it"""
        rng = self.rng
        K = rng.choice(["float", "float", "int", "bool", "str"])
        init = rng.choice(self.ZERO[K])
        acc = self._new(st, K, nested)
        upd = {"float": f"({acc} + {rng.choice(['0.5', '0.25', '1.5'])})", "int": f"({acc} + {rng.choice(['1', '2', '7'])})",
               "bool": f"(not {acc})", "str": f"({acc} + \"x\")"}[K]
        out = [("assign", acc, init)]
        shape = rng.random()
        if shape < 0.45:
            i = self.newname("i")
            self.decl[i] = "int"
            out.append(("for", i, str(rng.choice([1, 3])), [("assign", acc, upd)]))
        elif shape < 0.7:
            k = self.newname("k")
            self.decl[k] = "int"
            st["assigned"].add(k); st["label_ok"].add(k)
            out += [("assign", k, "0"), ("while", f"{k} < {rng.choice([1, 3])}", [("assign", acc, upd), ("assign", k, f"{k} + 1")])]
        else:
            out.append(("if", [("1 > 0", [("assign", acc, upd)])], None))
        out.append(("write", acc))
        self.accumulators += 1
        if init in ("0", "0.0", "False", '""'):
            self.comp_shadow_falsy += 1
        out += self.comp(st, nested, shadow=acc)
        return out

    def block(self, st, depth, nested, n=None):
        rng = self.rng
        out = []
        for _ in range(n if n is not None else rng.choice([2, 3, 4])):
            r = rng.random()
            if not nested and rng.random() < 0.10:
                out += self.accumulator(st, nested)
                continue
            if not nested and rng.random() < 0.10:
                out += self.comp(st, nested)
                continue
            if not nested and rng.random() < 0.08:
                out += self.tuple_assign(st, nested)
                continue
            if depth > 0 and r < 0.2:
                brs = []
                for _ in range(rng.choice([1, 1, 2])):
                    c = self.bool_e(1, self.rd(st))
                    brs.append((c, self.block(self.child(st), depth - 1, True)))
                els = self.block(self.child(st), depth - 1, True) if rng.random() < 0.6 else None
                out.append(("if", brs, els))
            elif depth > 0 and r < 0.30:
                i = self.newname("i")
                self.decl[i] = "int"
                ch = self.child(st)
                ch["assigned"].add(i); ch["label_ok"].add(i)
                out.append(("for", i, str(rng.choice([1, 2, 3])), self.block(ch, depth - 1, True)))
            elif depth > 0 and r < 0.38:
                k = self.newname("k")
                self.decl[k] = "int"
                st["assigned"].add(k); st["label_ok"].add(k)          # readable, never re-assigned by generated statements
                out.append(("assign", k, "0"))
                ch = self.child(st)
                body = self.block(ch, depth - 1, True) + [("assign", k, f"{k} + 1")]
                out.append(("while", f"{k} < {rng.choice([1, 2, 3])}", body))
            else:
                out += self.assign(st, nested)
        return out

    @staticmethod
    def child(st):
        return {"assigned": set(st["assigned"]), "label_ok": set(st["label_ok"]), "known": st["known"],
                "nested_names": st["nested_names"]}

    def program(self):
        rng = self.rng
        st = {"assigned": set(), "label_ok": set(), "known": set(), "nested_names": set()}
        top = self.block(st, 2, False, n=rng.choice([4, 5, 6, 7]))
        loop = None
        if rng.random() < 0.6:
            r = self.newname("r")
            self.decl[r] = "int"
            st["known"].add(r); st["assigned"].add(r); st["label_ok"].add(r)
            loop = [("assign", r, "analog_read(\"A0\")"), ("write", r)] + self.block(st, 1, False, n=rng.choice([2, 3, 4]))
        items = []
        for name, ar, body, _ in FUNC_TEMPLATES:
            if name in self.used_funcs:
                items.append(("rawdef", name, ["p", "q"][:ar], body))
        stmts = [("stmt", s_) for s_ in top]
        first_src = render_run(stmts[:1])
        defs_first = rng.random() < 0.75 or any((name + "(") in first_src for name, _, _, _ in FUNC_TEMPLATES)
        items = (items + stmts) if defs_first else (stmts[:1] + items + stmts[1:])
        if loop is not None:
            items.append(("loop", loop))
        return items


def render_run(items) -> str:
    out = [HEADER]
    for it in items:
        if it[0] == "rawdef":
            out.append(f"def {it[1]}({', '.join(it[2])}):\n")
            for ln in it[3]:
                out.append("    " + ln + "\n")
        elif it[0] == "stmt":
            render_block([it[1]], 0, out)
        else:
            out.append("while True:\n")
            render_block(it[1], 1, out)
    return "".join(out)


def _num(sx):
    try:
        return float(sx)
    except ValueError:
        return None


def same_value_line(fw_text, py_payload):
    """device Serial line vs CPython value at VALUE level: numbers numerically (bool = 0/1, 2 printed decimals), str exactly"""
    if "\t" in py_payload:
        text, ty = py_payload.rsplit("\t", 1)
    else:
        text, ty = py_payload, "str"
    if ty == "bool":
        b = _num(fw_text)
        return b is not None and abs(b - (1.0 if text == "True" else 0.0)) < 1e-9
    if ty in ("int", "float"):
        x, y = _num(fw_text), _num(text)
        if x is None or y is None:
            return False
        tol = 0.0051 if ("." in fw_text or ty == "float") else 0.0
        return abs(x - y) <= tol + 1e-6 * abs(y)
    return fw_text == text


def compare_values(fw_events, py_events):
    a = [e for e in fw_events if e.startswith("S ")]
    b = [e for e in py_events if e.startswith("S ")]
    for i in range(min(len(a), len(b))):
        if not same_value_line(a[i][2:], b[i][2:]):
            return {"index": i, "fw": a[i], "py": b[i]}
    if len(a) != len(b):
        n = min(len(a), len(b))
        return {"index": n, "fw": a[n] if n < len(a) else None, "py": b[n] if n < len(b) else None}
    return None


def out_of_range(py_events):
    """a run whose CPython values leave the range a 32-bit C int carries is outside the guard of the value oracle
    (C int width is C01's no-overflow guard, un-modelled here): every assigned value is written, so a blow-up shows"""
    for e in py_events:
        if e.startswith("S ") and "\t" in e:
            text, ty = e[2:].rsplit("\t", 1)
            if ty in ("int", "float"):
                v = _num(text)
                if v is not None and abs(v) >= 2 ** 30:
                    return True
    return False


def run_value_pairs(srcs, inputs, loops):
    tr = fw.transpile_many(srcs)
    py = fw.pyrun_many([{"src": s_, "input": i, "loops": l} for s_, i, l in zip(srcs, inputs, loops)])
    jobs, idx = [], []
    for k, (t, i, l) in enumerate(zip(tr, inputs, loops)):
        if t["ok"]:
            jobs.append({"cpp": t["cpp"], "input": i, "loops": l})
            idx.append(k)
    res = dict(zip(idx, fw.run_sketches(jobs)))
    out = []
    for k, (t, y) in enumerate(zip(tr, py)):
        if not t["ok"]:
            out.append({"status": "rejected", "exc": t["exc"], "msg": t.get("msg")})
            continue
        r = res[k]
        if y["exc"]:
            out.append({"status": "py-undefined", "exc": y["exc"]})
        elif out_of_range(y["events"]):
            out.append({"status": "outside-int-range"})
        elif not r["compiled"]:
            out.append({"status": "nocompile", "log": r["compile_log"][-800:], "cpp": t["cpp"]})
        elif r["rc"] != 0:
            out.append({"status": "fw-crash", "rc": r["rc"], "stderr": r["stderr"][-400:]})
        else:
            d = compare_values(r["events"], y["events"])
            out.append({"status": "equal" if d is None else "DIFF", "diff": d, "cpp": t["cpp"],
                        "n_values": sum(1 for e in y["events"] if e.startswith("S ")),
                        "fw": [e for e in r["events"] if e.startswith("S ")][:40],
                        "py": [e for e in y["events"] if e.startswith("S ")][:40]})
    return out


WITNESSES = {
    "F-C02-first-assignment-fixes-type": {"body": "a = 1\nmon.write(a)\na = 2.5\nmon.write(a)\n", "loops": 0},
    "F-C02-hoisted-branch-type": {"body": "c = 0\nif c > 1:\n    x = 1\nelse:\n    x = 2.5\nmon.write(x)\n", "loops": 0},
    "F-C02-aug-assign-narrowed": {"body": "a = 1\na += 0.5\nmon.write(a)\n", "loops": 0},
    "F-C02-flow-insensitive-label": {"body": "a = 2.5\na = 1\nk = 0\nwhile k < 2:\n    b = a\n    mon.write(b)\n    a = a + 0.5\n    k = k + 1\n", "loops": 0},
    "F-C02-abs-min-max-float-typed-int": {"body": "x = abs(-2.5)\nmon.write(x)\ny = max(1, 2.5)\nmon.write(y)\n", "loops": 0},
    "F-C02-int-division-typed-int": {"body": "n = 7\nh = n / 2\nmon.write(h)\n", "loops": 0},
    "F-C02-boolop-typed-bool": {"body": "n = 0\nv = n or 5\nmon.write(v)\n", "loops": 0},
    "F-C02-stale-promotion-type": {"body": "mode = 2\nif mode > 1:\n    gain = 1.5\nelse:\n    gain = 0.5\ndef f(p):\n    if p > 1:\n        out = 1\n    else:\n        out = 2\n    return out\ndef g(p):\n    k = 0\n    while k < 2:\n        out = p * 0.5\n        k = k + 1\n    return out\na = f(3)\nb = g(3)\nmon.write(a)\nmon.write(b)\n", "loops": 0},
    "F-C02-param-declared-from-last-label": {"body": "def f(p):\n    q = p * 2\n    p = 1\n    return q\nx = 2.5\na = f(x)\nmon.write(a)\n", "loops": 0},
    "F-C02-read-before-typed": {"body": "k = 0\nwhile k < 2:\n    if k > 0:\n        b = z\n        mon.write(b)\n    z = 2.5\n    k = k + 1\n", "loops": 0},
    "F-C02-forward-call-result-typed-int": {"body": "def scaled(x):\n    return twice(x) + 1\ndef twice(v):\n    return v * 0.5\nw = scaled(3)\nmon.write(w)\n", "loops": 0},
    "F-C02-call-site-never-typed": {"body": "def dbl(p):\n    return int(p * 2)\nx = 2.5\nflag = (dbl(x) > 4)\nmon.write(flag)\nmon.write(dbl(x))\nn = 0\nif dbl(x) > 4:\n    n = 1\nmon.write(n)\n", "loops": 0},
    "F-C02-widened-variant-overwritten": {"body": "def blend(a, b):\n    w = a * 2\n    a = a + b\n    return a + w\nx = 0.75\ny = 0.25\np = blend(x, y)\nq = blend(1, y)\nmon.write(p)\nmon.write(q)\n", "loops": 0},
}


def part_c(ctx, stats):
    rng = ctx.rng
    n = 1000 if ctx.tier == "thorough" else 48
    gens, progs = [], []
    for _ in range(n):
        g = RunGen(rng)
        progs.append(g.program())
        gens.append(g)
    srcs = [render_run(p) for p in progs]
    loops = [(rng.choice([1, 2]) if p and p[-1][0] == "loop" else 0) for p in progs]
    inputs = ["ar 14 %s\n" % " ".join(str(rng.choice([0, 5, 300, 1023, 512])) for _ in range(4)) for _ in progs]
    res = run_value_pairs(srcs, inputs, loops)
    st = {}
    nontrivial = set()
    values = 0
    for src, g, l, i, r in zip(srcs, gens, loops, inputs, res):
        st[r["status"]] = st.get(r["status"], 0) + 1
        case = {"script": src, "input": i, "loops": l}
        if r["status"] == "DIFF":
            ctx.fail("a value on the device differs from the value CPython holds (program inside the guard)", case,
                     r["py"], {"first_difference": r["diff"], "firmware": r["fw"], "cpp": r["cpp"]}, key="value-diff")
        elif r["status"] == "nocompile":
            ctx.fail("accepted script inside the guard does not compile", case, "compilable C++", r["log"], key="nocompile")
        elif r["status"] == "fw-crash":
            ctx.fail("firmware crashed", case, "rc 0", r, key="fw-crash")
        elif r["status"] == "rejected":
            ctx.fail(f"transpiler rejected a program inside the guard ({r['exc']})", case, "accepted", r, key="rejected")
        elif r["status"] == "equal":
            values += r["n_values"]
            if r["n_values"] >= 4:
                nontrivial.add(src)
    stats["value_programs"] = {"programs": n, "by_status": st, "values_compared": values,
                               "assignments_of_a_narrower_kind_into_a_wider_variable": sum(g.mixed for g in gens),
                               "helper_calls": sum(g.calls for g in gens),
                               "augmented_assignments": sum(g.augs for g in gens),
                               "bool_int_conditional_expressions": sum(g.mixed_ifexp for g in gens),
                               "list_comprehensions": sum(g.comps for g in gens),
                               "tuple_assignments_by_declared_kinds": {k: sum(g.tuples.get(k, 0) for g in gens) for k in sorted({k for g in gens for k in g.tuples})},
                               "comprehension_target_shadows_a_variable_of_kind": {k: sum(g.comp_shadow.get(k, 0) for g in gens) for k in ("int", "float", "bool", "str")},
                               "accumulators_updated_only_in_child_scopes": sum(g.accumulators for g in gens),
                               "shadowed_accumulators_with_a_falsy_known_constant": sum(g.comp_shadow_falsy for g in gens),
                               "programs_with_main_loop": sum(1 for l in loops if l)}
    stats["value_distinct_nontrivial"] = len(nontrivial)
    # known findings: replay every listed witness on the real code
    listed = {f["id"]: f for f in ctx.findings if f.get("kind") != "fixed" and f["id"] in WITNESSES}
    if listed:
        ids = list(listed)
        wres = run_value_pairs([HEADER + WITNESSES[i]["body"] for i in ids], ["" for _ in ids], [WITNESSES[i]["loops"] for i in ids])
        for i, r in zip(ids, wres):
            if r["status"] in ("DIFF", "nocompile"):
                ctx.known(f"{i}: {listed[i]['what']}")
    return n + values, [srcs[0][len(HEADER):]]


# --------------------------------------------------------------------------- part (d): generated helper functions
def part_d(ctx, stats):
    """firmware values vs CPython values for programs whose helper functions are GENERATED (harness/c02_fngen.py):
    differently typed returns on value-dependent paths, branch-/loop-first locals, several call signatures in every
    order, shared local names, top-level hoists before the defs, helpers calling helpers, str helpers"""
    rng = ctx.rng
    n = 700 if ctx.tier == "thorough" else 40
    FG.validate_fixed()
    g = FG.FnGen(rng)
    progs = list(FG.fixed_programs())
    nfixed = len(progs)
    for _ in range(n):
        progs.append(g.program())
    srcs = [FG.render(HEADER, items) for items, _ in progs]
    loops = [(rng.choice([1, 2]) if lp else 0) for _, lp in progs]
    inputs = ["" for _ in progs]
    res = run_value_pairs(srcs, inputs, loops)
    st, values, nontrivial, undefined = {}, 0, set(), {}
    rows = sorted(enumerate(zip(srcs, loops, res)), key=lambda kr: (kr[1][2]["status"] != "DIFF", len(kr[1][0])))
    for k, (src, l, r) in rows:                              # failing scripts shortest first: the replay is the smallest one
        st[r["status"]] = st.get(r["status"], 0) + 1
        case = {"script": src, "input": "", "loops": l}
        if r["status"] == "DIFF":
            ctx.fail("a value on the device differs from the value CPython holds (generated helper functions, program inside the guard)",
                     case, r["py"], {"first_difference": r["diff"], "firmware": r["fw"], "cpp": r["cpp"]}, key="value-diff-fn")
        elif r["status"] == "nocompile":
            ctx.fail("accepted script inside the guard does not compile (generated helper functions)", case, "compilable C++", r["log"], key="nocompile-fn")
        elif r["status"] == "fw-crash":
            ctx.fail("firmware crashed", case, "rc 0", r, key="fw-crash-fn")
        elif r["status"] == "rejected":
            ctx.fail(f"transpiler rejected a program inside the guard ({r['exc']})", case, "accepted", r, key="rejected-fn")
        elif r["status"] == "py-undefined":
            undefined[r["exc"]] = undefined.get(r["exc"], 0) + 1
            if k < nfixed:
                ctx.disagree("harness self-check: a fixed oracle program of part (d) is not a valid CPython program", src, "runs", r)
        elif r["status"] == "equal":
            values += r["n_values"]
            if r["n_values"] >= 4:
                nontrivial.add(src)
    d = dict(g.stats)
    d.update({"programs": len(progs), "fixed_class_representatives": nfixed, "by_status": st, "values_compared": values,
              "cpython_raises": undefined, "programs_with_main_loop": sum(1 for l in loops if l)})
    stats["function_programs"] = d
    stats["function_distinct_nontrivial"] = len(nontrivial)
    sketches = [(src, r["cpp"]) for src, r in zip(srcs, res) if r.get("cpp")]
    return len(progs) + values, [srcs[nfixed][len(HEADER):]], sketches



# --------------------------------------------------------------------------- part (h): re-typing tuple assignments, call sites nested in builtins
def part_h(ctx, stats):
    """firmware values vs CPython values for (T) tuple assignments whose right-hand elements read a name that another
    target of the same statement re-types and (B) helpers whose float / bool call signature occurs only at call sites
    nested inside a builtin call on an assignment / return right-hand side (harness/c02_retype.py)"""
    rng = ctx.rng
    n = 400 if ctx.tier == "thorough" else 16
    d = {}
    progs = RT.programs(rng, n, d)
    nfixed = len(RT.FIXED)
    srcs = [HEADER + b for b, _ in progs]
    loops = [l for _, l in progs]
    res = run_value_pairs(srcs, ["" for _ in progs], loops)
    st, values, nontrivial = {}, 0, set()
    rows = sorted(enumerate(zip(srcs, loops, res)), key=lambda kr: (kr[1][2]["status"] != "DIFF", len(kr[1][0])))
    for k, (src, l, r) in rows:                              # failing scripts shortest first: the replay is the smallest one
        st[r["status"]] = st.get(r["status"], 0) + 1
        case = {"script": src, "input": "", "loops": l}
        if r["status"] == "DIFF":
            ctx.fail("a value on the device differs from the value CPython holds (tuple assignment reading a name it re-types / "
                     "call site nested in a builtin; program inside the guard)",
                     case, r["py"], {"first_difference": r["diff"], "firmware": r["fw"], "cpp": r["cpp"]}, key="value-diff-retype")
        elif r["status"] == "nocompile":
            ctx.fail("accepted script inside the guard does not compile (part h)", case, "compilable C++", r["log"], key="nocompile-retype")
        elif r["status"] == "fw-crash":
            ctx.fail("firmware crashed", case, "rc 0", r, key="fw-crash-retype")
        elif r["status"] == "rejected":
            ctx.fail(f"transpiler rejected a program inside the guard ({r['exc']})", case, "accepted", r, key="rejected-retype")
        elif r["status"] == "py-undefined":
            ctx.disagree("harness self-check: a program of part (h) is not a valid CPython program", src, "runs", r)
        elif r["status"] == "equal":
            values += r["n_values"]
            if r["n_values"] >= 2:
                nontrivial.add(src)
    d.update({"programs": len(progs), "fixed_class_representatives": nfixed, "by_status": st, "values_compared": values,
              "programs_with_main_loop": sum(1 for l in loops if l)})
    stats["retype_programs"] = d
    stats["retype_distinct_nontrivial"] = len(nontrivial)
    return len(progs) + values, [srcs[nfixed][len(HEADER):]]

# --------------------------------------------------------------------------- part (e): control-flow scripts
def ctl_plain(pre, main):
    items = [("stmt", s_) for s_ in pre if s_[0] != "write"]
    out = [HEADER]
    render_block(pre, 0, out) if pre else None
    if main:
        out.append("while True:\n")
        render_block(main, 1, out)
    return "".join(out)


def part_e(ctx, stats):
    """scripts with if / elif / else, while, for at any depth + main loop (harness/c02_ctl.py CtlGen):
    (1) the reference semantics exec_prog (Lang/StmtRef.v) along the path CPython actually takes = CPython's stores;
    (2) script_guard (extracted) decides which programs the theorem covers; for those, every value the device prints must be
        the value CPython holds (firmware under the mock core vs CPython)."""
    rng = ctx.rng
    n = 900 if ctx.tier == "thorough" else 60
    progs, gens = [], []
    fixed = [
        # the demo of C02_decl_covers_script_nonvacuous with real conditions
        ([("assign", "a", "3"), ("write", "a"), ("if", [("a > 1", [("assign", "x", "a * 2.5"), ("write", "x")])], [("assign", "x", "0.5"), ("write", "x")]),
          ("assign", "k", "0"), ("while", "k < 2", [("assign", "y", "x + k"), ("write", "y"), ("assign", "k", "k + 1")]),
          ("for", "i", "2", [("assign", "z", "i * 2"), ("write", "z")])],
         [("assign", "r", "a + 1"), ("write", "r"), ("if", [("r > 3", [("assign", "w", "r * 0.5"), ("write", "w")])], None)], 2),
        # the witness of C02_read_before_typed_refuted
        ([("assign", "k", "0"), ("while", "k < 2", [("if", [("k > 0", [("assign", "b", "z"), ("write", "b")])], None), ("assign", "z", "2.5"),
                                                    ("assign", "k", "k + 1")])], [], 0),
        ([("assign", "a", "1"), ("assign", "a", "2.5"), ("write", "a")], [], 0),
        # tuple assignments (the demo of C02_tuple_nonvacuous with a real loop) and narrower-into-wider stores
        ([("tassign", ["a", "b"], ["1", "2.5"]), ("write", "a"), ("write", "b"), ("tassign", ["a", "x"], ["a + 1", "b * 2"]), ("write", "a"), ("write", "x"),
          ("assign", "k", "0"), ("while", "k < 1", [("tassign", ["b", "x"], ["x", "b"]), ("write", "b"), ("write", "x"), ("assign", "k", "k + 1")])], [], 0),
        ([("assign", "a", "2.5"), ("write", "a"), ("assign", "a", "1"), ("write", "a"), ("assign", "a", "3.5"), ("write", "a"), ("assign", "b", "3"),
          ("if", [("b > 2", [("assign", "a", "b"), ("write", "a")])], None), ("assign", "a", "0.5"), ("assign", "x", "a * 2"), ("write", "x")], [], 0),
        ([("if", [("1 > 2", [("assign", "x", "1")])], [("assign", "x", "2.5")]), ("write", "x")], [], 0),
    ]
    for pre, main, passes in fixed:
        progs.append((pre, main, passes))
        gens.append(None)
    for _ in range(n):
        g = CT.CtlGen(rng, RunGen)
        progs.append(g.program())
        gens.append(g)
    srcs = [ctl_plain(pre, main) for pre, main, _ in progs]
    instr = [CT.render_instr_script(pre, main, passes) for pre, main, passes in progs]
    py = C.run_impl("c02_ctl_impl.py", {"cases": [{"src": s_, "calls": []} for s_ in instr]}, timeout=900)
    st = {"programs": len(progs), "guard_true": 0, "guard_false": 0, "model_rejects": 0, "semantics_compared": 0, "semantics_events": 0,
          "cpython_raises": {}, "value_oracle": {}, "values_compared": 0, "guard_true_with_nested_store": 0,
          "reads_for_target_after_its_loop": 0, "deliberate_deviations": sum(g.deviations for g in gens if g),
          "deviating_programs_inside_guard": 0, "shapes": {}}
    for g in gens:
        if g:
            for k, v in g.shapes.items():
                st["shapes"][k] = st["shapes"].get(k, 0) + v
    guard = [None] * len(progs)
    if ctx.exe:
        gw = ctx.model([[10, MODEL_CTX, wire_block(pre), wire_block(main)] for pre, main, _ in progs])
        sem_cases = []
        for k, ((pre, main, passes), p) in enumerate(zip(progs, py)):
            sem_cases.append([11, wire_block(pre), wire_block(main), [int(x) for x in p.get("oracle", [])]])
        sw = ctx.model(sem_cases)
        for k, ((pre, main, passes), p, gm, sm) in enumerate(zip(progs, py, gw, sw)):
            if gm == [2] or sm == [2]:
                ctx.disagree("ctl: model cannot decode the case (harness codec)", srcs[k][len(HEADER):], gm, sm)
                continue
            guard[k] = bool(gm[0]) and bool(gm[1])
            st["guard_true" if guard[k] else "guard_false"] += 1
            if not guard[k] and gens[k] is not None and not gens[k].deviations:
                st["guard_false_without_a_deliberate_deviation"] = st.get("guard_false_without_a_deliberate_deviation", 0) + 1
            if not gm[1]:
                st["model_rejects"] += 1
            if "exc" in p:
                st["cpython_raises"][p["exc"]] = st["cpython_raises"].get(p["exc"], 0) + 1
            if CT.reads_loopvar_after(pre) or CT.reads_loopvar_after(main):
                st["reads_for_target_after_its_loop"] += 1          # outside the fragment of StmtRef.v (never generated)
                continue
            why = CT.compare_traces(sm, p, W, C)
            st["semantics_compared"] += 1
            st["semantics_events"] += len(p.get("trace", []))
            if why is not None:
                ctx.disagree("reference semantics (Lang/StmtRef.v exec_prog) vs CPython: " + why,
                             {"script": srcs[k][len(HEADER):], "oracle": p.get("oracle"), "passes": passes}, sm, p)
    # value oracle on the programs the extracted guard accepts
    idx = [k for k in range(len(progs)) if guard[k]]
    nontrivial = set()
    if idx:
        res = run_value_pairs([srcs[k] for k in idx], ["" for _ in idx], [progs[k][2] for k in idx])
        for k, r in zip(idx, res):
            st["value_oracle"][r["status"]] = st["value_oracle"].get(r["status"], 0) + 1
            case = {"script": srcs[k], "input": "", "loops": progs[k][2]}
            if gens[k] is not None and gens[k].deviations:
                st["deviating_programs_inside_guard"] += 1
            if r["status"] == "DIFF":
                ctx.fail("a value on the device differs from the value CPython holds (control-flow script inside script_guard)", case,
                         r["py"], {"first_difference": r["diff"], "firmware": r["fw"], "cpp": r["cpp"]}, key="value-diff-ctl")
            elif r["status"] == "rejected":
                ctx.disagree("ctl: the model parses the script (and the guard holds), the real transpiler rejects it", srcs[k][len(HEADER):], "accepted", r)
            elif r["status"] == "fw-crash":
                ctx.fail("firmware crashed", case, "rc 0", r, key="fw-crash-ctl")
            elif r["status"] == "equal":
                st["values_compared"] += r["n_values"]
                if r["n_values"] >= 4:
                    nontrivial.add(srcs[k])
                if gens[k] is not None and gens[k].shapes["store_in_nested_block"]:
                    st["guard_true_with_nested_store"] += 1
                if gens[k] is not None and gens[k].shapes.get("narrower_store"):
                    st["guard_true_with_a_narrower_into_wider_store"] = st.get("guard_true_with_a_narrower_into_wider_store", 0) + 1
    stats["control_flow_scripts"] = st
    stats["ctl_distinct_nontrivial"] = len(nontrivial)
    return len(progs) + st["semantics_events"] + st["values_compared"], [srcs[len(fixed)][len(HEADER):]]


# --------------------------------------------------------------------------- part (f): helper bodies
def fn_plain(name, params, body, calls):
    out = [HEADER, f"def {name}({', '.join(params)}):\n"]
    render_block(body, 1, out)
    top = []
    for j, (sig, vals) in enumerate(calls):
        args = []
        for i, (k, v) in enumerate(zip(sig, vals)):
            x = f"x{j}_{i}"
            top.append(("assign", x, repr(v)))
            args.append(x)
        top.append(("assign", f"r{j}", f"{name}({', '.join(args)})"))
        top.append(("write", f"r{j}"))
    render_block(top, 0, out)
    return "".join(out), top


def part_f(ctx, stats):
    """one generated helper per program (harness/c02_ctl.py FnBodyGen): assignments before returns, returns nested in if / for /
    while, hoisted locals; called under 2-3 signatures.  (1) exec_block on the body from the bound parameters along CPython's
    path = CPython's stores and returned value; (2) fn_guard (extracted) per call signature; when every signature is inside the
    guard the device must print what CPython returns."""
    rng = ctx.rng
    n = 500 if ctx.tier == "thorough" else 36
    progs = []
    fixed_body = [("assign", "w", "p * 2"), ("if", [("w > 100", [("return", "w")])], None),
                  ("for", "i", "2", [("if", [("i > 0", [("return", "q + 0.5")])], None), ("assign", "w", "w + i")]), ("return", "w")]
    progs.append(("f", ["p", "q"], fixed_body, [(["int", "float"], [3, 0.5]), (["float", "float"], [2.5, 0.5])], None))
    for _ in range(n):
        g = CT.FnBodyGen(rng, RunGen)
        name, params, body, calls = g.program()
        progs.append((name, params, body, calls, g))
    plain = [fn_plain(name, params, body, calls) for name, params, body, calls, _ in progs]
    instr = [{"src": CT.render_instr_def(name, params, body), "calls": [[name, vals] for _, vals in calls]}
             for name, params, body, calls, _ in progs]
    py = C.run_impl("c02_ctl_impl.py", {"cases": instr}, timeout=900)
    st = {"programs": len(progs), "variants": 0, "variants_inside_fn_guard": 0, "variants_unparsable": 0, "calls_compared": 0, "events_compared": 0,
          "cpython_raises": {}, "programs_all_variants_inside": 0, "value_oracle": {}, "values_compared": 0,
          "returns": sum(g.returns for *_x, g in progs if g), "returns_nested_in_a_block": sum(g.nested_returns for *_x, g in progs if g)}
    all_in = [False] * len(progs)
    if ctx.exe:
        gcases, scases, owner = [], [], []
        for k, ((name, params, body, calls, _), (src, top), p) in enumerate(zip(progs, plain, py)):
            items = [("def", name, params, body)]
            for j, (sig, vals) in enumerate(calls):
                pre_top = []
                for st_ in top:
                    if st_[0] == "assign" and st_[1] == f"r{j}":
                        break
                    if st_[0] == "assign":
                        pre_top.append(("stmt", st_))
                gcases.append([12, MODEL_CTX, wire_items(items + pre_top), name, [enc_label(x) for x in sig]])
                pc = p["calls"][j] if p.get("calls") and j < len(p["calls"]) else {"exc": p.get("exc", "setup")}
                scases.append([13, wire_block(body), [int(x) for x in pc.get("oracle", [])],
                               [[pn, W.enc_val(Fraction(v) if isinstance(v, float) else v)] for pn, v in zip(params, vals)]])
                owner.append((k, j, pc))
        gw = ctx.model(gcases)
        sw = ctx.model(scases)
        inside = {}
        for (k, j, pc), gm, sm in zip(owner, gw, sw):
            st["variants"] += 1
            if gm == [2] or sm == [2]:
                ctx.disagree("fn: model cannot decode the case (harness codec)", plain[k][0][len(HEADER):], gm, sm)
                continue
            inside.setdefault(k, []).append(bool(gm[0]))
            st["variants_inside_fn_guard"] += bool(gm[0])
            st["variants_unparsable"] += (not gm[1])
            if "exc" in pc:
                st["cpython_raises"][pc["exc"]] = st["cpython_raises"].get(pc["exc"], 0) + 1
            why = CT.compare_traces(sm, pc, W, C)
            st["calls_compared"] += 1
            st["events_compared"] += len(pc.get("trace", []))
            if why is not None:
                ctx.disagree("reference semantics (Lang/StmtRef.v exec_block) vs CPython on a helper body: " + why,
                             {"script": plain[k][0][len(HEADER):], "call": progs[k][3][j], "oracle": pc.get("oracle")}, sm, pc)
        for k, v in inside.items():
            all_in[k] = all(v) and len(v) == len(progs[k][3])
    idx = [k for k in range(len(progs)) if all_in[k]]
    st["programs_all_variants_inside"] = len(idx)
    nontrivial = set()
    if idx:
        res = run_value_pairs([plain[k][0] for k in idx], ["" for _ in idx], [0 for _ in idx])
        for k, r in zip(idx, res):
            st["value_oracle"][r["status"]] = st["value_oracle"].get(r["status"], 0) + 1
            case = {"script": plain[k][0], "input": "", "loops": 0}
            if r["status"] == "DIFF":
                ctx.fail("a helper returns another value on the device than under CPython (every call signature inside fn_guard)", case,
                         r["py"], {"first_difference": r["diff"], "firmware": r["fw"], "cpp": r["cpp"]}, key="value-diff-fnbody")
            elif r["status"] == "fw-crash":
                ctx.fail("firmware crashed", case, "rc 0", r, key="fw-crash-fnbody")
            elif r["status"] == "equal":
                st["values_compared"] += r["n_values"]
                if r["n_values"] >= 2:
                    nontrivial.add(plain[k][0])
    stats["helper_bodies"] = st
    stats["fnbody_distinct_nontrivial"] = len(nontrivial)
    return len(progs) + st["events_compared"] + st["values_compared"], [plain[1][0][len(HEADER):]]



# --------------------------------------------------------------------------- part (g): which overload a call reaches
CXX_T = {"int": "int", "float": "float", "bool": "bool", "String": "String", "double": "double"}
RE_PROTO = re.compile(r"^(int|float|bool|String|void|__redu_list<[\w<>]+>)\s+([A-Za-z_]\w*)\s*\((.*)\)\s*;\s*$")
RE_FDEF = re.compile(r"^(int|float|bool|String|void|__redu_list<[\w<>]+>)\s+([A-Za-z_]\w*)\s*\((.*)\)\s*\{\s*$")
RE_VDECL = re.compile(r"^\s*(int|float|bool|String|__redu_list<[\w<>]+>)\s+([A-Za-z_]\w*)\s*(?:=.*)?;\s*$")


def enc_aty(t):
    return [7] if t == "double" else enc_ctype(t)


def _ptypes(txt):
    txt = txt.strip()
    if not txt:
        return [], []
    tys, names = [], []
    for part in txt.split(","):
        bits = part.strip().rsplit(None, 1)
        if len(bits) != 2:
            return None, None
        tys.append(bits[0].strip())
        names.append(bits[1].strip())
    return tys, names


def sketch_layout(cpp):
    """what the C++ compiler sees of the user functions of an emitted sketch, in text order: the prototype lines written in
    front of the first body, then every definition (name, parameter types, names typed inside it, body text)"""
    protos, defs, globs = [], [], {}
    cur = None
    for line in cpp.splitlines():
        if cur is None:
            m = RE_FDEF.match(line)
            if m and m.group(2) not in ("setup", "loop") and not m.group(2).startswith("__redu_"):
                tys, names = _ptypes(m.group(3))
                if tys is None:
                    continue
                cur = {"name": m.group(2), "ret": m.group(1), "ptypes": tys, "vars": dict(zip(names, tys)), "body": []}
                continue
            if m:
                cur = {"skip": True}
                continue
            m = RE_PROTO.match(line)
            if m and not m.group(2).startswith("__redu_"):
                tys, _ = _ptypes(m.group(3))
                if tys is not None:
                    protos.append({"name": m.group(2), "ret": m.group(1), "ptypes": tys, "before_first_body": not defs})
                continue
            m = RE_VDECL.match(line)
            if m and not line.startswith(" "):
                globs[m.group(2)] = m.group(1)
        else:
            if line.startswith("}"):
                if "skip" not in cur:
                    defs.append(cur)
                cur = None
                continue
            if "skip" in cur:
                continue
            cur["body"].append(line)
            m = RE_VDECL.match(line)
            if m:
                cur["vars"].setdefault(m.group(2), m.group(1))
    return {"protos": protos, "defs": defs, "globals": globs}


def call_sites(layout):
    """calls of user functions written inside the bodies of the emitted definitions whose arguments are names or literals:
    (index of the enclosing definition, callee, C++ argument types)"""
    names = {d["name"] for d in layout["defs"]}
    if not names:
        return []
    rx = re.compile(r"\b(" + "|".join(sorted(names)) + r")\(([^()]*)\)")
    out = []
    for i, d in enumerate(layout["defs"]):
        for line in d["body"]:
            for m in rx.finditer(line):
                args = [a.strip() for a in m.group(2).split(",")] if m.group(2).strip() else []
                tys = []
                for a in args:
                    if a in d["vars"]:
                        tys.append(d["vars"][a])
                    elif a in layout["globals"]:
                        tys.append(layout["globals"][a])
                    elif a in ("true", "false"):
                        tys.append("bool")
                    elif re.fullmatch(r"-?\d+", a):
                        tys.append("int")
                    elif re.fullmatch(r"-?\d+\.\d*f", a):
                        tys.append("float")
                    elif re.fullmatch(r"-?\d+\.\d*(e-?\d+)?", a):
                        tys.append("double")
                    else:
                        tys = None
                        break
                if tys is not None and all(t in CXX_T for t in tys):
                    out.append((i, m.group(1), tys))
    return out


NARROW = {("float", "int"), ("float", "bool"), ("double", "int"), ("double", "bool"), ("int", "bool")}


def overload_probe_sketch(cases):
    """one sketch asking g++ which overload it selects: case k = (candidate parameter lists, argument types);
    prints the index of the selected candidate, -1 when the call is ill-formed (no viable function / ambiguous)"""
    out = ["#include <Arduino.h>\n", "template<int K> struct RvTag { enum { id = K }; };\n",
           "struct RvNone { enum { id = -1 }; };\n", "template<class T> T rv_mk();\n"]
    for k, (cands, args) in enumerate(cases):
        out.append(f"namespace rvc{k} {{\n")
        for j, c in enumerate(cands):
            out.append(f"  RvTag<{j}> f({', '.join(CXX_T[t] for t in c)});\n")
        tps = ", ".join(f"class RvA{i}" for i in range(len(args))) or "class RvZ"
        call = ", ".join(f"rv_mk<RvA{i}>()" for i in range(len(args)))
        if args:
            out.append(f"  template<{tps}> auto probe(int) -> decltype(f({call}));\n")
            out.append(f"  template<{tps}> RvNone probe(long);\n")
        else:
            out.append(f"  template<{tps}> auto probe(int) -> decltype(f());\n  template<{tps}> RvNone probe(long);\n")
        out.append("}\n")
    out.append("void setup() {\n  Serial.begin(9600);\n")
    for k, (cands, args) in enumerate(cases):
        targs = ", ".join(CXX_T[t] for t in args) or "int"
        out.append(f"  Serial.println(static_cast<int>(decltype(rvc{k}::probe<{targs}>(0))::id));\n")
    out.append("}\nvoid loop() {}\n")
    return "".join(out)


FWD_FIXED = [
    # (items, [(function, call signature labels)]): callers above their helper, the helper with 2 / 3 variants, a widened alias
    ([("def", "sc", ["p"], [("return", "tw(p) + 1")]), ("def", "tw", ["p"], [("return", "p * 2")]),
      ("stmt", ("assign", "x", "1.5")), ("stmt", ("assign", "w", "sc(x)")), ("stmt", ("assign", "a", "tw(3)"))],
     [("tw", ["float"], True, ("sc", ["float"])), ("tw", ["int"]), ("sc", ["float"])]),
    ([("def", "top", ["p"], [("assign", "w", "mid(p)"), ("return", "w * 2")]),
      ("def", "mid", ["p"], [("return", "low(p, 1) + low(p, p)")]), ("def", "low", ["p", "q"], [("return", "p + q")]),
      ("stmt", ("assign", "x", "1.5")), ("stmt", ("assign", "b", "True")), ("stmt", ("assign", "r1", "top(x)")),
      ("stmt", ("assign", "r2", "top(b)")), ("stmt", ("assign", "r3", "mid(3)")), ("stmt", ("assign", "r4", "low(x, x)"))],
     [("low", ["float", "int"], True, ("mid", ["float"])), ("low", ["float", "float"], True, ("mid", ["float"])),
      ("low", ["bool", "int"], True, ("mid", ["bool"])), ("low", ["bool", "bool"], True, ("mid", ["bool"])), ("low", ["int", "int"], True, ("mid", ["int"])),
      ("mid", ["float"], True, ("top", ["float"])), ("mid", ["bool"], True, ("top", ["bool"])), ("mid", ["int"]), ("top", ["float"]), ("top", ["bool"])]),
    # a parameter widened by the body: half(2) is requested as (int), emitted as (float) and reached by conversion (only candidate)
    ([("def", "use", ["p"], [("return", "half(p) + 1")]), ("def", "half", ["p"], [("assign", "p", "p * 0.5"), ("return", "p")]),
      ("stmt", ("assign", "x", "0.5")), ("stmt", ("assign", "a", "use(x)")), ("stmt", ("assign", "c", "half(2)"))],
     [("half", ["int"]), ("half", ["float"], True, ("use", ["float"])), ("use", ["float"])]),
    # outside the guard (F-C06-overload-ambiguous region): blend(int, float) is widened to (float, float) while the def-time parse of
    # `use` also makes a (int, int) variant: one argument converts each way, the call is ambiguous
    ([("def", "use", ["p", "q"], [("return", "blend(p, q) + blend(q, q)")]),
      ("def", "blend", ["p", "q"], [("assign", "p", "p + q"), ("return", "p")]),
      ("stmt", ("assign", "x", "0.5")), ("stmt", ("assign", "a", "use(1, x)")), ("stmt", ("assign", "c", "blend(2, x)"))],
     [("blend", ["int", "float"], False), ("blend", ["float", "float"]), ("use", ["int", "float"])]),
]


def part_g(ctx, stats, sketches):
    """(g1) the overload-resolution model (Lang/FnProto.v pick) vs g++ itself on candidate sets over int/float/bool/String and
    argument types incl. double; (g2) the layout of every emitted sketch of oracle (d): the prototype block the model says
    emit() writes vs the real one, and every call site written inside a body: overload reached among the declarations REALLY
    visible there vs among all emitted variants; (g3) call_guard / emission order of the model vs the real sketch on fixed
    programs with callers above their helper."""
    rng = ctx.rng
    thorough = ctx.tier == "thorough"
    st = {"gxx_cases": 0, "gxx_selected": 0, "gxx_ill_formed": 0, "sketches": 0, "sketches_with_user_functions": 0,
          "prototype_lines": 0, "definitions": 0, "call_sites_in_bodies": 0, "call_sites_above_their_callee": 0,
          "call_sites_with_a_converted_argument": 0, "fixed_forward_programs": 0, "call_guard_true": 0, "call_guard_false": 0}
    # ---- (g1)
    P1 = ["int", "float", "bool", "String"]
    A1 = ["int", "float", "bool", "String", "double"]
    cases = []
    for n in range(1, 5):
        for cs in itertools.combinations(P1, n):
            for a in A1:
                cases.append(([[c] for c in cs], [a]))
    P2 = [[a, b] for a in ("int", "float", "bool") for b in ("int", "float", "bool")]
    A2 = [[a, b] for a in ("int", "float", "bool", "double") for b in ("int", "float", "bool", "double")]
    sets2 = [[c] for c in P2]
    all2 = [list(cs) for n in (2, 3) for cs in itertools.combinations(P2, n)]
    sets2 += all2 if thorough else rng.sample(all2, 45)
    for cs in sets2:
        for a in A2:
            cases.append((cs, a))
    cases += [([[], ["int"]], []), ([[], ["int"]], ["float"]), ([["int"], ["int", "int"]], ["float"]), ([["int"], ["int", "int"]], ["bool", "double"]),
              ([["int", "String"], ["float", "String"]], ["float", "String"]), ([["int", "String"], ["float", "String"]], ["double", "String"])]
    if thorough:
        P3 = [[a, b, c] for a in ("int", "float", "bool") for b in ("int", "float", "bool") for c in ("int", "float")]
        for _ in range(150):
            cs = rng.sample(P3, rng.choice([2, 3, 4]))
            for _ in range(4):
                cases.append((cs, [rng.choice(["int", "float", "bool", "double"]) for _ in range(3)]))
    chunks = [cases[i:i + 300] for i in range(0, len(cases), 300)]           # small sketches: no verdict depends on compile time
    results = fw.run_sketches([{"cpp": overload_probe_sketch(ch), "input": "", "loops": 0} for ch in chunks])
    for ch, res in zip(chunks, results):
        if res.get("compile_log") == "compiler timeout" or res.get("rc") == "timeout":
            st["gxx_probe_timeouts"] = st.get("gxx_probe_timeouts", 0) + 1      # machine overloaded: not compared, counted
            continue
        if not res["compiled"] or res["rc"] != 0:
            ctx.disagree("harness self-check: the overload probe sketch does not compile / run", "overload_probe_sketch", "compiles", res.get("compile_log", "")[-600:])
            continue
        got = [int(e[2:]) for e in res["events"] if e.startswith("S ")]
        if len(got) != len(ch):
            ctx.disagree("harness self-check: overload probe printed another number of lines", len(ch), len(ch), len(got))
        elif ctx.exe:
            wire = [[14, [], [["f", [enc_ctype(t) for t in c]] for c in cs], [1], "f", [enc_aty(a) for a in args]] for cs, args in ch]
            for (cs, args), g_, m in zip(ch, got, ctx.model(wire)):
                st["gxx_cases"] += 1
                st["gxx_selected" if g_ >= 0 else "gxx_ill_formed"] += 1
                exp = None if not m[1] else [dec_ctype(t) for t in m[1][0]]
                real = None if g_ < 0 else cs[g_]
                if exp != real:
                    ctx.disagree("C++ overload resolution: g++ selects another candidate than Lang/FnProto.v pick", {"candidates": cs, "arguments": args},
                                 exp, real)
    # ---- (g2)
    wire, meta = [], []
    for script, cpp in sketches:
        st["sketches"] += 1
        lay = sketch_layout(cpp)
        if not lay["defs"]:
            continue
        st["sketches_with_user_functions"] += 1
        st["prototype_lines"] += len(lay["protos"])
        st["definitions"] += len(lay["defs"])
        defs_w = [[d["name"], [enc_ctype(t) for t in d["ptypes"]]] for d in lay["defs"]]
        protos_w = [[d["name"], [enc_ctype(t) for t in d["ptypes"]]] for d in lay["protos"] if d["before_first_body"]]
        wire.append([15, defs_w])
        meta.append(("protos", script, lay, None))
        order = [d["name"] for d in lay["defs"]]
        for i, f, tys in call_sites(lay):
            st["call_sites_in_bodies"] += 1
            if min(j for j, d in enumerate(lay["defs"]) if d["name"] == f) > i:
                st["call_sites_above_their_callee"] += 1
            wire.append([14, protos_w, defs_w, [0, i], f, [enc_aty(t) for t in tys]])
            meta.append(("site-real", script, lay, (i, f, tys)))
            wire.append([14, defs_w, defs_w, [1], f, [enc_aty(t) for t in tys]])
            meta.append(("site-all", script, lay, (i, f, tys)))
    if ctx.exe and wire:
        out = ctx.model(wire)
        k = 0
        while k < len(out):
            kind_, script, lay, site = meta[k]
            if kind_ == "protos":
                exp = sorted((C.wstr(d[0]), tuple(dec_ctype(t) for t in d[1])) for d in out[k])
                real = sorted((d["name"], tuple(d["ptypes"])) for d in lay["protos"] if d["before_first_body"])
                if exp != real:
                    ctx.disagree("layout of the sketch: the prototype block in front of the first function body is not one prototype per emitted "
                                 "definition (Lang/FnProto.v emit_sketch)", {"script": script}, exp, real)
                rets = {(d["name"], tuple(d["ptypes"])): d["ret"] for d in lay["defs"]}
                for d in lay["protos"]:
                    if rets.get((d["name"], tuple(d["ptypes"])), d["ret"]) != d["ret"]:
                        ctx.disagree("layout of the sketch: a prototype declares another return type than its definition", {"script": script}, rets, d)
                k += 1
                continue
            (i, f, tys) = site
            real_pick = None if not out[k][1] else [dec_ctype(t) for t in out[k][1][0]]
            all_pick = None if not out[k + 1][1] else [dec_ctype(t) for t in out[k + 1][1][0]]
            if all_pick is not None and all_pick != tys:
                st["call_sites_with_a_converted_argument"] += 1
            if real_pick != all_pick:
                narrowed = real_pick is not None and any((a, p_) in NARROW for a, p_ in zip(tys, real_pick))
                ok_all = all_pick is not None and not any((a, p_) in NARROW for a, p_ in zip(tys, all_pick))
                case = {"script": script, "call": f"{f}({', '.join(tys)}) inside the body of {lay['defs'][i]['name']}({', '.join(lay['defs'][i]['ptypes'])})",
                        "declarations_visible_there": [dec_ctype_list(c) for c in out[k][0]]}
                if narrowed and ok_all:
                    ctx.fail("a call written in a function body emitted above its helper reaches a variant whose parameter narrows the argument "
                             "(the variant that holds the value is emitted but not declared above the call)", case,
                             {"variant_reached_among_all_emitted": all_pick}, {"variant_reached_where_the_call_is_written": real_pick},
                             key="call-narrowed-above")
                else:
                    ctx.disagree("overload reached at a call site inside a function body differs from the one reached among all emitted variants",
                                 case, all_pick, real_pick)
            k += 2
    # ---- (g3)
    srcs = [render_items(items) for items, _ in FWD_FIXED]
    impl = C.run_impl("c02_impl.py", {"cases": [["decls", s_] for s_ in srcs]})
    if ctx.exe:
        for (items, sigs), src, r in zip(FWD_FIXED, srcs, impl):
            st["fixed_forward_programs"] += 1
            if "exc" in r:
                ctx.disagree("fixed forward program rejected by the real transpiler", src[len(HEADER):], "accepted", r)
                continue
            lay = sketch_layout(r["cpp"])
            real_defs = [(d["name"], d["ptypes"]) for d in lay["defs"]]
            protos_w = [[d["name"], [enc_ctype(t) for t in d["ptypes"]]] for d in lay["protos"] if d["before_first_body"]]
            defs_w = [[d["name"], [enc_ctype(t) for t in d["ptypes"]]] for d in lay["defs"]]
            expect = [True if len(x) == 2 else x[2] for x in sigs]
            where = [x[3] if len(x) > 3 else None for x in sigs]           # the emitted definition in whose body the call is written
            sigs = [(x[0], x[1]) for x in sigs]
            idx = [real_defs.index((w_[0], list(w_[1]))) if w_ is not None and (w_[0], list(w_[1])) in real_defs else None for w_ in where]
            ms = ctx.model([[16, MODEL_CTX, wire_items(items), f, [enc_label(x) for x in sg]] for f, sg in sigs])
            picks = ctx.model([[14, protos_w, defs_w, [0, i_] if i_ is not None else [1], f, [enc_aty(x) for x in sg]] for (f, sg), i_ in zip(sigs, idx)])
            for (f, sg), m, pk, want, w_, i_ in zip(sigs, ms, picks, expect, where, idx):
                if w_ is not None and i_ is None:
                    ctx.disagree("fixed forward program: the caller variant the call is written in is not emitted", src[len(HEADER):], w_, real_defs)
                    continue
                if m == [2] or not m[0]:
                    ctx.disagree("fixed forward program: the model does not parse it", src[len(HEADER):], m, "accepted")
                    continue
                emitted = [(C.wstr(d[0]), [dec_ctype(t) for t in d[1]]) for d in m[3]]
                if emitted != real_defs:
                    ctx.disagree("emission order of the function variants: Lang/FnProto.v emitted_decls vs the definitions of the real sketch",
                                 src[len(HEADER):], emitted, real_defs)
                    break
                st["call_guard_true" if m[1] else "call_guard_false"] += 1
                meant = None if not m[2] else [dec_ctype(t) for t in m[2][0]]
                reached = None if not pk[1] else [dec_ctype(t) for t in pk[1][0]]
                if bool(m[1]) != want:
                    ctx.disagree("fixed forward program: call_guard differs from what the program was written for", {"script": src[len(HEADER):], "call": [f, sg]}, want, m)
                elif not want:
                    if reached is not None:
                        ctx.disagree("fixed forward program: a call outside call_guard (ambiguous) resolves in the model", {"script": src[len(HEADER):], "call": [f, sg]}, None, reached)
                elif meant != reached:
                    ctx.fail("a call written in a function body emitted above its helper does not reach the variant the parser specialised for its signature "
                             "(declarations of the real sketch, C++ overload resolution of Lang/FnProto.v)", {"script": src, "call": [f, sg]},
                             {"meant": meant}, {"reached": reached, "prototypes": [(d["name"], d["ptypes"]) for d in lay["protos"]]}, key="variant-not-reached")
    stats["overload_resolution"] = st
    return st["gxx_cases"] + st["call_sites_in_bodies"] + st["definitions"] + st["call_guard_true"]


def dec_ctype_list(w):
    return [dec_ctype(t) for t in w]




def run(ctx: C.Ctx):
    stats = {}
    n = part_a(ctx, stats)
    nb, samples_b = part_b(ctx, stats)
    nc, samples_c = part_c(ctx, stats)
    nd, samples_d, sketches = part_d(ctx, stats)
    ne, samples_e = part_e(ctx, stats)
    nf, samples_f = part_f(ctx, stats)
    ng = part_g(ctx, stats, sketches)
    nh, samples_h = part_h(ctx, stats)
    ctx.coverage.update({
        "evaluations": n + nb + nc + nd + ne + nf + ng + nh,
        "distinct_nontrivial": stats.get("infer_distinct_nontrivial", 0) + stats.get("decl_distinct_nontrivial", 0) + stats.get("value_distinct_nontrivial", 0) + stats.get("function_distinct_nontrivial", 0) + stats.get("ctl_distinct_nontrivial", 0) + stats.get("fnbody_distinct_nontrivial", 0) + stats.get("retype_distinct_nontrivial", 0),
        "distribution": stats,
        "samples": samples_b[:1] + samples_c + samples_d + samples_e + samples_f + samples_h,
        "rule": ("(a) _infer_expr_type: ~115 fixed boundary expressions (every clause of the model, with/without ctx, with generated var_types / "
                 "functions / aliases / device-name sets) + seeded random typed expressions (depth 1-4, all node kinds incl. calls to user functions, "
                 "methods, lists, subscripts, f-strings, unsupported nodes) + the shared Lang generator; compared: label, ValueError, and the MUTATED "
                 "var_types; _cpp_type/_default_value_for_type/_annotation_to_type_label enumerated; _merge_return_types/_merge_element_types exhaustive "
                 "over a 9-10 label pool up to length 3 plus random longer lists. non-trivial = distinct (expression, var_types) whose root is not a "
                 "constant/name.  (b) statement programs (assign, aug-assign, if/elif/else, while, for, helper defs with returns and two or more call "
                 "signatures, calls before the def, while True) -> real parse+emit -> declared C types of globals (incl. names first assigned inside `while True:`: sketch globals since the repair of F-C05-looplocal-reinit; the list of loop() locals must be empty on both sides), every emitted function "
                 "variant (return type, parameters, locals) parsed from the declaration lines of the sketch = Lang/Decl.v run_items; non-trivial = "
                 "accepted programs with >= 2 declarations.  (c) runnable programs inside the guard (names receive bool/int/float values in all orders "
                 "that only ever go down from the declaring kind, at top level, in branches, loops, the main loop, helper parameters via several call "
                 "signatures, helper results joined from differently typed returns, hoisted names) -> firmware under the mock core vs CPython: every "
                 "value written to Serial compared at value level (bool = 0/1, floats to the 2 printed decimals); non-trivial = programs with >= 4 "
                 "compared values; (c) now also draws augmented assignments that keep the label and bool/int conditional expressions.  "
                 "(d) programs with GENERATED helper functions (harness/c02_fngen.py): bodies polymorphic in their parameters, differently typed "
                 "return expressions (bool/int, bool/float, int/float, all three, str) on value-dependent paths, locals first assigned inside "
                 "if/elif/else, inside for/while, inside an if inside a loop and a loop inside an if, augmented assignments, helpers calling earlier "
                 "helpers, local names shared across helpers with different kinds, 2-4 call signatures per helper over int/float/bool(/str) in every "
                 "order with boundary values (negative, 0, 1, non-integral), results stored in fresh and in wider existing variables, calls at column "
                 "0 / inside a branch / in the main loop, a top-level if/else hoist and a top-level loop hoist before or after the defs; 3 fixed "
                 "class representatives run at every seed; an abstract kind interpreter (Checker) keeps every parsed variant inside the guard; "
                 "same oracle as (c), the shortest failing script is reported first.  "
                 "(a') list comprehensions [elt for t in range(n)] (nested up to 2, target = a name of every label / an unbound name, generated "
                 "elements, names bound to folded constants of every truthiness): real _infer_expr_type (label, var_types afterwards) and real "
                 "_to_c_expr (var_types afterwards) vs Lang/InferComp.v.  (b) also draws comprehension assignments whose target re-uses a name of the "
                 "enclosing scope (top level, defs, main loop) and parameter-widening defs called under several signatures in both orders.  "
                 "(c) also draws float 0.0 literals, comprehensions whose target shadows a variable of every kind followed by a NEW variable derived "
                 "from the shadowed one, and accumulators initialised with a (mostly falsy) constant, updated only inside a for/while/if body, then "
                 "shadowed by a comprehension target, then read; tuple assignments declaring 2-3 new names of different kinds and swaps of two "
                 "variables of one numeric kind (top level / main loop).  (d) also draws parameters widened at body level depending on another parameter / "
                 "local / literal (`p = p + q`, `p += q`, `p = p * 0.5`): requested signatures reach their variant through the signature alias, call "
                 "sites shuffled so that the final signature is met before and after the widened one (both counted); comprehensions inside helper "
                 "bodies shadowing parameters / local accumulators; 5 fixed class representatives.  "
                 "(b) now also draws tuple assignments (new / old / repeated names, swaps, an extra value; column 0, nested blocks, defs, main "
                 "loop; the `__tmp_assign_k` temporaries are compared as a multiset of C types per scope) and calls of user functions from "
                 "INSIDE function bodies (earlier helpers under new signatures, later helpers, recursion).  "
                 "(e) control-flow scripts (harness/c02_ctl.py CtlGen: if / elif / else with and without hoisted names, while with a counter, "
                 "for, augmented assignments, stores in nested blocks, main loop; a few per cent deliberately break the guard: a store of "
                 "another kind, disagreeing branches, a name read before the line that types it): (e1) the script is rendered INSTRUMENTED "
                 "and run under CPython, which records every decision (branch index, passes of a while, length of a range) in the order the "
                 "model's oracle is consumed and every store with its value; exec_prog (extracted) is run along that oracle and must produce "
                 "the same trace (names, kinds, exact values); (e2) script_guard (extracted) decides which programs the theorem covers; for "
                 "those, firmware under the mock core vs CPython, every written value compared - a difference is reported as a violation.  "
                 "(f) one generated helper per program (FnBodyGen: locals, if / for / while blocks, returns at any depth, hoisted locals, "
                 "augmented assignments) called under 2-3 signatures with boundary arguments: (f1) exec_block on the body from the bound "
                 "parameters along CPython's recorded path = CPython's stores and returned value; (f2) fn_guard (extracted) per call "
                 "signature in the parser state before the call; when every signature is inside, firmware vs CPython on the whole program. "
                 "non-trivial for (e)/(f) = guard-accepted programs whose firmware/CPython comparison covers >= 4 (>= 2) values.  "
                 "(d) now also draws, for 40 % of its programs, defs in an order in which helpers are called ABOVE their definition "
                 "(c02_fngen._program_fwd: caller / leaf, top / caller / leaf, caller / leaf / late helper calling the caller, caller / "
                 "middle / leaf, caller / two leaves; callers reach the leaves with parameters, locals, int and bool literals and "
                 "expressions, in returns, locals, if/else-hoisted locals and loops; every helper is requested under 2-3 signatures "
                 "over int / float / bool directly from the top level and through the callers, so leaves get two, three or more "
                 "variants and the call written in a body emitted above them needs a variant other than the first declared one "
                 "(counted)); Checker.simulate_defs walks the defs in script order like parse() (a callee without a source is "
                 "labelled int, its signature stays pending); 3 more fixed class representatives; call arguments may now be + - * "
                 "expressions over int / float names and int literals (C++ type = label).  "
                 "(g1) C++ overload resolution: Lang/FnProto.v pick (extracted) vs g++ itself (a SFINAE probe sketch printing the index "
                 "of the selected candidate or -1) on every candidate set over int/float/bool/String of arity 1 with arguments "
                 "int/float/bool/String/double, arity-2 sets of 1-3 candidates over int/float/bool with all 16 argument pairs incl. "
                 "double (quick: all singletons + 45 sampled sets; thorough: all 129 + arity 3 samples), mixed arities.  "
                 "(g2) every sketch emitted for oracle (d): prototype lines in front of the first body vs the prototype block "
                 "Lang/FnProto.v emit_sketch writes for the real definitions (as sets; return types of prototype and definition "
                 "agree); every call of a user function written inside a function body whose arguments are names / literals: the "
                 "overload reached among the declarations REALLY visible there (extracted model on the real declarations) vs among "
                 "all emitted variants - a difference that narrows an argument is a violation with the script and the call as replay.  "
                 "(g3) fixed programs with callers above their helper: emission order of the variants and call_guard of the model "
                 "(run_items) vs the real sketch; the meant variant is reached from the body the call is written in.  "
                 "(h) harness/c02_retype.py, same value oracle as (c)/(d): (T) tuple assignments whose right-hand elements read a name that "
                 "another target of the SAME statement re-types to a narrower kind (float -> int / bool, int -> bool; the re-typed target "
                 "first, in the middle, last; the reading element the bare name or an expression over it; one or two receivers, new or "
                 "already declared) at column 0, inside for / while / if, in the main loop, inside a helper body and inside a loop of a "
                 "helper body (result returned under int and float signatures), then the re-typed name re-assigned at its declared kind "
                 "from the receiver; (B) 1-3 helpers per program whose float / bool / int call signatures occur ONLY nested inside "
                 "str / bool / abs / min / max / len / int / float (one or two deep, inside arithmetic, unary minus, a conditional "
                 "expression, a tuple element, an augmented assignment, a comprehension element) on the right-hand side of an "
                 "assignment at column 0 / in a block / in the main loop or of a return / local of a wrapper function, the call "
                 "first or second argument of min / max, its result optionally passed through a second helper that is itself only "
                 "called there; 13 fixed representatives at every seed; non-trivial = >= 2 compared values."),
        "guard": ("expressions: Lang/InferGuard.v guard (no string contagion onto a numeric name, numeric operands, `/` and `**` only with a float "
                  "operand, no unary minus on a bool label, and/or only on bool labels, conditional expression with equal or numeric labels, abs/min/max "
                  "on int/bool labels, uniform or numeric list elements, subscripts of list labels, no tuples). programs (theorem): flat_guard = every "
                  "right-hand side inside guard and every assignment to a typed name infers the label it already has. programs (oracle, wider, by "
                  "construction of the generator): every label assigned to a name is <= the label of its declaring (first in text order) assignment in "
                  "bool < int < float, String alone; a name whose current label is below its declared one is not read by a right-hand side; names first "
                  "assigned inside a nested block keep one label; helper bodies read only parameters and locals; call arguments are variables or "
                  "int/bool literals; no `//`, `%`, `**`, int `/` int, str() of a bool (C01's operator/text-form findings); a run in which CPython "
                  "computes a number of magnitude >= 2^30 is outside the guard (32-bit C int; counted as outside-int-range, never blamed). (d) adds: a parameter is "
                  "only re-assigned at the kind of its call signature (F-C02-param-declared-from-last-label); names first assigned directly inside a "
                  "loop body are never names an if/else hoists anywhere in the program (F-C02-stale-promotion-type); function-local names never "
                  "coincide with globals; return expressions all str or all numeric; a helper that calls another helper shares no local name with it "
                  "(otherwise the callee variant parsed on demand does not declare its local and the sketch does not compile: C06's subject). "
                  "Parameters: never narrowed; widened only by a statement directly at body level (the parameter is declared from its label at the "
                  "END of the body); all requested signatures of a helper that end on the same final signature type every local and the result "
                  "alike (F-C02-widened-variant-overwritten); every call selects, by C++ overload resolution among the variants that can be "
                  "emitted, the variant the transpiler means (an ambiguous overload does not compile: C06's subject); a Name passed to a helper "
                  "has a label equal to its declared type.  Comprehensions: one generator over range(n), no filter, element int/float/bool, "
                  "the list is only read by a subscript in mon.write; theorem guard rhs_guard = guard on the element under var_types[target] = int.  "
                  "Control flow (theorems C02_decl_covers_script_partial / C02_function_body_covers_partial, oracles (e)/(f)): script_guard / "
                  "fn_guard of Lang/StmtRef.v, evaluated by the EXTRACTED model: with L the table of DECLARED labels of the scope (the label of "
                  "the store / hoist that declares each name), every store (x = e, x op= e, x = [comprehension], each target of a tuple "
                  "assignment) has e inside the expression guard under the var_types G the transpiler holds at that line; its value is covered: "
                  "every name e reads has in G exactly its declared label (not narrowed, not read before the line that types it) or typing e "
                  "under L gives the same label; the inferred label is L(x) for a declaring store and AT MOST L(x) (bool < int < float) for a "
                  "declared x (narrower into wider); x op= e has x declared and op is not @; tuple assignments have as many values as names "
                  "and store exactly the declared labels; a name hoisted out of an if / a loop ends its block with its declared label and has "
                  "no other C type in the shared promotion table (hoist_ok, promo_ok); return expressions have a scalar label; for function "
                  "bodies every parameter ends the body with its signature label and the body calls no user function (ucf_block). "
                  "Reference semantics: no break/continue, the target of a for is unbound after its loop.  "
                  "Calls (theorem C02_call_site_reaches_the_specialised_variant_partial): call_guard of Lang/FnProto.v - the variant the alias "
                  "table resolves the site's labels to is emitted and either has exactly the argument types or wins C++ overload resolution "
                  "among all emitted variants of the name (F-C06-overload-ambiguous / F-C02-widened-variant-overwritten regions stay outside: "
                  "c02_fngen.cxx_pick and overwritten_variants drop such programs).  Call sites: a user-function call never stands where the "
                  "transpiler does not type it (operand of a comparison / not / and / or, a condition, a range() bound, an argument of "
                  "mon.write, an f-string: F-C02-call-site-never-typed) - every generator writes calls only as (operands of arithmetic, "
                  "builtin calls, conditional-expression branches, tuple / list / comprehension elements of) assignment and return "
                  "right-hand sides and as arguments of other helper calls.  Forward calls: no emitted variant was parsed while a "
                  "callee whose variant does not return int had no source (F-C02-forward-call-result-typed-int; Checker.stale_forward_variants)."),
        "unmodelled": [
            "list comprehensions nested inside another operator (len([...]), [...][0], f([...])) stay EOther in Lang/PyAst.v and are labelled int by the "
            "model (the real code labels them list[...]); range() with 2 or 3 arguments and filtered comprehensions; only right-hand sides that ARE a "
            "(possibly nested) comprehension are modelled (Lang/InferComp.v) - the generators draw only those",
            "the constant environment (vars) that _to_c_expr brackets together with var_types around a comprehension target is C03's subject; here it "
            "only enters as an input of correspondence (a') (names bound to constants of every truthiness)",
            "C++ name lookup and overload resolution are inside the model for the scalar parameter types (Lang/FnProto.v, validated against g++ by (g1)); "
            "not modelled: argument expressions of class type other than String, string literals (const char* -> String), default arguments, "
            "templates; the C++ type of an argument EXPRESSION is computed by the harness (names, literals) - oracle (g2) skips call sites with "
            "other argument shapes, the value oracle (d) still executes them",
            "the VALUE a forward-called helper returns is covered by oracle (d) only: the reference statement semantics has no user-function calls",
            "the VALUE theorems about function bodies (C02_function_body_covers_partial, C02_function_result_covers_partial) are stated for "
            "bodies that call no user function (ucf_block): the reference expression semantics (Lang/PySem.v) has no user-function calls; a "
            "helper calling a helper is inside the DECLARATION model (parse_function_step: on-demand variants, _refreshing_functions, fuel 24 "
            "for the nesting depth of on-demand parses) and tied to the code by correspondence (b) and oracles (c) (template `twice`) and (d)",
            "reference statement semantics (Lang/StmtRef.v): break / continue, try/except, the value of a for target after its loop (in the C++ it "
            "is scoped to the loop; such a read is an error of the reference execution), reads of never-assigned names; conditions and loop "
            "bounds are not evaluated by the model - the path is an oracle (all paths are covered by the theorems; the correspondence follows "
            "the path CPython takes)",
            "a new name declared at column 0 by a tuple assignment that also re-assigns an old name is emitted as a LOCAL of setup() "
            "(not a global); the model lists it with the globals (its scope is C05/C06's subject, its type is compared)",
            "try/except bodies, list variables at statement level (append, element assignment), "
            "function_param_types carried over between re-parses of the same def; narrower-into-wider stores through a tuple assignment or a "
            "comprehension (the guard demands the exact declared label there)",
            "_to_c_expr failures (untranslatable right-hand sides abort the parse before typing) - generators only emit translatable expressions",
            "the annotated-return override (override_return) is modelled and refuted at model level, but is unreachable through parse(): RE_DEF does not "
            "match a header with `-> T` and _parse_function rebuilds the header without it",
            "conditions, loop bounds and mon.write arguments are assumed to have no typing effect (validated by (b): they are present in the programs)",
            "C int width (16-bit AVR overflow), float32 rounding beyond the 2 printed decimals, IEEE specials",
            "user-function calls in scripts covered by C02_decl_covers_script_partial (script_guard rejects def items; the theorem is for "
            "scripts without helpers, helpers are covered per variant by C02_function_body_covers_partial)",
        ],
        "trusted_base": C.COMMON_TRUSTED + [
            "harness/gen/c02_infer.py (regenerates coq/Gen/InferTables.v: _BUILTIN_CALL_RETURN_TYPES, annotation labels; fail-closed)",
            "coq/Lang/PySem.v as the meaning of Python expressions (validated against CPython eval by harness/pysem_check.py)",
            "harness/c02_fngen.py (generator, the abstract kind interpreter that keeps generated helper programs inside the guard incl. its "
            "simulation of the def-time / on-demand parse order, cxx_pick: a three-rank model of C++ overload resolution used only to DROP "
            "generated programs)",
            "regex extraction of prototype lines, definitions, declared names and simple call sites from the emitted sketch "
            "(harness/props/c02.py sketch_layout, call_sites); the SFINAE probe sketch of (g1) with g++ as the definition of C++ overload resolution",
            "harness/c02_ctl.py + harness/impl/c02_ctl_impl.py (generators; the instrumented rendering that makes CPython record its decisions and stores)",
            "harness/pyast_wire.py + label/program codecs in harness/props/c02.py; regex extraction of declaration lines from the emitted sketch (harness/impl/c02_impl.py cpp_decls)",
            "mock Arduino core (mock/) + g++ -O0 as 'the device'; CPython 3.12 + harness/impl/pyrun_impl.py as 'what Python holds'",
            "value-level comparison of Serial lines (same_value_line): bool = 0/1, numbers to 0.0051 when the device prints decimals",
        ],
    })
    ctx.assumptions += [
        "floats are exact rationals in the models; generated float literals are dyadic with small denominators",
        "C int is unbounded in the models (no-overflow guard of C01); generated values stay far below 2^31",
        "theorems are about the Gallina models Lang/Infer.v, Lang/Decl.v, Lang/StmtRef.v and Lang/FnProto.v; their distance from parser.py / emitter.py / CPython / g++ is bounded by correspondences (a), (b), (e1), (f1), (g1)-(g3)",
        "a script's conditions and loop bounds may evaluate to anything: the covering theorems quantify over every oracle",
    ]
