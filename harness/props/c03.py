"""C03 - transpile-time evaluation (constant folding / propagation) never changes meaning.

Two layers, both tied to the real code on every run:
  A. the evaluator (_eval_const, _expr_has_name, _literal_length, the _resolve_*_arg / sleep / glyph call sites):
     model Lang/ConstEval.v vs the real functions on generated expressions and environments; oracle = the value the
     real evaluator returns is the value CPython computes in a run-time environment extending the known bindings.
  B. the constant environment across statements (Lang/ConstEnv.v): programs over assignments, append/remove,
     len(name), flash_pattern(name) under if / while / for; model vs the IR of the real parse(), model outputs vs
     the real firmware (g++ + mock core) and CPython; oracle = firmware observations = CPython observations for every
     program inside the guard of C03_env_fresh_partial.
     Round 3: tuple assignment (Lang/ConstTuple.v: the temporaries form the transpiler emits, proved to be Python's
     simultaneous assignment), parse-then-emit IR nodes (Lang/ConstNodes.v: every flash_pattern node owns its list, so
     emission after parsing bakes the list as it was at the call), try / except as branch contexts, len(name) inside
     right-hand sides as fold sites of the flow guard, sensor-model and Led-pin fold sites, a shrinker for failing programs.
"""
from __future__ import annotations

import ast
import collections
import re
import zlib
from fractions import Fraction

from harness import common as C
from harness import fw
from harness import pyast_wire as W

META = {
    "id": "C03",
    "technique": "Coq proof (soundness of a line-by-line model of _eval_const w.r.t. the reference Python semantics Lang/PySem.v by induction over expressions; closedness of name-free folds; a model of the constant environment across if / while / for - since the repair: child scopes with private copies of the tracked lists, names written in a block forgotten after it and, for a loop, before it - and a simulation theorem - residual program with baked-in constants = source program on every control-flow path, whatever the blocks write - by induction over nested statement blocks, with the invariant 'the environment agrees with the run-time state' exported (C03_env_agrees); the witnesses of the eight repaired stale-fold findings as positive theorems; a second simulation for the module-level split between static global initialisers, which run before setup(), and run-time assignments: hoisting is invisible because only closed constant right-hand sides are hoisted, refuted for the variant without the name-free test; (the flow-sensitive ghost environment of the earlier rounds is gone: the repaired transpiler IS flow-sensitive); function definitions: body parsed at the def with the formal arguments and every name the script binds more than once unknown, run at a later call, theorem for every argument value and whatever the module re-assigns in between; names a function body writes are volatile at module level; tuple assignment as the transpiler emits it - every right-hand side into a temporary, then the targets - proved to be Python's simultaneous assignment for every environment, arity and overlap of targets and right-hand sides via a frame lemma for the reference evaluator, the target-by-target update refuted; parse-then-emit: IR nodes that bake a list hold list objects resolved only when the whole script is parsed - theorem: every flash_pattern node owns its object, so the emitted program is the snapshot residual for every script, the aliasing shortcut refuted; calls of a function that WRITES module-level names (Lang/ConstCall.v): the names the body writes are unknown in the calling scope from the def on and no statement form - plain / augmented / tuple assignment, append / remove, assignments inside if / try / while / for at any depth - makes one known again (invariant C03_volatile_never_known, by case analysis over every statement form), hence a simulation for any number of calls with the residual body inlined at each call (C03_calls_partial), for the calling sequence at module level and - since the repair of F-C03-stale-after-call-in-function: a function body forgets what the functions it calls write, at its start and after every assignment - as the body of another function (C03_call_in_function_repaired)) + extracted-model correspondence with the real _eval_const/_expr_has_name/_to_c_expr/parse() + CPython and compiled-firmware oracles",
    "level_text": "Theorems C03_* (coq/Props/C03.v) are proved for all expressions / environments about Gallina models of _eval_const, _expr_has_name, _literal_length, the folding call sites and the constant environment (len(name), flash_pattern(name), lcd.glyph bitmaps; append / remove bookkeeping; child scopes, forgetting of written names) (operator and cast tables regenerated from parser.py on every run); soundness holds inside an explicit guard of single-statement side conditions (the nine listed stale-fold findings are repaired - kind fixed - and their witnesses are replayed on the real transpiler on every run); the models are run against the real functions on generated expressions, environments and programs, and the property itself (folded value = CPython value; firmware observations = CPython observations) is evaluated on the real artefacts for every generated case inside the guard.",
    "level_note": "Trusted: Coq kernel, the reference semantics Lang/PySem.v (validated against CPython by harness/pysem_check.py), translator harness/gen/safecasts.py, extraction, OCaml driver, the mock Arduino core + g++ as 'device', CPython 3.12 as 'what Python means'. The theorems are about the models; the correspondence bounds their distance from parser.py. Floats are exact rationals in the model: value comparisons are made only where every intermediate float is a binary64 value (measured per case).",
    "design_ref": "DESIGN.md section 4 C03",
}

KIND = {1: "ValueError", 2: "TypeError", 3: "ZeroDivisionError"}
HEADER = (
    "from Reduino import target\n"
    "from Reduino.Core import pin_mode, digital_write, analog_write, digital_read, analog_read, OUTPUT, INPUT\n"
    "from Reduino.Communication import SerialMonitor\n"
    "from Reduino.Utils import sleep\n"
    "from Reduino.Actuators import Led\n"
    "from Reduino.Displays import LCD\n"
    "target(\"COM3\", upload=False)\n"
    "mon = SerialMonitor(9600)\n"
    "led = Led(13)\n"
    "lcd = LCD(rs=12, en=11, d4=5, d5=4, d6=3, d7=2)\n"
)

# ------------------------------------------------------------------ values / environments

def tag(v):
    """value -> the impl runner's tagged form"""
    if isinstance(v, bool):
        return ["bool", v]
    if isinstance(v, int):
        return ["int", hex(v)]
    if isinstance(v, float):
        f = Fraction(v)
        return ["float", hex(f.numerator), hex(f.denominator)]
    if isinstance(v, str):
        return ["str", v]
    if isinstance(v, list):
        return ["list", [tag(x) for x in v]]
    if isinstance(v, tuple):
        return ["tuple", [tag(x) for x in v]]
    raise TypeError(v)


def untag(w):
    t = w[0]
    if t == "bool":
        return bool(w[1])
    if t == "int":
        return int(w[1], 16)
    if t == "float":
        return int(w[1], 16) / int(w[2], 16)
    if t == "str":
        return w[1]
    if t == "list":
        return [untag(x) for x in w[1]]
    if t == "tuple":
        return tuple(untag(x) for x in w[1])
    return ("special", w)


MARK = object()


def enc_cenv(env):
    return [[k, [1]] if v is MARK else [k, [0, W.enc_val(v)]] for k, v in env.items()]


def impl_env(env):
    return {k: (["mark"] if v is MARK else tag(v)) for k, v in env.items()}


def same_exact(a, b):
    """identical Python values (type-exact, floats bit-for-bit up to the sign of zero)"""
    if type(a) is not type(b):
        return False
    if isinstance(a, (list, tuple)):
        return len(a) == len(b) and all(same_exact(x, y) for x, y in zip(a, b))
    return a == b


# ------------------------------------------------------------------ layer A: expressions
BOUNDARY_EXPRS = [
    "1", "-1", "True", "1.5", "'ab'", "None", "x", "m", "u", "s", "l", "len", "+x", "-x", "not x", "~x", "+b", "-b", "+s", "-s",
    "+1.5", "+(x)", "-(-x)", "not s", "not ''", "x + 1", "x - y", "x * y", "x / 2", "x // 2", "x % 3", "x ** 2", "2 ** -1",
    "x / 0", "x // 0", "x % 0", "0 ** -1", "0.0 ** -1", "x @ y", "x & 3", "x | 3", "x ^ 3", "x << 2", "x >> 1", "1 << -1",
    "y & 1", "1.5 << 1", "s + s", "s + 'c'", "s + 1", "1 + s", "s * 2", "2 * s", "s % 1", "b + b", "b * 2.5", "True + True",
    "x and y", "x or y", "0 and u", "1 or u", "0 or u", "1 and u", "x and 0 and u", "s and x", "'' or 0.0", "x < y", "x < y < 7",
    "1 < 2 < 3 < 2", "1 < s", "s < 'b'", "s == 'ab'", "x == 5.0", "x != y", "x is 5", "x in l", "1 if x else u", "u if 0 else 2",
    "(1 if s else 2) + 1", "f'{x}'", "f'a{x}b{s}'", "f'{x!r}'", "f'{x:>4}'", "f'{y}'", "f'{b}'", "f''", "f'{s}{s}'",
    "int(y)", "int(s)", "int('12')", "int(' 7 ')", "int('x')", "int(2.5)", "int(-2.5)", "float(x)", "float('1.5')", "float(s)",
    "str(x)", "str(b)", "str(s)", "bool(x)", "bool(0)", "bool('')", "bool(s)", "int(x, 2)", "int()", "int(x=1)",
    "len(s)", "len('abc')", "len(l)", "len([1, 2])", "len((1, 2, 3))", "len(x)", "len([])", "len(u)", "len(m)", "len(s, s)",
    "abs(-x)", "abs(y)", "abs(s)", "abs(b)", "abs(-2.5)", "max(x, y)", "min(x, y)", "max(1, 2, 3)", "min(3, 1, 2)", "max(x)",
    "min(x)", "max(s, 'b')", "max(1, s)", "max(1, 1.0)", "max(1.0, 1)", "min(True, 1)", "max()", "max(x, key=abs)", "max([1, 2])",
    "[1, 2]", "(1, 2)", "[x, y]", "[x, u]", "[]", "()", "[[1], [2]]", "(x,)", "[s, 1]",
    "x.real", "s.upper()", "l[0]", "s[0]", "l[0:1]", "(lambda: 1)()", "[i for i in l]", "{1: 2}", "{1}", "print(x)", "eval('1')",
    "__import__('os')", "open('f')", "x.__class__", "(x := 3)", "abs", "int", "max(*l)", "int(**{})", "sleep(1)",
    "x if m else 1", "m + 1", "x + m", "len(m)", "s + f'{m}'",
    "1.5 + 2.25", "0.1 + 0.2", "1 / 3", "7 // 2.0", "-7 // 2", "-7 % 3", "7 % -3", "7.5 % 2", "-7.5 // 2", "2 ** 0.5", "(-8) ** 0.5",
    "10 ** 20", "2 ** 100", "2.0 ** 100", "1e308 * 10", "255 // 1 * 1.0", "int(1e20)", "round(2.5)", "3 * 'ab'",
    "chr(65)", "ord('a')", "oct(8)", "hex(255)", "bin(5)", "sum([1, 2])", "pow(2, 3)", "divmod(7, 2)", "sorted([2, 1])", "list((1, 2))",
    "tuple([1])", "repr(1)", "id(1)", "type(1)", "range(3)", "complex(1)", "bytes(2)", "any([1])", "all([])", "ascii('a')", "hash(1)",
    "format(1)", "getattr(1, 'real')", "isinstance(1, int)", "callable(len)", "iter([1])", "dict()", "set()", "frozenset()", "object()",
    "[1, 2, 3, 4, 5, 6, 7, 8]", "[x, 0, 0, 0, 0, 0, 0, 255]", "(1, 2, 3, 4, 5, 6, 7, 8)", "[1.5, True, 0, 0, 0, 0, 0, 0]", "[x] * 8",
    "[0, 0, 0, 0, 0, 0, 0, s]", "[0, 0, 0, 0, 0, 0, 0, m]", "[0, 0, 0, 0, 0, 0, 0]", "[0, 0, 0, 0, 0, 0, 0, 0, 0]", "[b, y, x, -1, 256, 2 ** 10, 7 // 2, 1 / 2]",
    "not not x", "not (x and y)", "-(x if b else y)", "+ + x", "- - - x", "(x, y) < (y, x)", "[1] + [2]", "[1] * 2",
    "x + True", "True / 2", "True // 2", "False ** False", "1 < True", "b == 1", "b is True",
    # around the size bound of folded integers (_MAX_CONST_BITS = 4096): predicted bits = bit_length(a) * b for **,
    # bit_length(a) + b for <<, bit_length(a) + bit_length(b) for *; one below / at / one above, zero and negative operands
    "1 << 4094", "1 << 4095", "1 << 4096", "2 ** 2047", "2 ** 2048", "2 ** 2049", "3 ** 2048", "3 ** 2049", "(1 << 2047) * (1 << 2047)",
    "(1 << 2048) * (1 << 2047)", "-(1 << 2048) * (1 << 2047)", "x << 4093", "x << 4094", "x << 4096", "x ** 1365", "x ** 1366",
    "True << 4095", "True << 4096", "b ** 5000", "0 << 5000", "1 ** 5000", "(-1) ** 4097", "0 * (1 << 4000)", "0 ** 5000",
    "(1 << 4095) + (1 << 4095)", "((1 << 4095) + (1 << 4095)) * 2", "(1 << 4095) * 1", "(1 << 4094) * 1", "(1 << 4095) * 0", "7 << 0", "5000 ** 0",
    "2 ** -5000", "1 << 4095 >> 4000", "(1 << 4095) // 3", "(1 << 4095) % 1000", "-(1 << 4095) & 255", "(1 << 4095) | 1", "(1 << 4095) ^ -1",
    "(1 << 4095) - (1 << 4095)", "-(1 << 4095) - (1 << 4095)", "x * (1 << 4093)", "x * (1 << 4094)",
    "2 ** 12", "2 ** 2 ** 3", "2 ** 2 ** 12", "[1 << 4095, 1 << 4096]", "max(1 << 4095, 2)", "1 if 1 << 4096 else 2",
    # sensor model names (Ultrasonic(trig, echo, model=<e>) folds <e> through the constant environment)
    "'HC-SR04'", "'hc_sr04'", "' hc-sr04 '", "'HC-SR' + '04'", "'HC-SR05'", "t", "t + ''", "'HC-SR0' + str(4)", "f'HC-SR0{4}'",
    "f'{t}'", "'hc-sr04' if x else 'none'", "s or 'HC-SR04'", "t * 1", "'HC-SR04' if m else t", "str(t)", "'HC-' + 'SR04' * b",
]
ENV_POOL = [
    {"x": 5, "y": 2.5, "b": True, "s": "ab", "l": [1, 2, 3], "m": MARK, "t": "hc-sr04"},
    {"x": 0, "y": -0.5, "b": False, "s": "", "l": [], "m": MARK},
    {"x": -7, "y": 3.0, "b": True, "s": "12", "l": (4, 5), "m": MARK, "t": "HC_SR04"},
    {"x": 255, "y": 0.25, "b": False, "s": " 7 ", "l": [0], "m": 3, "t": "HC-SR05"},
    {},
]
RT_FILL = {"m": 9, "u": 4}


def rt_env(env, rng):
    rt = {k: (rng.choice([9, 0, 2.5, "zz"]) if v is MARK else v) for k, v in env.items()}
    return rt


def src_ok(src):
    try:
        ast.parse(src, mode="eval")
        return True
    except SyntaxError:
        return False


def shape_flags(src):
    """which parts of the comparison are meaningful for this source (the wire form drops some sub-trees)"""
    tree = ast.parse(src, mode="eval")
    lossy = False
    for n in ast.walk(tree):
        if isinstance(n, ast.FormattedValue) and (n.conversion not in (-1, None) or n.format_spec is not None):
            lossy = True
        if isinstance(n, (ast.Attribute, ast.Lambda, ast.ListComp, ast.SetComp, ast.DictComp, ast.GeneratorExp, ast.Starred,
                          ast.Dict, ast.Set, ast.NamedExpr, ast.Slice, ast.Await, ast.Yield, ast.YieldFrom)):
            lossy = True
        if isinstance(n, ast.Call) and not isinstance(n.func, (ast.Name, ast.Attribute)):
            lossy = True
    return lossy


def gen_eval_cases(ctx, n_random):
    rng = ctx.rng
    cases = []
    for e in BOUNDARY_EXPRS:
        for env in ENV_POOL[:3] if ctx.tier == "quick" else ENV_POOL:
            cases.append((e, env))
    names_sets = [("x", "y", "b"), ("x", "y", "b", "s"), ("x", "m", "u"), ("x", "y", "s", "l", "b", "m")]
    for i in range(n_random):
        env = rng.choice(ENV_POOL[:4])
        names = rng.choice(names_sets)
        kinds = rng.choice([("int", "float", "bool"), ("int", "float", "bool", "str"), ("int",), ("int", "bool", "str")])
        src = W.gen_expr(rng, rng.choice([1, 2, 2, 3, 3, 4]), names=names, kinds=kinds)
        cases.append((src, env))
    return [(s, e) for s, e in cases if src_ok(s)]


def cmp_result(m, r, exact):
    """model cres wire vs impl res -> None (agree) | 'skip:<why>' | text of the disagreement"""
    if m[0] == 9:
        return "skip:out-of-model"
    if r[0] == "ok":
        v = untag(r[1])
        if isinstance(v, tuple) and v and v[0] == "special":
            return "skip:special"
        if m[0] != 0:
            return "skip:inexact" if not exact else f"model raises {KIND.get(m[1])}, implementation returns a value"
        mv = W.dec_val(m[1])
        if W.same_value(mv, v):
            return None
        return "skip:inexact" if not exact else "values differ"
    if r[1] in ("OverflowError", "MemoryError", "RecursionError") and not exact:
        return "skip:inexact"
    if m[0] == 0:
        return "skip:inexact" if not exact else f"model returns a value, implementation raises {r[1]}"
    if KIND.get(m[1]) != r[1]:
        return f"exception kinds differ ({KIND.get(m[1])} vs {r[1]})"
    return None


def layer_a(ctx, stats):
    thorough = ctx.tier == "thorough"
    cases = gen_eval_cases(ctx, 6000 if thorough else 1200)
    rts = [rt_env(e, ctx.rng) for _, e in cases]
    for rt in rts:
        for k, v in RT_FILL.items():
            rt.setdefault(k, v)
    payload = [["eval", s, impl_env(e), {k: tag(v) for k, v in rt.items()}] for (s, e), rt in zip(cases, rts)]
    impl = C.run_impl("c03_impl.py", {"cases": payload})
    model = ctx.model([[0, enc_cenv(e), W.enc_src(s)] for s, e in cases]) if ctx.exe else [None] * len(cases)
    distinct = set()
    site_jobs = []
    for (src, env), rt, r, m in zip(cases, rts, impl, model):
        case = {"expr": src, "env": {k: ("<marker>" if v is MARK else v) for k, v in env.items()}}
        stats["eval:" + (r["res"][0] if r["res"][0] == "ok" else r["res"][1])] += 1
        lossy = shape_flags(src)
        # ---- oracle on the implementation: folded value = CPython value
        if r["res"][0] == "ok" and r.get("py") is not None and r.get("guard"):
            v = untag(r["res"][1])
            special = isinstance(v, tuple) and v and v[0] == "special"
            if not special:
                stats["oracle:checked"] += 1
                distinct.add((src, tuple(sorted(case["env"].items(), key=str))).__repr__())
                if r["py"][0] != "ok":
                    ctx.fail("_eval_const returns a value where CPython raises", {**case, "runtime_env": rt},
                             f"CPython: {r['py'][1]}", v, key="fold-value")
                elif not same_exact(v, untag(r["py"][1])):
                    ctx.fail("_eval_const value differs from CPython's value of the same expression", {**case, "runtime_env": rt},
                             untag(r["py"][1]), v, key="fold-value")
        if r.get("len") is not None and r.get("py") is not None and r["py"][0] == "ok":
            pv = untag(r["py"][1])
            stats["oracle:len"] += 1
            try:
                want = len(pv)
            except TypeError:
                want = None
            if want is not None and want != r["len"]:
                ctx.fail("len(...) folded by _to_c_expr differs from CPython's len", {**case, "runtime_env": rt}, want, r["len"], key="fold-len")
        # ---- correspondence
        if m is None:
            continue
        if m == [2]:
            ctx.disagree("wire: the model could not decode the case", case, m, None)
            continue
        mres, mtrace, mhas, mlen, mguard, mexact, mbinds, msites, _ = m
        exact = bool(mexact)
        d = cmp_result(mres, r["res"], exact)
        if d is None:
            stats["tie:result-equal"] += 1
        elif d.startswith("skip:"):
            stats["tie:" + d] += 1
        else:
            ctx.disagree("eval_const: " + d, case, mres, r["res"])
        if not lossy and isinstance(r["has_name"], bool) and bool(mhas) != r["has_name"]:
            ctx.disagree("has_name: model vs _expr_has_name", case, bool(mhas), r["has_name"])
        ml = mlen[0] if mlen else None
        if ml != r["len"]:
            ctx.disagree("literal_length: model vs len(...) folded by _to_c_expr", case, ml, r["len"])
        if bool(mguard) != bool(r.get("guard", True)) and r["res"][0] == "ok" and not lossy:
            stats["guard:model-vs-cpython-differ"] += 1
        site_jobs.append((src, env, msites, mres, exact, r.get("py") if r.get("guard") else None, rt))
    # ---- call sites (a parse() per case): sample
    rng = ctx.rng
    n_sites = 1500 if thorough else 350
    pick = site_jobs if len(site_jobs) <= n_sites else rng.sample(site_jobs, n_sites)
    pick = pick + [j for j in site_jobs if j[0].count(",") >= 6 and j not in pick]       # every bitmap-shaped expression
    pick = pick + [j for j in site_jobs if ("HC" in j[0].upper() or re.search(r"\bt\b", j[0])) and j not in pick]   # every sensor-model-shaped one
    pick = [j for j in pick if site_env_ok(j[1]) and "\n" not in j[0] and "#" not in j[0]]
    payload = []
    for src, env, *_ in pick:
        ie = impl_env(env)
        payload += [["site", "blink", src, ie], ["site", "backlight", src, ie], ["site", "glyph", src, ie], ["site", "sleep", src, ie],
                    ["site", "pin", src, ie], ["site", "model", src, ie]]
    res = C.run_impl("c03_impl.py", {"cases": payload}) if payload else []
    for k, (src, env, msites, mres, exact, py, rt) in enumerate(pick):
        rb, rl, rg, rs, rp, rm = res[6 * k: 6 * k + 6]
        case = {"expr": src, "env": {kk: ("<marker>" if v is MARK else v) for kk, v in env.items()}}
        # ---- oracle: the constant baked in at a call site is the value CPython gives the argument expression
        if py is not None and py[0] == "ok":
            pv = untag(py[1])
            special = isinstance(pv, tuple) and bool(pv) and pv[0] == "special"
            for site, ro, want in (("led.blink(<e>, 1)", rb, lambda v: int(v) if type(v) in (int, float, bool) else None),
                                   ("sleep(<e>)", rs, lambda v: int(v) if type(v) in (int, float, bool) else None),
                                   ("Led(<e>)", rp if "," not in src else ["skip"], lambda v: int(v) if type(v) in (int, float, bool) else None),
                                   ("lcd.backlight(<e>)", rl, lambda v: bool(v) if type(v) in (int, float, bool) else None),
                                   ("lcd.glyph(0, <e>)", rg, lambda v: [int(x) for x in v] if type(v) in (list, tuple) and all(type(x) in (int, float, bool) for x in v) else None)):
                if ro[0] != "folded" or special:
                    continue
                got = untag(ro[1])
                if isinstance(got, tuple) and got and got[0] == "special":
                    continue
                stats["oracle:site-folds"] += 1
                try:
                    exp = want(pv)
                except (OverflowError, ValueError):
                    exp = None
                if exp is None:
                    continue            # the run-time call itself is a Python error (sleep('0')): nothing to compare
                if exp != got or type(exp) is not type(got):
                    ctx.fail(f"the constant folded into {site} is not the run-time value of the argument", {**case, "runtime_env": rt, "site": site},
                             exp, got, key="fold-site")
            # the sensor model the firmware drives is the one the expression names at run time
            if rm[0] == "folded" and "," not in src and not special:
                stats["oracle:site-folds"] += 1
                stats["oracle:sensor-model-folds"] += 1
                got = untag(rm[1])
                if not (isinstance(pv, str) and pv.strip().upper().replace("_", "-") == got):
                    ctx.fail("the sensor model folded into Ultrasonic(7, 8, model=<e>) is not the model the argument names at run time",
                             {**case, "runtime_env": rt, "site": "Ultrasonic(7, 8, model=<e>)"}, pv, got, key="fold-site")
        stats["site:pin:" + rp[0]] += 1
        stats["site:model:" + rm[0]] += 1
        # Led(<e>) is int(_eval_const(...)) on name-free arguments, like sleep(...)
        d = cmp_site(msites[3], rp, lambda w: w, exact) if "," not in src else None
        if d and not d.startswith("skip"):
            ctx.disagree(f"call site Led(<pin>): {d}", case, msites[3], rp)
        mnum, mbool, mgly, mslp = msites
        for name, mo, ro, conv in (("blink/_resolve_numeric_arg", mnum, rb, lambda w: w),
                                   ("backlight/_resolve_bool_arg", mbool, rl, lambda w: bool(w)),
                                   ("glyph", mgly, rg, lambda w: list(w))):
            stats["site:" + name.split("/")[0] + ":" + ro[0]] += 1
            d = cmp_site(mo, ro, conv, exact)
            if d and not d.startswith("skip"):
                ctx.disagree(f"call site {name}: {d}", case, mo, ro)
        # sleep(...) is int(_eval_const(...)): like _resolve_numeric_arg except that int() also accepts numeric strings
        stats["site:sleep:" + rs[0]] += 1
        d = cmp_site(mslp, rs, lambda w: w, exact)
        if d and not d.startswith("skip"):
            ctx.disagree(f"call site sleep: {d}", case, mslp, rs)
    return len(cases) + len(payload), len(distinct), [cases[0][0], cases[min(len(BOUNDARY_EXPRS), len(cases) - 1)][0], cases[-1][0]]


def site_env_ok(env):
    for v in env.values():
        if v is MARK:
            continue
        if isinstance(v, (list, tuple)) and (not v or not all(type(x) is int for x in v) or isinstance(v, tuple)):
            return False
        if isinstance(v, str) and (v != v.strip() or not v):
            return False
    return True


def cmp_site(mo, ro, conv, exact):
    if mo[0] == 9:
        return "skip"
    if ro[0] == "folded":
        v = untag(ro[1])
        if isinstance(v, tuple) and v and v[0] == "special":
            return "skip"
        if mo[0] != 0:
            return "skip" if not exact else "implementation folds, model does not"
        if conv(mo[1]) != v:
            return "skip" if not exact else "folded constants differ"
        return None
    if ro[0] == "fallback":
        return None if mo[0] == 1 else ("skip" if not exact else "implementation falls back to the C expression, model does not")
    if ro[0] == "exc":
        if mo[0] == 2 and KIND.get(mo[1]) == ro[1]:
            return None
        if mo[0] == 1 and ro[1] == "ValueError":
            return "skip"            # the fallback _to_c_expr rejected the expression: outside this model
        return "skip" if not exact else f"implementation raises {ro[1]}"
    return "bad impl answer"


# ------------------------------------------------------------------ layer B: programs
INT_N, STR_N, LIST_N, RT_N = ["va", "vb", "vc", "vd"], ["vs", "vt", "vu"], ["vp", "vq"], ["vm", "vr"]
LOOPV = ["vi", "vj", "vk"]
LOCAL_N = ["vx", "vy", "vz"]           # locals of function bodies (vx, vz: str; vy: int)
HANDLER_MARK = "##handler"
TMP_PREFIX = "__tmp_assign_"           # the temporaries of a tuple assignment (the real transpiler's own names)
ALLV = INT_N + STR_N + LIST_N + RT_N + LOOPV + LOCAL_N
RT_PINS = {17: 5, 18: 1, 19: 0, 20: 2}
STRS = ["", "x", "xy", "hello", "12", "abc def"]


class ProgGen:
    """env: transpile-time view {name: ('K', value) | ('M',)}; guarded=True keeps every program inside the guard of
    C03_env_fresh_partial (no write to a known name inside a block that may be skipped or repeated, ...)"""

    def __init__(self, rng, guarded, maxdepth, tuples=True, flow=False, collide=False):
        """flow=True: writes to names with a known transpile-time value are allowed inside blocks (the flow guard of
        Lang/ConstFlow.v); the generator keeps a set of names whose tracked constant may be stale (taint) and never
        folds those - the model's flow_ok decides in the end.  collide=True: for-loop variables may be named like a
        tracked constant."""
        self.rng, self.guarded, self.maxdepth, self.tuples = rng, guarded, maxdepth, tuples
        self.flow, self.collide = flow, collide
        self.taint = set()
        self.noflow = 0
        self.pending = None
        self.readonly = []
        self.forbid = []
        self.main_bound = None
        self.loop_bound = []

    def writable(self, env, x):
        # inside a loop (while / for / the main loop) only names that exist before it are written: a name first bound
        # inside a loop body becomes a C++ local of that body, re-initialised on every pass (variable scoping is
        # C01's business, not constant folding)
        if x in self.readonly:
            return False          # a for-loop variable: assigning it in the body changes the C++ loop counter (C01's business)
        if self.main_bound is not None and x not in self.main_bound:
            return False
        if any(x not in b for b in self.loop_bound):
            return False
        # since the repair of the stale-fold findings a known name may be written anywhere: the transpiler forgets it after
        # (for a loop: before) the block; `forbid` only thins such writes out in the non-flow family
        if not self.guarded or (self.flow and not self.noflow):
            return True
        return not any(x in f for f in self.forbid) or self.rng.random() < 0.35

    def known(self, env, names):
        return [x for x in names if env.get(x, (None,))[0] == "K" and x not in self.taint]

    @staticmethod
    def reads(b):
        """names the transpiler evaluates at transpile time in block b (fold sites and right-hand sides)"""
        out = set()
        for st in b:
            k = st[0]
            if k in ("assign", "append", "remove"):
                out |= set(NAME_RE.findall(st[2]))
            elif k in ("len", "flash"):
                out.add(st[1])
            elif k == "glyph":
                for r in st[1]:
                    out |= set(NAME_RE.findall(r))
            elif k == "tuple":
                for r in st[2]:
                    out |= set(NAME_RE.findall(r))
            elif k == "if":
                out |= ProgGen.reads(st[1]) | ProgGen.reads(st[2])
            elif k in ("while", "main"):
                out |= ProgGen.reads(st[1])
            elif k == "for":
                out |= ProgGen.reads(st[2])
        return out

    def loop_body(self, env, mk_child, depth, n):
        """flow mode: a loop body may write tracked constants as long as nothing in the body folds them (on the second
        pass every read in the body comes after the write)"""
        entry_known = {x for x, b in env.items() if b[0] == "K"}
        if not self.flow or self.noflow:
            return self.block(mk_child(), depth + 1, n)
        snap = {x: list(b[1]) for x, b in env.items() if b[0] == "K" and isinstance(b[1], list)}
        t0 = set(self.taint)
        for _ in range(4):
            a = self.block(mk_child(), depth + 1, n)
            w = {x for st in a[0] for x in self.written(st)} & entry_known
            # a body that folds what it writes: on the second pass the read comes after the write - the repaired
            # transpiler forgets those names before it parses the body; such bodies are kept now (every second one)
            if not (w & self.reads(a[0])) or self.rng.random() < 0.5:
                self.taint = t0 | w
                return a
            for x, v in snap.items():
                env[x][1][:] = v
            self.taint = set(t0)
        self.noflow += 1
        try:
            return self.block(mk_child(), depth + 1, n)
        finally:
            self.noflow -= 1

    def levels(self, env):
        """known int names whose value can be a flash-pattern entry (0..255: what analogWrite takes unclamped)"""
        return [x for x in self.known(env, INT_N) if 0 <= env[x][1] <= 255]

    def bound(self, env, names):
        return [x for x in names if x in env]

    def int_expr(self, env):
        rng = self.rng
        ks, ms = self.known(env, INT_N), [x for x in self.bound(env, INT_N + RT_N + LOOPV) if env[x][0] == "M"]
        r = rng.random()
        if r < 0.35 or (not ks and not ms):
            return str(rng.randint(0, 9))
        if r < 0.6 and ks:
            return f"{rng.choice(ks)} + {rng.randint(0, 3)}" if rng.random() < 0.7 else f"max({rng.choice(ks)}, {rng.randint(0, 9)})"
        if r < 0.75 and self.known(env, STR_N):
            return f"len({rng.choice(self.known(env, STR_N))})"
        if ms:
            return f"{rng.choice(ms)} + {rng.randint(0, 2)}"
        return str(rng.randint(0, 9))

    def str_expr(self, env):
        rng = self.rng
        ks = self.known(env, STR_N)
        r = rng.random()
        if r < 0.5 or not ks:
            return repr(rng.choice(STRS))
        if r < 0.8:
            return f"{rng.choice(ks)} + {rng.choice(STRS)!r}"
        ki = self.known(env, INT_N)
        if self.flow or self.collide:
            # a binder (for-loop variable) or a run-time int: never a constant inside the string
            ki = ki + [x for x in self.bound(env, INT_N + LOOPV) if env[x][0] == "M"] * 2
        return f"f\"n{{{rng.choice(ki)}}}\"" if ki else repr(rng.choice(STRS))

    def evalk(self, env, src):
        names = {n.id for n in ast.walk(ast.parse(src, mode="eval")) if isinstance(n, ast.Name)} - {"len", "max", "min", "str", "int"}
        if all(env.get(x, (None,))[0] == "K" for x in names):
            try:
                return ("K", eval(src, {}, {x: env[x][1] for x in names}))
            except Exception:  # noqa
                return ("M",)
        return ("M",)

    def stmt(self, env, depth):
        rng = self.rng
        for _ in range(20):
            q = rng.random()
            if q < 0.09:
                # the run-time value of a variable (mon.write(x) reads the C variable: never folded)
                xs = self.bound(env, INT_N + STR_N)
                if xs:
                    return ("val", rng.choice(xs))
                continue
            if q < 0.15:
                # augmented assignment: the name is forgotten by the constant environment (vars[x] = _ExprStr)
                xs = [x for x in self.bound(env, INT_N + STR_N) if self.writable(env, x)]
                if xs:
                    x = rng.choice(xs)
                    if x in INT_N:
                        op = rng.choice(["+", "+", "-"])
                        ks = self.known(env, INT_N)
                        e = rng.choice([str(rng.randint(0, 5))] * 2 + ks)
                    else:
                        op = "+"
                        ks = self.known(env, STR_N)
                        e = rng.choice([repr(rng.choice(STRS))] * 2 + ks)
                    env[x] = ("M",)
                    return ("aug", x, op, e)
                continue
            if q < 0.23 and self.tuples:
                # tuple assignment: Python evaluates the whole right-hand side before any target is rebound (the firmware
                # goes through temporaries); swaps and rotations of names whose tracked constants differ, a right-hand side
                # that reads an EARLIER target of the same statement, followed by the fold sites that read the targets
                t = self.tuple_stmt(env, depth)
                if t:
                    return t
                continue
            r = rng.random()
            if r < 0.16:
                x = rng.choice(INT_N)
                if self.writable(env, x):
                    e = self.int_expr(env)
                    b = self.evalk(env, e)
                    if b[0] == "K" and not (0 <= b[1] <= 999):
                        continue
                    env[x] = b
                    self.taint.discard(x)
                    return ("assign", x, e)
            elif r < 0.30:
                x = rng.choice(STR_N)
                if self.writable(env, x):
                    e = self.str_expr(env)
                    env[x] = self.evalk(env, e)
                    self.taint.discard(x)
                    return ("assign", x, e)
            elif r < 0.38:
                x = rng.choice(LIST_N)
                if x not in env and self.writable(env, x):
                    items = [rng.choice([str(rng.randint(0, 9)), "1", "0"] + self.levels(env)) for _ in range(rng.randint(0, 4))]
                    e = "[" + ", ".join(items) + "]"
                    env[x] = self.evalk(env, e)
                    return ("assign", x, e)
            elif r < 0.44:
                x = rng.choice(RT_N)
                if self.writable(env, x) and env.get(x, ("M",))[0] == "M":
                    env[x] = ("M",)
                    return ("rt", x, rng.choice(sorted(RT_PINS)))
            elif r < 0.58:
                ls = [x for x in self.bound(env, LIST_N) if x not in self.taint]
                if ls:
                    x = rng.choice(ls)
                    if not self.writable(env, x):
                        continue
                    choices = [str(rng.randint(0, 9))] * 3 + self.levels(env)
                    if not self.guarded or rng.random() < 0.3:
                        choices += [y for y in self.bound(env, RT_N)]      # a run-time argument: the list becomes a run-time value
                    e = rng.choice(choices)
                    if env[x][0] == "K":
                        v = self.evalk(env, e)
                        env[x][1].append(v[1] if v[0] == "K" else None)
                    return ("append", x, e)
            elif r < 0.66:
                ls = [x for x in self.bound(env, LIST_N) if x not in self.taint]
                if ls:
                    x = rng.choice(ls)
                    if not self.writable(env, x):
                        continue
                    if env[x][0] == "K" and env[x][1] and all(v is not None for v in env[x][1]):
                        if rng.random() < (0.8 if self.guarded else 0.6):
                            v = rng.choice(env[x][1])
                            env[x][1].remove(v)
                            return ("remove", x, str(v))
                        if self.bound(env, RT_N) and rng.random() < 0.5:
                            y = rng.choice(self.bound(env, RT_N))
                            env[x][1].pop(0)
                            return ("remove", x, y)
                    elif env[x][0] == "M" and not self.guarded:
                        return ("remove", x, str(rng.randint(0, 3)))
            elif r < 0.80:
                # len(name) of a name whose tracked constant went stale in a block (taint): read at run time since the repair
                xs = [x for x in self.bound(env, STR_N + LIST_N) if x not in self.taint or rng.random() < 0.6]
                if xs:
                    return ("len", rng.choice(xs))
            elif r < 0.84:
                ks = self.known(env, INT_N)
                pool = [str(rng.randint(0, 31)), "0", "31", "True", "2.5"] + ks * 3
                if not self.guarded and rng.random() < 0.1:
                    pool += self.bound(env, RT_N)
                if ks or rng.random() < 0.3:
                    return ("glyph", [rng.choice(pool) for _ in range(8 if rng.random() < 0.95 or self.guarded else 7)])
            elif r < 0.90:
                xs = self.known(env, LIST_N)
                xs = [x for x in xs if all(v is not None for v in env[x][1])]
                if xs:
                    x = rng.choice(xs)
                    if rng.random() < 0.6 and self.writable(env, x):
                        # the pattern baked for THIS call is the list as it is now: mutate the list afterwards (append /
                        # remove of constants), flash again
                        pend = []
                        for _ in range(rng.randint(1, 2)):
                            if env[x][1] and rng.random() < 0.35:
                                v = rng.choice(env[x][1]); env[x][1].remove(v)
                                pend.append(("remove", x, str(v)))
                            else:
                                c = rng.choice([str(rng.randint(0, 9)), "1", "0", "255"] + self.levels(env))
                                env[x][1].append(self.evalk(env, c)[1])
                                pend.append(("append", x, c))
                        if rng.random() < 0.7:
                            pend.append(("flash", x))
                        self.pending = (self.pending or []) + pend
                    return ("flash", x)
                if not self.guarded and rng.random() < 0.05 and self.bound(env, LIST_N):
                    return ("flash", rng.choice(self.bound(env, LIST_N)))
            elif depth < self.maxdepth:
                kind = rng.choice(["if", "if", "if", "try", "while", "while", "for", "for"])
                self.forbid.append({x for x, b in env.items() if b[0] == "K"})
                try:
                    if kind == "try":
                        # try: body / except: handler - the transpiler gives the body and every handler a child context
                        # copied from the snapshot, exactly as for if / else; a body that raises nothing is, for Python,
                        # `if True: body else: handler` - that is how the model sees it (oracle decision 1, no read)
                        entry_known = {x for x, b in env.items() if b[0] == "K"}
                        t0 = set(self.taint)
                        a = self.block(self.child(env), depth + 1, rng.randint(1, 3))
                        self.taint = set(t0)
                        b = self.block(self.child(env), depth + 1, rng.randint(1, 2)) if rng.random() < 0.4 else ([], {})
                        self.promote(env, a[1]); self.promote(env, b[1])
                        node = ("if", a[0], b[0], "try")
                        self.taint = t0 | (self.written(node) & entry_known)
                        return node
                    if kind == "if":
                        if self.flow and not self.noflow:
                            return self.if_chain(env, depth)
                        a = self.block(self.child(env), depth + 1, rng.randint(1, 3))
                        b = self.block(self.child(env), depth + 1, rng.randint(1, 2)) if rng.random() < 0.4 else ([], {})
                        self.promote(env, a[1]); self.promote(env, b[1])
                        return ("if", a[0], b[0])
                    if kind == "while":
                        self.loop_bound.append(set(env))
                        try:
                            a = self.loop_body(env, lambda: self.child(env), depth, rng.randint(1, 3))
                        finally:
                            self.loop_bound.pop()
                        self.promote(env, a[1])
                        return ("while", a[0])
                    lv = LOOPV[depth]
                    pend = None
                    cl = [x for x in self.bound(env, INT_N) if self.writable(env, x) and x not in self.taint]
                    if (self.collide or (self.flow and not self.noflow)) and rng.random() < 0.45 and cl:
                        big = [x for x in cl if env[x][0] == "K" and env[x][1] >= 10]
                        lv = rng.choice(big or cl)     # a binder named like a tracked constant
                        v = rng.randint(10, 31)
                        pend = ("assign", lv, str(v))

                    def mk():
                        c = self.child(env)
                        c[lv] = ("M",)
                        return c
                    self.loop_bound.append(set(env))
                    self.readonly.append(lv)
                    try:
                        a = self.loop_body(env, mk, depth, rng.randint(1, 3))
                    finally:
                        self.loop_bound.pop()
                        self.readonly.pop()
                    a[1].pop(lv, None)
                    self.promote(env, a[1])
                    if pend:
                        # the probe: a string built from the binder, and its length (a run-time value: the binder is
                        # not the module constant of the same name)
                        ms = [x for x in self.bound(env, STR_N) if env[x][0] == "M" and self.writable(env, x)]
                        if ms:
                            sx = rng.choice(ms)
                            a[0].extend([("assign", sx, f"f\"n{{{lv}}}\""), ("len", sx)])
                        self.pending = (self.pending or []) + [pend]
                        env[lv] = ("K", int(pend[2]))
                        self.taint.discard(lv)
                    if rng.random() < 0.2:
                        return ("for", lv, a[0], rng.choice([0, 1, 2, 2, 3]))     # a literal count: for x in range(2)
                    return ("for", lv, a[0])
                finally:
                    self.forbid.pop()
        return None

    def tuple_stmt(self, env, depth):
        rng = self.rng

        def ok(x):
            return x in env and self.writable(env, x) and (env[x][0] == "M" or x not in self.taint)
        ints, strs = [x for x in INT_N if ok(x)], [x for x in STR_N if ok(x)]
        kind = rng.choice(["swap", "swap", "rot", "rot", "self", "expr"])
        xs = es = None
        if kind in ("swap", "rot"):
            n = 2 if kind == "swap" else 3
            pools = [p for p in (ints, strs) if len(p) >= n]
            if not pools:
                return None
            # prefer a pool where the tracked constants differ (that is where a target-by-target update shows)
            pools.sort(key=lambda p: -len({repr(env[x]) for x in p}))
            pool = pools[0] if rng.random() < 0.7 else rng.choice(pools)
            xs = rng.sample(pool, n)
            es = (xs[1:] + xs[:1]) if rng.random() < 0.5 else (xs[-1:] + xs[:-1])
        elif kind == "self":
            ks = [x for x in strs if env[x][0] == "K"]
            if not ks or not ints:
                return None
            sx, iy = rng.choice(ks), rng.choice(ints)
            se = rng.choice([f"{sx} + {rng.choice(STRS[1:])!r}", repr(rng.choice(STRS) + "pq"), f"{sx} + {sx} + 'z'"])
            xs, es = [sx, iy], [se, f"len({sx})"]
            if rng.random() < 0.3 and len(ks) >= 2:
                # three targets: the last right-hand side reads BOTH earlier targets
                s2 = rng.choice([x for x in ks if x != sx])
                xs, es = [sx, s2, iy], [se, f"{s2} + 'w'", f"len({sx}) + len({s2})"]
        else:
            if len(ints) < 2:
                return None
            xs = rng.sample(ints, 2)
            es = [self.int_expr(env), rng.choice([xs[0] + " + 1", self.int_expr(env)])]
        vs = [self.evalk(env, e) for e in es]
        if any(v[0] == "K" and isinstance(v[1], int) and not (0 <= v[1] <= 999) for v in vs):
            return None
        for x, v in zip(xs, vs):
            env[x] = v
            self.taint.discard(x)
        # the consumers: every fold site that reads a target
        pend = []
        kstr = [x for x in xs if x in STR_N and env[x][0] == "K"]
        kint = [x for x in xs if x in INT_N and env[x][0] == "K"]
        for x in kstr:
            if rng.random() < 0.8:
                pend.append(("len", x))
        if kint and rng.random() < 0.7:
            rows = list(kint) + [rng.choice([str(rng.randint(0, 31))] + kint) for _ in range(8 - len(kint))]
            pend.append(("glyph", rows[:8]))
        lv = [x for x in kint if 0 <= env[x][1] <= 255]
        ls = [p for p in self.known(env, LIST_N) if self.writable(env, p) and all(v is not None for v in env[p][1])]
        if lv and ls and rng.random() < 0.5:
            p = rng.choice(ls)
            for x in lv:
                env[p][1].append(env[x][1])
                pend.append(("append", p, x))
            pend.append(("flash", p))
        for x in xs:
            if rng.random() < 0.3:
                pend.append(("val", x))
        self.pending = (self.pending or []) + pend
        return ("tuple", xs, es)

    def child(self, env):
        # a copy of the dict: same bindings, the same list objects
        return dict(env)

    def if_chain(self, env, depth):
        """flow mode: if / elif / else.  Every branch is parsed from its own copy of the snapshot: an earlier branch
        may re-assign a tracked constant, the later siblings fold it - with the value from BEFORE the if (this is
        where a shared branch environment shows); lists mutated in an earlier branch are stale in the later ones (the
        store is shared) and are not folded there; after the chain everything written in it is stale."""
        rng = self.rng
        entry_known = {x for x, b in env.items() if b[0] == "K"}
        t0 = set(self.taint)
        n_br = rng.choice([1, 2, 2, 3])
        has_else = rng.random() < (0.75 if n_br > 1 else 0.5)
        bodies, assigned, mutated, wall = [], set(), set(), set()
        for j in range(n_br + (1 if has_else else 0)):
            self.taint = t0 | mutated
            ch = self.child(env)
            blk = self.block(ch, depth + 1, rng.randint(1, 3))[0]
            if j + 1 < n_br + (1 if has_else else 0) and rng.random() < 0.6:
                # "adding assignments in other branches": re-assign a tracked constant in a branch that has later siblings
                cands = [x for x in self.known(env, STR_N + INT_N) if self.writable(env, x)]
                if cands:
                    x = rng.choice(cands)
                    blk.insert(rng.randint(0, len(blk)), ("assign", x, repr(rng.choice(STRS) + "!") if x in STR_N else str(rng.randint(10, 31))))
            # the sibling fold: look at what earlier branches assigned
            extra = []
            for x in sorted(assigned):
                if x in self.taint or env.get(x, (None,))[0] != "K":
                    continue
                if x in STR_N and rng.random() < 0.7:
                    extra.append(("len", x))
                elif x in INT_N and rng.random() < 0.5:
                    extra.append(("glyph", [x] + [str(rng.randint(0, 31)) for _ in range(7)]))
            pos = rng.randint(0, len(blk))
            wr_before = {x for st in blk[:pos] for x in self.written(st)}
            extra = [e for e in extra if not (self.reads([e]) & wr_before)]
            blk = blk[:pos] + extra + blk[pos:]
            bodies.append(blk)
            for st in blk:
                if st[0] in ("assign", "aug", "tuple", "rt"):
                    assigned |= self.written(st) & entry_known
                w = self.written(st)
                wall |= w
                if st[0] in ("append", "remove") or st[0] in ("if", "while", "for"):
                    mutated |= w & entry_known & set(LIST_N)
            for x in ch:
                if x not in env:
                    env[x] = ("M",)
        self.taint = t0 | (wall & entry_known)
        # nest: if A elif B else C  ==  SIf A [SIf B C]
        tail = bodies.pop() if has_else else []
        node = None
        for blk in reversed(bodies):
            node = ("if", blk, tail if node is None else [node]) if node is None else ("if", blk, [node], "elif")
        return node

    def promote(self, env, child):
        for x in child:
            if x not in env:
                env[x] = ("M",)

    @staticmethod
    def written(st):
        out = set()
        if st[0] in ("assign", "append", "remove", "rt", "aug"):
            out.add(st[1])
        elif st[0] == "tuple":
            out |= set(st[1])
        elif st[0] == "if":
            for x in st[1] + st[2]:
                out |= ProgGen.written(x)
        elif st[0] in ("while", "for", "main"):
            for x in (st[2] if st[0] == "for" else st[1]):
                out |= ProgGen.written(x)
        return out

    def block(self, env, depth, n):
        out = []
        for _ in range(n):
            s = self.stmt(env, depth)
            if s:
                out.append(s)
                if self.pending:
                    out.extend(self.pending)
                    self.pending = None
                if s[0] in ("if", "while", "for") and self.rng.random() < 0.7:
                    # look at what the block wrote: that is where a stale environment shows
                    ws = sorted(x for x in self.written(s) if x in env and x in STR_N + LIST_N and x not in self.taint)
                    if ws:
                        out.append(("len", self.rng.choice(ws)))
                    ws = sorted(x for x in self.written(s) if x in env and x in INT_N + STR_N)
                    if ws and self.rng.random() < 0.6:
                        out.append(("val", self.rng.choice(ws)))
        if not out:
            cands = [x for x in RT_N if (self.main_bound is None or x in self.main_bound) and all(x in b for b in self.loop_bound)]
            x = self.rng.choice(cands or RT_N)
            env.setdefault(x, ("M",))
            out.append(("rt", x, 17))
        return out, env

    def retune(self, env, pre):
        """module level: a constant is re-assigned, then used in the FIRST assignment of another module-level name
        (the global-initialiser vs run-time-assignment split: a static initialiser would see the initial value), and
        the derived name is looked at"""
        rng = self.rng
        for names, mk_new, mk_use in (
                (INT_N, lambda a: rng.choice([str(rng.randint(10, 400)), f"{a} + {rng.randint(1, 150)}", f"{a} * 2"]),
                 lambda a, b: rng.choice([f"{a} * 2", f"{a} + {b}", f"{a} + 1", f"max({a}, 3)", f"{b} - {a}", f"{a}"])),
                (STR_N, lambda a: rng.choice([repr(rng.choice(STRS) + "q"), f"{a} + 'z'"]),
                 lambda a, b: rng.choice([f"{a} + 'x'", f"{a} + {b}", f"{a}", f"f\"n{{{a}}}\""]))):
            ks = self.known(env, names)
            free = [x for x in names if x not in env]
            if not ks or not free or rng.random() < 0.35:
                continue
            a, b = rng.choice(ks), rng.choice(ks)
            if rng.random() < 0.8:
                e = mk_new(a)
                v = self.evalk(env, e)
                if v[0] != "K" or (names is INT_N and not (-999 <= v[1] <= 999)):
                    continue
                pre.append(("assign", a, e)); env[a] = v
            d = rng.choice(free)
            e = mk_use(a, b) if rng.random() < 0.85 else (str(rng.randint(0, 9)) if names is INT_N else repr(rng.choice(STRS)))
            v = self.evalk(env, e)
            if v[0] == "K" and names is INT_N and not (-999 <= v[1] <= 999):
                continue
            free2 = [x for x in free if x != d]
            if self.tuples and free2 and rng.random() < 0.6:
                d2 = rng.choice(free2)
                e2 = str(rng.randint(0, 9)) if names is INT_N else repr(rng.choice(STRS))
                pair = [(d, e, v), (d2, e2, self.evalk(env, e2))]
                if rng.random() < 0.5:
                    pair.reverse()
                # all targets are new at module level: the real transpiler declares them one by one, without temporaries
                pre.append(("tuple", [x for x, _, _ in pair], [y for _, y, _ in pair], "new"))
                for x, _, w in pair:
                    env[x] = w
                pre.append(("val", d2))
            else:
                pre.append(("assign", d, e)); env[d] = v
            pre.append(("val", d))
            if names is STR_N and rng.random() < 0.5:
                pre.append(("len", d))
            if names is INT_N and v[0] == "K" and 0 <= v[1] and rng.random() < 0.3:
                pre.append(("glyph", [d] + ["0"] * 7))

    def program(self, main=False):
        env = {}
        pre = []
        rng = self.rng
        # most names get a value before any block so that Python has them bound on every path; about a third of
        # them get a value unknown at transpile time (so that blocks may write them inside the guard)
        names = rng.sample(INT_N + STR_N + LIST_N, rng.randint(3, 6))
        for x in rng.sample(RT_N, rng.randint(1, 2)):
            pre.append(("rt", x, rng.choice(sorted(RT_PINS)))); env[x] = ("M",)
        rts = [x for x in RT_N if x in env]
        for x in names:
            unknown = rng.random() < 0.35
            m = rng.choice(rts)
            if x in INT_N:
                if unknown:
                    pre.append(("assign", x, f"{m} + {rng.randint(0, 3)}")); env[x] = ("M",)
                else:
                    v = rng.choice([rng.randint(0, 9), rng.randint(0, 9), rng.randint(10, 31)]); pre.append(("assign", x, str(v))); env[x] = ("K", v)
            elif x in STR_N:
                if unknown:
                    pre.append(("assign", x, f"str({m})")); env[x] = ("M",)
                else:
                    v = rng.choice(STRS); pre.append(("assign", x, repr(v))); env[x] = ("K", v)
            else:
                v = [rng.randint(0, 9) if rng.random() < 0.5 else rng.randint(0, 1) for _ in range(rng.randint(0, 4))]
                if unknown:
                    pre.append(("assign", x, "[" + ", ".join([m] + [str(i) for i in v]) + "]")); env[x] = ("M",)
                else:
                    pre.append(("assign", x, repr(v))); env[x] = ("K", v)
        for _ in range(rng.choice([0, 1, 1, 2])):
            self.retune(env, pre)
        body, _ = self.block(env, 0, rng.randint(3, 8))
        prog = pre + body
        if main:
            # the sketch's main loop `while True:` - parsed by parse() itself, in the top-level context
            self.forbid.append({x for x, b in env.items() if b[0] == "K"})
            self.main_bound = set(env)
            mb, _ = self.loop_body(env, lambda: self.child(env), 0, rng.randint(2, 5))
            self.main_bound = None
            self.forbid.pop()
            prog.append(("main", mb))
        return prog


CALL_STRS = ["", "z", "hi", "a longer caption", "0123456789abcdef"]


def gen_def_program(rng, guarded=True):
    """module constants; def f(formal arguments - mostly named like a tracked module constant of the same type): a body
    with fold sites on the arguments (len(arg): a run-time value there), on module constants (folded from the
    environment of the def) and on locals; module statements between the def and the calls (some re-assign a constant
    the body folds: the def-time environment is stale then - outside the guard, finding F-C03-def-time-global); one or
    two calls with arguments that differ from the same-named constants; trailing observations."""
    g = ProgGen(rng, True, 1, flow=True)
    env, pre = {}, []
    m = rng.choice(RT_N)
    pre.append(("rt", m, rng.choice(sorted(RT_PINS)))); env[m] = ("M",)
    names = rng.sample(STR_N, rng.randint(1, 3)) + rng.sample(INT_N, rng.randint(1, 2)) + rng.sample(LIST_N, rng.randint(0, 1))
    rng.shuffle(names)
    for x in names:
        if x in INT_N:
            v = rng.randint(0, 31); pre.append(("assign", x, str(v))); env[x] = ("K", v)
        elif x in STR_N:
            v = rng.choice(STRS); pre.append(("assign", x, repr(v))); env[x] = ("K", v)
        else:
            v = [rng.randint(0, 1) for _ in range(rng.randint(1, 4))]; pre.append(("assign", x, repr(v))); env[x] = ("K", v)
    if rng.random() < 0.5:
        pre += g.block(env, 0, rng.randint(1, 2))[0]
    kstr, kint, klist = g.known(env, STR_N), g.known(env, INT_N), g.known(env, LIST_N)
    params = []
    for _ in range(rng.choice([1, 1, 2])):
        taken = [q for q, _ in params]
        same = [x for x in kstr + kint if x not in taken]
        if same and rng.random() < 0.75:
            x = rng.choice(same)
        else:
            x = rng.choice([c for c in STR_N + INT_N if c not in taken])
        params.append((x, "str" if x in STR_N else "int"))
    pn = [q for q, _ in params]
    sp, ip = [q for q, t in params if t == "str"], [q for q, t in params if t == "int"]

    def simple():
        for _ in range(20):
            r = rng.random()
            if r < 0.30 and sp:
                return [("len", rng.choice(sp))]
            if r < 0.40:
                return [("val", rng.choice(pn))]
            if r < 0.52 and [x for x in kstr if x not in pn]:
                return [("len", rng.choice([x for x in kstr if x not in pn]))]
            if r < 0.60 and [x for x in klist if x not in pn]:
                return [("flash", rng.choice([x for x in klist if x not in pn]))]
            if r < 0.70:
                pool = [str(rng.randint(0, 31))] * 2 + [x for x in kint if x not in pn]
                if not guarded and ip and rng.random() < 0.3:
                    pool += ip
                return [("glyph", [rng.choice(pool) for _ in range(8)])]
            if r < 0.85 and sp:
                q = rng.choice(sp)
                return [("assign", "vx", rng.choice([f"{q} + 'x'", f"{q}", repr(rng.choice(STRS))])), ("len", "vx")]
            if r < 0.92 and ip:
                return [("assign", "vy", f"{rng.choice(ip)} + {rng.randint(0, 3)}"), ("val", "vy")]
            if r < 0.97:
                # locals holding constants that differ, swapped (temporaries inside a function body), then folded
                a, b = rng.sample(STRS, 2)
                out = [("assign", "vx", repr(a)), ("assign", "vz", repr(b)), ("tuple", ["vx", "vz"], ["vz", "vx"]), ("len", "vx"), ("len", "vz")]
                if sp and rng.random() < 0.5:
                    q = rng.choice(sp)
                    out += [("tuple", ["vx", "vy"], [f"{q} + 'x'", "len(vx)"]), ("val", "vy"), ("len", "vx")]
                return out
        return [("val", rng.choice(pn))]
    body = []
    for _ in range(rng.randint(2, 4)):
        if rng.random() < 0.2:
            a = simple()
            b = simple() if rng.random() < 0.5 else []
            a = [st for st in a if st[0] not in ("assign", "tuple")] or [("val", pn[0])]
            b = [st for st in b if st[0] not in ("assign", "tuple")]
            a = [st for st in a if st[1] not in LOCAL_N] or [("val", pn[0])]
            b = [st for st in b if st[1] not in LOCAL_N]
            body.append(("if", a, b))
        else:
            body += simple()
    if sp and not any(st[0] == "len" and st[1] in sp for st in body):
        body.insert(rng.randint(0, len(body)), ("len", rng.choice(sp)))
    fname = "fn"
    prog = pre + [("def", fname, params, body)]

    def mid_stmt():
        r = rng.random()
        if r < 0.30 and kstr:
            x = rng.choice(kstr); v = rng.choice(STRS) + "q"
            env[x] = ("K", v)
            return ("assign", x, repr(v))
        if r < 0.45 and kint:
            x = rng.choice(kint); v = rng.randint(0, 31)
            env[x] = ("K", v)
            return ("assign", x, str(v))
        if r < 0.75 and kstr + kint:
            return ("val", rng.choice(kstr + kint))
        if kstr:
            return ("len", rng.choice(kstr))
        return ("val", m)
    for _ in range(rng.choice([1, 2, 2])):
        for _ in range(rng.choice([0, 0, 1, 2])):
            prog.append(mid_stmt())
        args = []
        for q, t in params:
            same_t = [x for x in (kstr if t == "str" else kint)]
            if same_t and rng.random() < 0.25:
                args.append(rng.choice(same_t))
            else:
                args.append(repr(rng.choice(CALL_STRS)) if t == "str" else str(rng.randint(0, 31)))
        prog.append(("call", fname, args, [env[a][1] if a in env else ast.literal_eval(a) for a in args]))
    for _ in range(rng.choice([0, 1, 2])):
        prog.append(mid_stmt())
    return prog


def def_cases(p, call_orcs):
    """the model cases (kind 2) of a program with a def: one per call"""
    out = []
    idx = next((i for i, st in enumerate(p) if st[0] == "def"), None)
    if idx is None:
        return out
    _, _, params, body = p[idx]
    prefix = [st for st in p[:idx] if st[0] not in ("def", "call")]
    mid, k = [], 0
    rest = p[idx + 1:]
    for j, st in enumerate(rest):
        if st[0] == "call":
            if k < len(call_orcs):
                ctr = [0]
                # post: the module statements after this call - _rebound_names counts the binding sites of the whole script
                post = [x for x in rest[j + 1:] if x[0] not in ("def", "call")]
                out.append([2, wire_prog(prefix, ctr), [q for q, _ in params], wire_prog(body, ctr), wire_prog(mid, ctr),
                            wire_prog(post, ctr), [W.enc_val(v) for v in st[3]], call_orcs[k]])
            k += 1
        elif st[0] != "def":
            mid.append(st)
    return out


def has_collision(p):
    """a for-loop variable named like a module variable: C++ scopes it to the loop, Python rebinds the module variable
    (variable scoping is C01's business): only the folded constants are compared for such a program"""
    for st in p:
        if st[0] == "for" and (st[1] not in LOOPV or has_collision(st[2])):
            return True
        if st[0] == "if" and (has_collision(st[1]) or has_collision(st[2])):
            return True
        if st[0] in ("while", "main") and has_collision(st[1]):
            return True
    return False


def has_def(p):
    return any(st[0] == "def" for st in p)


def wire_prog(p, ctr=None):
    """tuple assignment: the model has it as the transpiler emits it - every right-hand side into a temporary
    (__tmp_assign_k, k unique per program), then the targets from the temporaries (Lang/ConstTuple.tuple_assign, expanded by
    the decoder of Wire/C03W.v; theorem C03_tuple_assign_is_simultaneous: that IS Python's simultaneous assignment) - except
    where all targets are new at module level: there the real transpiler declares the names one by one, in order"""
    ctr = [0] if ctr is None else ctr
    out = []
    for s in p:
        k = s[0]
        if k == "assign":
            # s[3] (optional): the expression sent to the model where the script's spelling is outside the wire's expression
            # language but has the same constant value (a list comprehension over a literal range)
            out.append([0, s[1], W.enc_src(s[3] if len(s) > 3 else s[2])])
        elif k == "rt":
            out.append([0, s[1], W.enc_src(f"[{RT_PINS[s[2]]}][0]")])
        elif k == "append":
            out.append([1, s[1], W.enc_src(s[2])])
        elif k == "remove":
            out.append([2, s[1], W.enc_src(s[2])])
        elif k == "len":
            out.append([3, 0, s[1]])
        elif k == "flash":
            out.append([3, 1, s[1]])
        elif k == "glyph":
            out.append([3, 2, W.enc_src("[" + ", ".join(s[1]) + "]")])
        elif k == "val":
            out.append([3, 3, s[1]])
        elif k == "aug":
            out.append([8, W.enc_src(f"{s[1]} {s[2]} ({s[3]})")])
        elif k == "tuple":
            if len(s) > 3 and s[3] == "new":
                out += [[0, x, W.enc_src(e)] for x, e in zip(s[1], s[2])]
            else:
                out.append([9, ctr[0], list(s[1]), [W.enc_src(e) for e in s[2]]])
                ctr[0] += len(s[1])
        elif k == "if":
            out.append([5, wire_prog(s[1], ctr), wire_prog(s[2], ctr)])
        elif k in ("while", "main"):
            out.append([6, wire_prog(s[1], ctr)])
        elif k == "for":
            out.append([7, s[1], wire_prog(s[2], ctr)])
    return out


NAME_RE = re.compile(r"\b(" + "|".join(ALLV) + r")\b")


def assigned_names(b):
    """names a block binds by assignment (plain, augmented, tuple, run-time read) at any depth"""
    out = set()
    for st in b:
        if st[0] in ("assign", "aug", "rt"):
            out.add(st[1])
        elif st[0] == "tuple":
            out |= set(st[1])
        elif st[0] == "if":
            out |= assigned_names(st[1]) | assigned_names(st[2])
        elif st[0] in ("while", "main"):
            out |= assigned_names(st[1])
        elif st[0] == "for":
            out |= assigned_names(st[2])
    return out


def render_prog(p, sfx, header=True):
    lines = []
    cid = [0]

    def rn(src):
        return NAME_RE.sub(lambda m: f"{m.group(1)}_{sfx}", src)

    def block(b, lvl):
        pad = "    " * lvl
        for s in b:
            k = s[0]
            if k == "assign":
                lines.append(f"{pad}{rn(s[1])} = {rn(s[2])}")
            elif k == "rt":
                lines.append(f"{pad}{rn(s[1])} = analog_read({s[2]})")
            elif k == "append":
                lines.append(f"{pad}{rn(s[1])}.append({rn(s[2])})")
            elif k == "remove":
                lines.append(f"{pad}{rn(s[1])}.remove({rn(s[2])})")
            elif k == "len":
                lines.append(f"{pad}mon.write(len({rn(s[1])}))")
            elif k == "flash":
                # the spelling is a function of the statement and its position in the block only (the same in every rendering)
                v = zlib.crc32(repr((s, len(lines) % 7)).encode()) % 10
                x = rn(s[1])
                lines.append(f"{pad}led.flash_pattern(pattern={x}, delay_ms=3)" if v == 0 else
                             f"{pad}led.flash_pattern({x}, delay_ms=3)" if v == 1 else f"{pad}led.flash_pattern({x}, 3)")
            elif k == "glyph":
                v = zlib.crc32(repr((s, len(lines) % 7)).encode()) % 10
                rows = ", ".join(rn(x) for x in s[1])
                bm = f"({rows})" if v in (2, 3) and len(s[1]) > 1 else f"[{rows}]"     # a tuple literal is a bitmap too
                lines.append(f"{pad}lcd.glyph(slot=0, bitmap={bm})" if v in (0, 2) else
                             f"{pad}lcd.glyph(0, bitmap={bm})" if v == 1 else f"{pad}lcd.glyph(0, {bm})")
            elif k == "tuple":
                lines.append(f"{pad}{', '.join(rn(x) for x in s[1])} = {', '.join(rn(x) for x in s[2])}")
            elif k == "val":
                lines.append(f"{pad}mon.write({rn(s[1])})")
            elif k == "aug":
                lines.append(f"{pad}{rn(s[1])} {s[2]}= {rn(s[3])}")
            elif k == "if" and len(s) > 3 and s[3] == "try":
                lines.append(f"{pad}try:")
                block(s[1], lvl + 1)
                lines.append(f"{pad}except:")
                lines.append(f"{pad}    mon.write(\"{HANDLER_MARK}\")")       # CPython got into the handler: the run is outside the model
                block(s[2], lvl + 1)
            elif k == "if":
                cid[0] += 1
                c = f"c{cid[0]}_{sfx}"
                lines.append(f"{pad}{c} = digital_read(4)")
                lines.append(f"{pad}if {c} == 1:")
                block(s[1], lvl + 1)
                cur = s
                while True:
                    rest = cur[2]
                    if len(cur) > 3 and len(rest) == 1 and rest[0][0] == "if":
                        cur = rest[0]
                        lines.append(f"{pad}elif digital_read(4) == 1:")
                        block(cur[1], lvl + 1)
                        continue
                    break
                if rest:
                    lines.append(f"{pad}else:")
                    block(rest, lvl + 1)
            elif k == "def":
                lines.append(f"{pad}def {s[1]}_{sfx}(" + ", ".join(f"{rn(x)}: {t}" for x, t in s[2]) + "):")
                if len(s) > 4 and s[4] == "g":
                    # a body that ASSIGNS module-level names declares them global (append / remove need no declaration)
                    gl = sorted(assigned_names(s[3]))
                    if gl:
                        lines.append(f"{pad}    global " + ", ".join(rn(x) for x in gl))
                block(s[3], lvl + 1)
            elif k == "call":
                lines.append(f"{pad}{s[1]}_{sfx}(" + ", ".join(rn(a) for a in s[2]) + ")")
            elif k == "while":
                cid[0] += 1
                n, kk = f"n{cid[0]}_{sfx}", f"k{cid[0]}_{sfx}"
                lines.append(f"{pad}{n} = analog_read(14)")
                lines.append(f"{pad}{kk} = analog_read(15)")
                lines.append(f"{pad}while {kk} < {n}:")
                block(s[1], lvl + 1)
                lines.append(f"{pad}    {kk} = {kk} + 1")
            elif k == "for" and len(s) > 3:
                lines.append(f"{pad}for {rn(s[1])} in range({s[3]}):")
                block(s[2], lvl + 1)
            elif k == "for":
                cid[0] += 1
                n = f"n{cid[0]}_{sfx}"
                lines.append(f"{pad}{n} = analog_read(14)")
                lines.append(f"{pad}for {rn(s[1])} in range({n}):")
                block(s[2], lvl + 1)
            elif k == "main":
                lines.append("while True:")
                block(s[1], 1)

    block(p, 0)
    return (HEADER if header else "") + "\n".join(lines) + "\n"


WALK_CALLS = {}


def walk_oracle(p, rng, budget=60, inline_calls=False):
    """draw the run-time decisions of one execution: -> (model oracle, digital reads pin 4, analog reads pin 14);
    inline_calls: the decisions of a called body go into the one oracle, in execution order (Lang/ConstCall.v)"""
    orc, dr, ar = [], [], []
    left = [budget]
    defs, calls = {}, []

    def block(b):
        nonlocal orc
        for s in b:
            if left[0] <= 0:
                return
            left[0] -= 1
            if s[0] == "def":
                defs[s[1]] = s[3]
            elif s[0] == "call" and inline_calls:
                block(defs[s[1]])
            elif s[0] == "call":
                # the model's oracle for this call: the decisions of the module statements so far, then the body's
                main, orc = orc, []
                block(defs[s[1]])
                calls.append(main + orc)
                orc = main
            elif s[0] == "if" and len(s) > 3 and s[3] == "try":
                orc.append(1)
                block(s[1])
            elif s[0] == "if":
                d = rng.choice([0, 1])
                orc.append(d); dr.append(d)
                block(s[1] if d else s[2])
            elif s[0] == "for" and len(s) > 3:
                orc.append(s[3])
                for _ in range(s[3]):
                    block(s[2])
            elif s[0] in ("while", "for"):
                k = rng.choice([0, 1, 1, 2, 3])
                orc.append(k); ar.append(k)
                for _ in range(k):
                    block(s[1] if s[0] == "while" else s[2])
            elif s[0] == "main":
                k = rng.choice([1, 2, 3])
                orc.append(k); loops[0] = k
                for _ in range(k):
                    block(s[1])

    loops = [0]
    block(p)
    WALK_CALLS[id(p)] = calls
    return orc, dr, ar, left[0] > 0, loops[0]


def inputs_of(dr, ar):
    d = {"dr": {"4": dr or [0]}, "ar": {"14": ar or [0], "15": [0]}}
    for pin, v in RT_PINS.items():
        d["ar"][str(pin)] = [v]
    return d


def input_script(drs, ars):
    lines = ["dr 4 " + " ".join(map(str, drs or [0])), "ar 14 " + " ".join(map(str, ars or [0])), "ar 15 0"]
    lines += [f"ar {pin} {v}" for pin, v in RT_PINS.items()]
    return "\n".join(lines) + "\n"


def fw_obs(events):
    out = []
    for e in events:
        if e.startswith("S "):
            out.append(["S", e[2:]])
        elif e.startswith("DW 13 "):
            out.append(["P", int(e.split()[2])])
        elif e.startswith("AW 13 "):
            out.append(["P", int(float(e.split()[2]))])
        elif e.startswith("LCG "):
            out.append(["G", [int(x) for x in e.split()[3:11]]])
    return out


def model_obs(w):
    """model outputs (Some [vals]) -> observation list"""
    if not w:
        return None
    out = []
    for v in w[0]:
        pv = W.dec_val(v)
        if isinstance(pv, tuple):
            out.append(["G", [int(x) & 0x1F for x in pv]])      # the emitter and the host class both mask the rows
        elif isinstance(pv, list):
            out += [["P", int(x)] for x in pv]
        else:
            out.append(["S", str(pv)])
    return out


def splice(main, calls):
    """main: model outputs of the module statements (Some [vals]); calls: per call (outputs before the call, outputs of
    the call) -> the outputs of the whole script, or [] (undefined) when a piece is undefined"""
    if not main or any(not c for c in calls):
        return []
    out, pos = [], 0
    vals = list(main[0])
    for before, during in calls:
        n = len(before)
        if n < pos or n > len(vals):
            return []
        out += vals[pos:n] + list(during)
        pos = n
    return [out + vals[pos:]]


def model_static(w):
    out = []
    for o in w:
        if o[0] == 1:
            out.append(["rt"])
        else:
            pv = W.dec_val(o[1])
            out.append(["glyph", [int(x) for x in pv]] if isinstance(pv, tuple) else ["flash", [int(x) for x in pv]] if isinstance(pv, list) else ["len", pv])
    return out


def impl_static(obs):
    return [["rt"] if o[0] == "rt" else o for o in obs]


def flash_then_mutated(p):
    """does the program flash a list and mutate the same list later (anywhere after, at any depth)?"""
    flat = []

    def walk(b):
        for st in b:
            if st[0] in ("flash", "append", "remove"):
                flat.append((st[0], st[1]))
            elif st[0] == "if":
                walk(st[1]); walk(st[2])
            elif st[0] in ("while", "main"):
                walk(st[1])
            elif st[0] == "for":
                walk(st[2])
            elif st[0] == "def":
                walk(st[3])
    walk(p)
    seen = set()
    for k, x in flat:
        if k == "flash":
            seen.add(x)
        elif x in seen:
            return True
    return False


def scenario_programs(rng, n):
    """small programs built around one fold site each, systematically: (a) swap / rotation / self-reading tuple assignment
    of tracked constants that differ, at module level, in a taken-or-not branch, in a for body, in a function body, then
    every consumer (len, glyph row, append + flash_pattern); (b) list literal -> flash_pattern(name) -> append / remove of
    constants (same block or a nested block) -> flash_pattern(name) again"""
    out = []
    for i in range(n):
        kind = i % 6
        m = rng.choice(RT_N)
        pre = [("rt", m, rng.choice(sorted(RT_PINS)))]
        if kind in (0, 1, 2):
            k = rng.choice([2, 3])
            if rng.random() < 0.5:
                xs = rng.sample(STR_N, k)
                vals = rng.sample(STRS, k)
                pre += [("assign", x, repr(v)) for x, v in zip(xs, vals)]
                cons = [("len", x) for x in xs]
            else:
                xs = rng.sample(INT_N, k)
                vals = rng.sample(range(0, 32), k)
                pre += [("assign", x, str(v)) for x, v in zip(xs, vals)]
                cons = [("glyph", (xs + ["0"] * 8)[:8]), ("assign", "vp", "[" + ", ".join(rng.choice(["0", "1", "7"]) for _ in range(rng.randint(1, 2))) + "]")]
                cons += [("append", "vp", x) for x in xs] + [("flash", "vp")]
            es = (xs[1:] + xs[:1]) if rng.random() < 0.5 else (xs[-1:] + xs[:-1])
            tup = [("tuple", xs, es)] * rng.choice([1, 1, 2])
            if kind == 0:
                body = tup + cons
            elif kind == 1:
                # inside a branch: the fold sites of the branch read the swapped values; nothing folds them afterwards
                body = [("if", tup + cons, [("val", m)] if rng.random() < 0.5 else [])]
            else:
                body = tup + [("for", "vi", cons[:1] + [("val", "vi")])] + cons
            out.append(pre + body)
        elif kind == 3:
            # x, y = <new string>, len(x): the second right-hand side reads the OLD x
            sx, iy = rng.choice(STR_N), rng.choice(INT_N)
            v0, v1 = rng.sample(STRS, 2)
            pre += [("assign", sx, repr(v0)), ("assign", iy, "0")]
            order = rng.random() < 0.5
            xs, es = ([sx, iy], [repr(v1 + "k"), f"len({sx})"]) if order else ([iy, sx], [f"len({sx})", repr(v1 + "k")])
            out.append(pre + [("tuple", xs, es), ("val", iy), ("len", sx), ("glyph", [iy] + ["0"] * 7)])
        else:
            # flash, mutate, flash
            p = rng.choice(LIST_N)
            cur = [rng.choice([0, 1, 1, 255, rng.randint(0, 9)]) for _ in range(rng.randint(1, 5))]
            body = [("assign", p, repr(cur)), ("flash", p)]
            muts = []
            for _ in range(rng.randint(1, 3)):
                if cur and rng.random() < 0.45:
                    dup = [v for v in cur if cur.count(v) > 1 and cur.index(v) + 1 != len(cur) - cur[::-1].index(v)]
                    v = rng.choice(dup if dup and rng.random() < 0.7 else cur)      # remove() takes the FIRST match
                    cur.remove(v); muts.append(("remove", p, str(v)))
                else:
                    v = rng.choice([0, 1, 255, rng.randint(0, 9)]); cur.append(v); muts.append(("append", p, str(v)))
            if kind == 4:
                body += muts + [("flash", p), ("len", p)]
            else:
                # the mutation sits in a nested block (the list object is shared with the block's copy of the environment);
                # nothing folds the list afterwards
                body += [rng.choice([("if", muts, []), ("if", [("val", m)], muts), ("for", "vi", muts[:1])])]
            out.append(pre + body)
    return out


WITNESSES = {
    "F-C03-shared-list-append": {
        "prog": [("assign", "vp", "[1, 0]"), ("if", [("append", "vp", "1")], []), ("len", "vp"), ("flash", "vp")], "dr": [0], "ar": []},
    "F-C03-stale-reassign-in-branch": {
        "prog": [("assign", "vs", "'abc'"), ("if", [("assign", "vs", "'abcdef'")], []), ("len", "vs")], "dr": [1], "ar": []},
    "F-C03-stale-in-loop": {
        "prog": [("assign", "vs", "'ab'"), ("while", [("len", "vs"), ("assign", "vs", "'abcd'")]), ("len", "vs")], "dr": [], "ar": [2]},
    "F-C03-remove-unknown-pops-first": {
        "prog": [("assign", "vp", "[1, 0]"), ("rt", "vm", 19), ("remove", "vp", "vm"), ("flash", "vp")], "dr": [], "ar": []},
    "F-C03-stale-glyph-row": {
        "prog": [("assign", "va", "1"), ("if", [("assign", "va", "2")], []), ("glyph", ["va", "0", "0", "0", "0", "0", "0", "0"])], "dr": [1], "ar": []},
    "F-C03-def-time-global": {
        "prog": [("assign", "vs", "'ab'"), ("def", "fn", [("va", "int")], [("len", "vs")]), ("assign", "vs", "'abcdef'"),
                 ("call", "fn", ["0"], [0])], "dr": [], "ar": []},
    "F-C03-stale-after-try": {
        "prog": [("assign", "vs", "'abc'"), ("if", [("assign", "vs", "'abcdef'")], [], "try"), ("len", "vs")], "dr": [], "ar": []},
    "F-C03-unary-plus-identity": {
        "prog": [("assign", "vs", "f\"{+True}\""), ("len", "vs")], "dr": [], "ar": []},
}


def has_rhs_len(p):
    for st in p:
        k = st[0]
        if k in ("assign", "append", "remove") and "len(" in st[2]:
            return True
        if k == "aug" and "len(" in st[3]:
            return True
        if k == "tuple" and any("len(" in e for e in st[2]):
            return True
        if k == "if" and (has_rhs_len(st[1]) or has_rhs_len(st[2])):
            return True
        if k in ("while", "main") and has_rhs_len(st[1]):
            return True
        if k == "for" and has_rhs_len(st[2]):
            return True
        if k == "def" and has_rhs_len(st[3]):
            return True
    return False


def has_tuple(p):
    for s in p:
        if s[0] == "tuple":
            return True
        if s[0] == "if" and (has_tuple(s[1]) or has_tuple(s[2])):
            return True
        if s[0] in ("while", "main") and has_tuple(s[1]):
            return True
        if s[0] == "for" and has_tuple(s[2]):
            return True
    return False


def prog_name(x):
    """is x one of the generated program's variables (rendered with the suffix _0)?"""
    return x.endswith("_0") and x[:-2] in ALLV


def has_main(p):
    return bool(p) and p[-1][0] == "main"


def run_real(progs, drs, ars, batch, loops=None):
    """-> per program dict(status, py, fw): CPython observations (one run each) and firmware observations
    (accepted, Python-defined programs are batched into sketches, separated by marker lines)"""
    n = len(progs)
    scripts = [render_prog(p, "0") for p in progs]
    stat = C.run_impl("c03_impl.py", {"cases": [["prog", s] for s in scripts]})
    loops = loops or [0] * n
    py = C.run_impl("c03_impl.py", {"cases": [["pyobs", s, inputs_of(d, a), l] for s, d, a, l in zip(scripts, drs, ars, loops)]}, timeout=1200)
    out = [{"static": st, "py": y, "fw": None, "status": None} for st, y in zip(stat, py)]
    runnable = []
    for i, o in enumerate(out):
        if o["static"]["status"] != "ok":
            o["status"] = "rejected:" + o["static"]["status"]
        elif o["py"]["exc"]:
            o["status"] = "py-undefined:" + o["py"]["exc"]
        elif ["S", HANDLER_MARK] in o["py"]["obs"]:
            o["status"] = "py-undefined:exception-inside-try"
        else:
            runnable.append(i)
    # a sketch has one main loop: a program with `while True:` closes its group
    groups, cur = [], []
    plain = [i for i in runnable if not has_main(progs[i])]
    mains = [i for i in runnable if has_main(progs[i])]
    while plain or mains:
        cur = plain[:batch - 1]
        plain = plain[batch - 1:]
        if mains:
            cur.append(mains.pop(0))
        elif plain:
            cur.append(plain.pop(0))
        groups.append(cur)
    srcs, inputs = [], []
    for g in groups:
        body, gd, ga = "", [], []
        for i in g:
            body += f"mon.write(\"##case {i}\")\n" + render_prog(progs[i], str(i), header=False)
            gd += drs[i]; ga += ars[i]
        srcs.append(HEADER + body)
        inputs.append(input_script(gd, ga))
    tr = fw.transpile_many(srcs) if srcs else []
    jobs, jidx = [], []
    for gi, t in enumerate(tr):
        if t["ok"]:
            jobs.append({"cpp": t["cpp"], "input": inputs[gi], "loops": loops[groups[gi][-1]]})
            jidx.append(gi)
    res = dict(zip(jidx, fw.run_sketches(jobs))) if jobs else {}
    for gi, g in enumerate(groups):
        if not tr[gi]["ok"]:
            for i in g:
                out[i]["status"] = "batch-rejected:" + tr[gi]["exc"]
            continue
        r = res[gi]
        if not r["compiled"]:
            for i in g:
                out[i]["status"] = "nocompile"
                out[i]["log"] = r["compile_log"][-600:]
            continue
        if r["rc"] != 0:
            for i in g:
                out[i]["status"] = f"fw-rc-{r['rc']}"
            continue
        per = fw.split_cases(r["events"])
        for i in g:
            out[i]["fw"] = fw_obs(per.get(str(i), []))
            out[i]["status"] = "ran"
    return out, scripts, len(srcs)


def layer_b(ctx, stats):
    rng = ctx.rng
    thorough = ctx.tier == "thorough"
    n = 1600 if thorough else 280
    progs, guarded = [], []
    for i in range(n):
        g = (i % 5) != 4                       # 80 % inside the guard (these feed the oracle), 20 % anything
        # every second guarded program is generated for the flow guard (writes to tracked constants inside branches and
        # loop bodies, if / elif / else chains with sibling folds); unguarded ones may name a for-loop variable like a
        # tracked constant
        progs.append(ProgGen(rng, g, 3 if thorough and i % 3 == 0 else 2, flow=(g and i % 2 == 0), collide=not g).program(main=(i % 4 == 1)))
        guarded.append(g)
    # function definitions: formal arguments named like tracked module constants, calls with other values
    for i in range(n // 4):
        g = (i % 6) != 5
        progs.append(gen_def_program(rng, g))
        guarded.append(g)
    # straight-line programs dense in tuple assignments and flash / mutate / flash sequences (every program above may
    # contain them too, at any depth)
    for i in range(n // 5):
        progs.append(ProgGen(rng, True, 1 if i % 2 else 2, flow=(i % 3 == 0)).program(main=(i % 4 == 1)))
        guarded.append(True)
    progs += scenario_programs(rng, n // 7)
    guarded += [True] * (len(progs) - len(guarded))
    def count(b, depth):
        for st in b:
            stats[f"stmt:{st[0]}@depth{depth}"] += 1
            if st[0] == "if":
                count(st[1], depth + 1); count(st[2], depth + 1)
            elif st[0] in ("while", "main"):
                count(st[1], depth + 1)
            elif st[0] == "for":
                count(st[2], depth + 1)
    for p in progs:
        count(p, 0)
    walks = [walk_oracle(p, rng) for p in progs]
    keep = [i for i, w in enumerate(walks) if w[3]]
    progs, guarded, walks = [progs[i] for i in keep], [guarded[i] for i in keep], [walks[i] for i in keep]
    orcs, drs, ars, loops = [w[0] for w in walks], [w[1] for w in walks], [w[2] for w in walks], [w[4] for w in walks]
    real, scripts, n_sk = run_real(progs, drs, ars, batch=10 if thorough else 8, loops=loops)
    modelled = list(range(len(progs)))
    model = [None] * len(progs)
    dmodel = {}
    if ctx.exe:
        for i, m in zip(modelled, ctx.model([[1, wire_prog(progs[i]), orcs[i]] for i in modelled])):
            model[i] = m
        dcases = [(i, c) for i in modelled if has_def(progs[i]) for c in def_cases(progs[i], WALK_CALLS.get(id(progs[i]), []))]
        for (i, _), m in zip(dcases, ctx.model([c for _, c in dcases]) if dcases else []):
            dmodel.setdefault(i, []).append(m)
    distinct = set()
    samples = []
    failing = []
    for idx, (p, g, o, r, m, s) in enumerate(zip(progs, guarded, orcs, real, model, scripts)):
        body = s[len(HEADER):]
        case = {"script": s, "dr4": None, "oracle": o}
        stats["prog:" + r["status"].split(":")[0]] += 1
        if has_tuple(p):
            stats["prog:with tuple assignment"] += 1
        if flash_then_mutated(p):
            stats["prog:flash_pattern(name) followed by a mutation of that list"] += 1
        fresh = g
        if m is not None:
            if m == [2]:
                ctx.disagree("wire: the model could not decode the program", body, m, None)
                continue
            macc, mfresh, mfw, mpy, mstatic, msplit, mflowp = m
            msplit_ok, msk, mglobals, mtops = msplit
            mflow, mhoist = bool(mflowp[0]), bool(mflowp[1])
            # inside the guard of C03_global_split_partial (is_fresh + hoisting side conditions), or inside the flow guard
            # of C03_flow_partial together with the same hoisting side conditions (the split theorem itself is proved
            # for is_fresh programs only - see "unmodelled")
            fresh = g and ((bool(mfresh) and bool(msplit_ok)) or (mflow and mhoist))
            stats["guard:is_fresh" if mfresh else ("guard:flow_ok only" if mflow else "guard:outside")] += 1
            if mfresh and not mflow:
                stats["guard:is_fresh but not flow_ok"] += 1
            if g and not (mfresh or mflow):
                stats["guarded-but-outside-both-guards"] += 1
            if (mfresh or mflow) and not mhoist:
                stats["inside-env-guard-but-outside-split-guard"] += 1
            dm = dmodel.get(idx, [])
            if has_def(p):
                if any(d == [2] for d in dm):
                    ctx.disagree("wire: the model could not decode a call case", body, dm, None)
                    continue
                for d in dm:
                    stats["def:call inside def_ok" if d[1] else "def:call outside def_ok"] += 1
                fresh = fresh and bool(dm) and all(d[1] for d in dm)
            # accepted / rejected
            iacc = r["static"]["status"] == "ok"
            if has_def(p) and dm:
                macc = bool(macc) and all(d[0] for d in dm)
            if bool(macc) != iacc:
                ctx.disagree("constant environment: accepted by one side only", body, "accepted" if macc else "rejected", r["static"])
            elif iacc:
                if model_static(mstatic) != impl_static(r["static"]["obs"]):
                    ctx.disagree("constant environment: folded constants differ (model residual vs IR of the real parser)", body,
                                 model_static(mstatic), r["static"]["obs"])
                else:
                    stats["tie:static-equal"] += 1
                if has_def(p) and dm:
                    fo = r["static"].get("funcs", {}).get("fn_0")
                    if fo is None or model_static(dm[0][4]) != impl_static(fo):
                        ctx.disagree("function body: folded constants differ (model residual of the body vs IR of the real parser) - a formal "
                                     "argument must be a run-time value in the body whatever module constant has its name", body,
                                     model_static(dm[0][4]), fo)
                    else:
                        stats["tie:def-static-equal"] += 1
                # module level: which first assignments became static initialisers, which stayed in setup()
                # the temporaries of a tuple assignment are locals of setup() in the real sketch; the model lists them like
                # any other first assignment
                mg = [[C.wstr(x[0]), x[1]] for x in mglobals if not C.wstr(x[0]).startswith(TMP_PREFIX)]
                mt = [C.wstr(x) for x in mtops if not C.wstr(x).startswith(TMP_PREFIX)]
                ig = [x[0][:-2] for x in r["static"].get("globals", []) if prog_name(x[0]) and x[0][:-2] in {n for n, _ in mg}]
                it = [x[:-2] for x in r["static"].get("tops", []) if prog_name(x[5:] if x.startswith("decl:") else x)]
                for nm, kind in mg:
                    stats["global:" + ("static-initialiser" if kind == 0 else "default+runtime-assign")] += 1
                if [n for n, _ in mg] != ig:
                    ctx.disagree("module level: globals declared by first assignments differ (model vs IR of the real parser)", body,
                                 mg, r["static"].get("globals"))
                elif mt != it:
                    ctx.disagree("module level: the assignments left in setup() differ - a first assignment is hoisted into a static "
                                 "initialiser by one side only (model vs IR of the real parser)", body,
                                 {"globals (0 = static initialiser, 1 = default value)": mg, "top-level assignments": mt},
                                 {"globals": r["static"].get("globals"), "top-level assignments": it})
                else:
                    stats["tie:split-equal"] += 1
                if r["status"] == "ran":
                    msk_ok = msplit_ok or (mflow and mhoist)
                    mpy2, mfw2 = mpy, (msk if msk_ok else mfw)
                    if has_def(p):
                        mpy2, mfw2 = splice(mpy, [d[3] for d in dm]), splice(msk if msk_ok else mfw, [d[2] for d in dm])
                    mp, mf = model_obs(mpy2), model_obs(mfw2)
                    if mp is not None:
                        if mp != r["py"]["obs"]:
                            ctx.disagree("reference run-time semantics of the model differs from CPython", body, mp, r["py"]["obs"])
                        else:
                            stats["tie:py-equal"] += 1
                    if mf is not None and has_collision(p):
                        stats["tie:fw-skipped (loop variable named like a module variable)"] += 1
                    elif mf is not None and not (mfresh or mflow) and has_rhs_len(p):
                        # the model keeps right-hand sides symbolic; the real translation folds len(name) inside them: the
                        # two coincide only where the environment is right (inside the guards, where lens_agree holds)
                        stats["tie:fw-skipped (outside both guards, len(name) inside a right-hand side)"] += 1
                    elif mf is not None:
                        if mf != r["fw"]:
                            ctx.disagree("firmware outputs of the model differ from the real firmware", body, mf, r["fw"])
                        else:
                            stats["tie:fw-equal"] += 1
        # ---- the property on the real artefacts
        if fresh and r["status"] == "ran":
            stats["oracle:programs"] += 1
            nobs = len(r["py"]["obs"])
            if nobs >= 2:
                distinct.add(body)
            if r["fw"] != r["py"]["obs"]:
                failing.append((idx, r["py"]["obs"], r["fw"]))
        elif fresh and r["status"] == "nocompile":
            stats["oracle:nocompile"] += 1
        if len(samples) < 3 and r["status"] == "ran" and fresh and len(body) < 500:
            samples.append(body)
    # the smallest failing program first, shrunk (statements that are not needed for the failure are deleted)
    failing.sort(key=lambda f: len(scripts[f[0]]))
    what = ("firmware observations (serial lines: folded lengths and run-time values of variables; flash pattern levels; glyph rows) "
            "differ from CPython's on a program inside the guard")
    for n_f, (idx, pyo, fwo) in enumerate(failing):
        p, sc = progs[idx], scripts[idx]
        if n_f == 0:
            small = shrink_program(ctx, p, orcs[idx], drs[idx], ars[idx], loops[idx])
            if small is not None:
                p, sc, pyo, fwo = small
                stats["oracle:failing program shrunk"] += 1
        ctx.fail(what, {"script": sc, "digital_read(4)": drs[idx], "analog_read(14)": ars[idx], "main_loop_passes": loops[idx]},
                 pyo, fwo, key="stale-fold")
    return len(progs), len(distinct), samples, n_sk


# ------------------------------------------------------------------ layer C: calls of functions that write module names
CALL_VARIANTS = ("module", "if", "two", "main", "fn", "for", "fn", "module", "param", "fnfwd", "two", "main", "if", "fnvia", "module", "fn", "fnrec", "fnblk")
LIST_LITS = ["[1, 0, 1]", "[0, 1]", "[7]", "[1, 1, 0, 255]", "[]", "[2, 0, 2]"]


def gen_call_program(rng, variant):
    """module names bound to constants; def gr(): a body that WRITES some of them (append to a list - a constant or a
    run-time value -, `global s; s = s + 'x'`, augmented assignment, a plain constant, some inside an if); then the
    calling sequence: [re-bind a written name; gr(); fold it]+ where the re-binding statement is EVERY form - plain
    assignment, tuple assignment (either target order, a swap of two strings), augmented assignment, a list
    comprehension, assignment + append of a constant, the assignment inside if / try / for / while - and the fold is
    len(name) / mon.write(name) / rarely flash_pattern(name) or a glyph row (refused: nothing to bake).  No plain
    assignment stands between the re-binding and the call.
    variant: the calling sequence at module level | inside the main loop | inside an if | inside a for body | as the
    body of a second function ('fn': every re-binding form, as at module level - the region the repaired finding
    F-C03-stale-after-call-in-function used to exclude; 'fnfwd': the writer is defined AFTER the calling function; 'fnvia':
    the calling function reaches the writer through a third function; 'fnrec': the writer is the calling function
    itself, recursing behind a run-time condition; 'fnblk': the calling sequence inside an if / try / for / while block of
    the calling function's body).
    -> (program, parts) with parts = (prefix, body, first, rest) for the model (Lang/ConstCall.v)"""
    m = rng.choice(RT_N)
    prefix = [("rt", m, rng.choice(sorted(RT_PINS)))]
    lists = rng.sample(LIST_N, rng.randint(1, 2))
    strs = rng.sample(STR_N, rng.randint(1, 2))
    ints = rng.sample(INT_N, 2)
    decl = []
    for x in lists:
        decl.append(("assign", x, repr([rng.randint(0, 1) for _ in range(rng.randint(1, 3))])))
    for x in strs:
        decl.append(("assign", x, repr(rng.choice(STRS[1:]))))
    for x in ints:
        decl.append(("assign", x, str(rng.randint(0, 9))))
    rng.shuffle(decl)
    prefix += decl
    # ---- the callee
    wl = rng.sample(lists, rng.randint(1, len(lists))) if rng.random() < 0.8 else []
    ws = rng.sample(strs, 1) if (not wl or rng.random() < 0.6) else []
    wi = rng.sample(ints, 1) if rng.random() < 0.3 else []
    body = []
    for x in wl:
        body.append(("append", x, rng.choice(["1", "0", "7", "255", m])))
    for x in ws:
        body.append(rng.choice([("assign", x, f"{x} + 'x'"), ("aug", x, "+", "'yz'"), ("assign", x, repr(rng.choice(STRS) + "rs"))]))
    for x in wi:
        body.append(rng.choice([("assign", x, f"{x} + 1"), ("aug", x, "+", "2"), ("assign", x, "7")]))
    if ws and wi and rng.random() < 0.5:
        # the body writes both by ONE tuple assignment (temporaries inside the function)
        body = [st for st in body if st[1] not in (ws[0], wi[0])] + [("tuple", [ws[0], wi[0]], [f"{ws[0]} + 'x'", f"{wi[0]} + 1"])]
    rng.shuffle(body)
    if len(body) > 1 and rng.random() < 0.25:
        body[-1] = ("if", [body[-1]], [])
    if rng.random() < 0.3:
        x = rng.choice(wl + ws)
        body.append(("len", x))
    written = wl + ws + wi
    free_int = [x for x in ints if x not in wi]
    free_str = [x for x in strs if x not in ws]

    def rebind(x):
        """one re-binding of the written name x, as a list of statements"""
        forms = ["plain", "tuple", "tuple", "tuple", "aug", "block", "block"]
        if x in LIST_N:
            forms += ["comp", "plain+append"]
        f = rng.choice(forms)
        lit = rng.choice(LIST_LITS) if x in LIST_N else repr(rng.choice(STRS) + rng.choice(["", "k", "kk"])) if x in STR_N else str(rng.randint(10, 31))
        if f == "append":
            return [("append", x, rng.choice(["1", "7"]))]
        if f == "aug":
            if x in LIST_N:
                return [("assign", x, lit)]
            return [("aug", x, "+", "'q'" if x in STR_N else "3")]
        if f == "plain":
            return [("assign", x, lit)]
        if f == "comp":
            k = rng.randint(1, 4)
            return [("assign", x, f"[{LOOPV[2]} for {LOOPV[2]} in range({k})]", repr(list(range(k))))]
        if f == "plain+append":
            return [("assign", x, lit), ("append", x, rng.choice(["1", "7", "0"]))]
        if f == "tuple":
            others = [y for y in free_int + free_str + [w for w in written if w != x and w not in LIST_N]]
            if x in STR_N and [w for w in ws + free_str if w != x] and rng.random() < 0.3:
                y = rng.choice([w for w in ws + free_str if w != x])
                return [("tuple", [x, y], [y, x])]            # a swap with another tracked string
            if not others:
                return [("assign", x, lit)]
            y = rng.choice(others)
            ylit = repr(rng.choice(STRS)) if y in STR_N else str(rng.randint(0, 60))
            return [("tuple", [x, y], [lit, ylit]) if rng.random() < 0.5 else ("tuple", [y, x], [ylit, lit])]
        # inside a block
        inner = [("assign", x, lit)] if rng.random() < 0.6 or not free_int else [("tuple", [x, free_int[0]], [lit, "4"])]
        kind = rng.choice(["if", "if", "try", "for", "while"])
        if kind == "if":
            return [("if", inner, [])] if rng.random() < 0.7 else [("if", [("val", m)], inner)]
        if kind == "try":
            return [("if", inner, [], "try")]
        if kind == "for":
            return [("for", LOOPV[1], inner, rng.choice([1, 2]))]
        return [("while", inner)]

    def folds(x):
        out = []
        if x in LIST_N + STR_N:
            out.append(("len", x))
        if x not in LIST_N and rng.random() < 0.6:
            out.append(("val", x))
        if x in LIST_N and rng.random() < 0.08:
            out.append(("flash", x))
        if x in INT_N and rng.random() < 0.15:
            out.append(("glyph", [x] + ["0"] * 7))
        return out or [("val", x)] if x not in LIST_N else out

    n_calls = rng.choice([1, 2, 2, 3])
    first = []
    if rng.random() < 0.3:
        first.append(("val", m))
    x = rng.choice(written)
    if rng.random() < 0.75:
        first += rebind(x)      # else: nothing re-binds x between the def and the first call - it was forgotten AT the def
    rest = []
    for j in range(n_calls):
        seg = folds(x)
        if rng.random() < 0.3:
            y = rng.choice(written)
            seg += folds(y)
        if j + 1 < n_calls:
            x = rng.choice(written)
            seg += rebind(x)
        rest.append(seg)
    if variant == "two" and len(body) < 2:
        variant = "module"
    if variant == "param":
        # the callee takes an argument and appends / adds IT (a parameter is never volatile, what the body writes is)
        body = [("append", st[1], "vy") if st[0] == "append" else st for st in body]
        call = lambda: ("call", "gr", [str(rng.randint(0, 9))], [0])
        d = ("def", "gr", [("vy", "int")], body, "g")
        prog = prefix + [d] + list(first)
        for seg in rest:
            prog += [call()] + seg
        return prog, ([("rt", "vy", 17)] + prefix, body, first, rest), variant
    if variant == "two":
        # two functions, the second defined AFTER the first statements of the calling sequence: what only it writes is
        # still known between the two defs and must be forgotten at the second def
        k = rng.randint(1, len(body) - 1)
        prog = prefix + [("def", "gr", [], body[:k], "g")] + list(first) + [("def", "gs", [], body[k:], "g")]
        for seg in rest:
            prog += [("call", rng.choice(["gr", "gs", "gs"]), [], [])] + seg
        return prog, (prefix, body, first, rest), variant
    seq = list(first)
    for seg in rest:
        seq += [("call", "gr", [], [])] + seg
    d = ("def", "gr", [], body, "g")
    if variant == "module":
        prog = prefix + [d] + seq
    elif variant == "main":
        prog = prefix + [d, ("main", seq)]
    elif variant == "if":
        # the body of an if, the else branch, or a try body
        prog = prefix + [d, rng.choice([("if", seq, []), ("if", [("val", m)], seq), ("if", seq, [], "try")])]
    elif variant == "for":
        prog = prefix + [d, rng.choice([("for", LOOPV[0], seq, rng.choice([1, 2])), ("for", LOOPV[0], seq), ("while", seq)])]
    elif variant == "fnblk":
        # the calling sequence inside a block of the calling function's body
        blk = rng.choice([("if", seq, []), ("if", seq, [], "try"), ("for", LOOPV[0], seq, rng.choice([1, 2])), ("while", seq)])
        prog = prefix + [d, ("def", "us", [], [blk], "g"), ("call", "us", [], [])]
    elif variant == "fnfwd":
        prog = prefix + [("def", "us", [], seq, "g"), d, ("call", "us", [], [])]
    elif variant == "fnvia":
        via = ("def", "gm", [], [("call", "gr", [], [])], "g")
        seq = [("call", "gm", [], []) if st[0] == "call" else st for st in seq]
        prog = prefix + rng.choice([[d, via], [via, d]]) + [("def", "us", [], seq, "g"), ("call", "us", [], [])]
    elif variant == "fnrec":
        # the writer IS the calling function: def us(): <first>; if <run-time>: us(); <fold, re-bind, fold ...> - what the
        # inner activation re-binds last is what the outer one reads after the call
        seq = list(first) + [("if", [("call", "us", [], [])], [])]
        for seg in rest:
            seq += seg
        prog = prefix + [("def", "us", [], seq, "g"), ("call", "us", [], [])]
        return prog, (prefix, [], first, rest), variant
    else:
        prog = prefix + [d, ("def", "us", [], seq, "g"), ("call", "us", [], [])]
    return prog, (prefix, body, first, rest), variant


def calls_case(parts, in_fn, orc):
    prefix, body, first, rest = parts
    ctr = [0]
    return [3, 1 if in_fn else 0, wire_prog(prefix, ctr), wire_prog(body, ctr), wire_prog(first, ctr),
            [wire_prog(seg, ctr) for seg in rest], orc]


CALL_WITNESSES = {
    "F-C03-stale-after-call-in-function": {
        "prog": [("assign", "vp", "[1, 0]"), ("def", "gr", [], [("append", "vp", "1")], "g"),
                 ("def", "us", [], [("assign", "vp", "[1, 0, 1]"), ("call", "gr", [], []), ("len", "vp")], "g"),
                 ("call", "us", [], [])], "dr": [], "ar": []},
    # the same repair: the writer defined after the calling function / reached through a third function / recursive
    "F-C03-stale-after-forward-call": {
        "prog": [("assign", "vp", "[1, 0]"),
                 ("def", "us", [], [("assign", "vp", "[1, 0, 1]"), ("call", "gr", [], []), ("len", "vp")], "g"),
                 ("def", "gr", [], [("append", "vp", "1")], "g"), ("call", "us", [], [])], "dr": [], "ar": []},
    "F-C03-stale-after-indirect-call": {
        "prog": [("assign", "vp", "[1, 0]"), ("def", "gr", [], [("append", "vp", "1")], "g"),
                 ("def", "gm", [], [("call", "gr", [], [])], "g"),
                 ("def", "us", [], [("assign", "vp", "[1, 0, 1]"), ("call", "gm", [], []), ("len", "vp")], "g"),
                 ("call", "us", [], [])], "dr": [], "ar": []},
    "F-C03-stale-after-recursive-call": {
        "prog": [("assign", "vs", "'ab'"),
                 ("def", "us", [], [("assign", "vs", "'ab'"), ("if", [("call", "us", [], [])], []), ("len", "vs"),
                                    ("assign", "vs", "'abcd'")], "g"),
                 ("call", "us", [], [])], "dr": [1, 0], "ar": []},
}


def shrink_calls(p, dr, ar, loops, rounds=6):
    """delete top-level statements (module constants, re-bindings, folds, calls) and statements of function bodies while
    the firmware still differs from CPython on the same inputs; deleting statements cannot leave the guard (it consists
    of single-statement side conditions), a candidate Python does not define is dropped"""
    best = None

    def cands(q):
        out = []
        for i, st in enumerate(q):
            if st[0] == "def":
                if len(st[3]) > 1:
                    out += [q[:i] + [st[:3] + (st[3][:j] + st[3][j + 1:],) + st[4:]] + q[i + 1:] for j in range(len(st[3]))]
            elif st[0] in ("main", "if", "for", "while"):
                blk = st[1] if st[0] in ("main", "if", "while") else st[2]
                if len(blk) > 1:
                    for j in range(len(blk)):
                        nb = blk[:j] + blk[j + 1:]
                        out.append(q[:i] + [(st[0], nb) + tuple(st[2:]) if st[0] != "for" else (st[0], st[1], nb) + tuple(st[3:])] + q[i + 1:])
            else:
                out.append(q[:i] + q[i + 1:])
        return out[:48]

    for _ in range(rounds):
        cs = cands(p)
        if not cs:
            break
        real, scripts, _ = run_real(cs, [dr] * len(cs), [ar] * len(cs), batch=1, loops=[loops] * len(cs))
        keep = [(c, sc, r) for c, sc, r in zip(cs, scripts, real) if r["status"] == "ran" and r["fw"] != r["py"]["obs"]]
        if not keep:
            break
        p, sc, r = min(keep, key=lambda k: len(k[1]))
        best = (sc, r)
    return best


def layer_calls(ctx, stats):
    """functions that write module-level names, every re-binding statement form, call, fold"""
    rng = ctx.rng
    n = 448 if ctx.tier == "thorough" else 112
    gens = [gen_call_program(rng, CALL_VARIANTS[i % len(CALL_VARIANTS)]) for i in range(n)]
    progs, parts, variants = [g[0] for g in gens], [g[1] for g in gens], [g[2] for g in gens]
    walks = [walk_oracle(p, rng, budget=120, inline_calls=True) for p in progs]
    keep = [i for i, w in enumerate(walks) if w[3]]
    progs, parts, variants, walks = ([progs[i] for i in keep], [parts[i] for i in keep], [variants[i] for i in keep],
                                     [walks[i] for i in keep])
    orcs, drs, ars, loops = [w[0] for w in walks], [w[1] for w in walks], [w[2] for w in walks], [w[4] for w in walks]
    real, scripts, n_sk = run_real(progs, drs, ars, batch=8, loops=loops)
    model = [None] * len(progs)
    if ctx.exe:
        # the wrapped variants (main loop / if / for) go to the model as the straight-line sequence: only its guard is used
        cases = [calls_case(pt, v == "fn", o if v in ("module", "fn") else []) for pt, v, o in zip(parts, variants, orcs)]
        model = ctx.model(cases)
    distinct, samples, failing = set(), [], []
    for idx, (p, pt, v, o, r, m, sc) in enumerate(zip(progs, parts, variants, orcs, real, model, scripts)):
        body = sc[len(HEADER):]
        stats["calls:variant " + v] += 1
        stats["calls:" + r["status"].split(":")[0]] += 1
        for st in pt[2] + [x for seg in pt[3] for x in seg]:
            stats["calls:stmt " + (st[0] if st[0] != "if" or len(st) < 4 else "try")] += 1
        inside = True
        if m is not None:
            if m == [2]:
                ctx.disagree("wire: the model could not decode a call program", body, m, None)
                continue
            macc, mok, mfw, mpy, ob_p, ob_seq, ob_b = m
            inside = bool(mok) or not macc
            stats["calls:guard inside" if mok else ("calls:model rejects" if not macc else "calls:guard outside")] += 1
            if v in ("module", "fn"):
                iacc = r["static"]["status"] == "ok"
                if bool(macc) != iacc:
                    ctx.disagree("calls: accepted by one side only (a name a called function writes must not be baked into a flash "
                                 "pattern / glyph)", body, "accepted" if macc else "rejected", r["static"])
                elif iacc:
                    fo = r["static"].get("funcs", {})
                    if v == "module":
                        ms, im = model_static(ob_p) + model_static(ob_seq), impl_static(r["static"]["obs"])
                    else:
                        ms, im = model_static(ob_p) + model_static(ob_seq), impl_static(r["static"]["obs"]) + impl_static(fo.get("us_0") or [])
                    if ms != im:
                        ctx.disagree("calls: folded constants of the calling sequence differ (model residual vs IR of the real parser) - a name "
                                     "a called function writes is a run-time value at every fold site, whichever statement re-bound it",
                                     body, ms, im)
                    elif model_static(ob_b) != impl_static(fo.get("gr_0") or []):
                        ctx.disagree("calls: folded constants of the called body differ (model residual vs IR of the real parser)", body,
                                     model_static(ob_b), fo.get("gr_0"))
                    else:
                        stats["calls:tie static-equal"] += 1
                    if r["status"] == "ran":
                        mp, mf = model_obs(mpy), model_obs(mfw)
                        if mp is not None:
                            if mp != r["py"]["obs"]:
                                ctx.disagree("calls: reference run-time semantics of the model (body inlined at each call) differs from CPython",
                                             body, mp, r["py"]["obs"])
                            else:
                                stats["calls:tie py-equal"] += 1
                        if mf is not None:
                            if mf != r["fw"]:
                                ctx.disagree("calls: firmware outputs of the model differ from the real firmware", body, mf, r["fw"])
                            else:
                                stats["calls:tie fw-equal"] += 1
        # ---- the property on the real artefacts
        if inside and r["status"] == "ran":
            stats["calls:oracle programs"] += 1
            if len(r["py"]["obs"]) >= 2:
                distinct.add(body)
            if r["fw"] != r["py"]["obs"]:
                failing.append((len(sc), sc, r, v, idx))
            elif len(samples) < 2 and len(body) < 500:
                samples.append(body)
    failing.sort(key=lambda f: f[0])
    for n_f, (_, sc, r, v, idx) in enumerate(failing):
        if n_f == 0:
            small = shrink_calls(progs[idx], drs[idx], ars[idx], loops[idx])
            if small is not None:
                sc, r = small
                stats["calls:failing program shrunk"] += 1
        ctx.fail("firmware observations differ from CPython's after a call of a function that writes a module-level name: a value the "
                 "transpiler baked in for that name is stale (calling sequence: " + v + ")",
                 {"script": sc, "digital_read(4)": drs[idx], "analog_read(14)": ars[idx], "main_loop_passes": loops[idx]},
                 r["py"]["obs"], r["fw"], key="stale-fold-after-call")
    return len(progs), len(distinct), samples, n_sk


SIMPLE_KINDS = ("assign", "rt", "append", "remove", "len", "flash", "glyph", "val", "aug", "tuple")


def stmt_paths(p):
    """index paths of the simple statements of a program (at any depth) that can be deleted without emptying a block"""
    out = []

    def rec(b, pre):
        for i, st in enumerate(b):
            if st[0] in SIMPLE_KINDS and len(b) > 1:
                out.append(pre + (i,))
            elif st[0] == "if":
                rec(st[1], pre + (i, 1)); rec(st[2], pre + (i, 2))
            elif st[0] in ("while", "main"):
                rec(st[1], pre + (i, 1))
            elif st[0] == "for":
                rec(st[2], pre + (i, 2))
    rec(p, ())
    return out


def delete_paths(p, paths):
    """the program without the statements at the given paths (the control structure, hence the run-time decisions of the
    recorded path, stays as it is); None if a block that must not be empty would become empty"""
    drop = set(paths)

    def rec(b, pre):
        out = []
        for i, st in enumerate(b):
            pa = pre + (i,)
            if pa in drop:
                continue
            if st[0] == "if":
                st = (st[0], rec(st[1], pa + (1,)), rec(st[2], pa + (2,))) + tuple(st[3:])
            elif st[0] in ("while", "main"):
                st = (st[0], rec(st[1], pa + (1,)))
            elif st[0] == "for":
                st = (st[0], st[1], rec(st[2], pa + (2,))) + tuple(st[3:])
            out.append(st)
        return out

    def ok(b):
        for st in b:
            if st[0] == "if" and (not st[1] or not ok(st[1]) or not ok(st[2])):
                return False
            if st[0] in ("while", "main") and (not st[1] or not ok(st[1])):
                return False
            if st[0] == "for" and (not st[2] or not ok(st[2])):
                return False
        return True
    q = rec(p, ())
    return q if q and ok(q) else None


def deletions(p):
    paths = stmt_paths(p)
    out = [(pa, delete_paths(p, [pa])) for pa in paths]
    return [(pa, c) for pa, c in out if c is not None]


def still_fails(ctx, cands, orc, dr, ar, loops):
    """-> per candidate None | (script, CPython observations, firmware observations): inside the guard (decided by the
    extracted model), defined under CPython, firmware observations differ"""
    if not cands:
        return []
    real, scripts, _ = run_real(cands, [dr] * len(cands), [ar] * len(cands), batch=1, loops=[loops] * len(cands))
    model = ctx.model([[1, wire_prog(c), orc] for c in cands]) if ctx.exe else [None] * len(cands)
    out = []
    for c, r, m, sc in zip(cands, real, model, scripts):
        ok = r["status"] == "ran" and r["fw"] != r["py"]["obs"]
        if ok and m is not None:
            ok = m != [2] and bool((m[1] and m[5][0]) or (m[6][0] and m[6][1]))
        out.append((sc, r["py"]["obs"], r["fw"]) if ok else None)
    return out


def shrink_program(ctx, p, orc, dr, ar, loops, rounds=10):
    if has_def(p):
        return None
    best = None
    for _ in range(rounds):
        cands = deletions(p)[:64]
        res = still_fails(ctx, [c for _, c in cands], orc, dr, ar, loops)
        keep = [(pa, c, r) for (pa, c), r in zip(cands, res) if r is not None]
        if not keep:
            break
        # all deletions that keep the failure, at once; else the one that leaves the shortest script
        both = delete_paths(p, [pa for pa, _, _ in keep]) if len(keep) > 1 else None
        if both is not None:
            r = still_fails(ctx, [both], orc, dr, ar, loops)[0]
            if r is not None:
                p, best = both, r
                continue
        _, p, best = min(keep, key=lambda k: len(k[2][0]))
    return None if best is None else (p,) + best


def replay_findings(ctx):
    """every listed witness is replayed on the real artefacts (real parse() + emit(), g++, mock core vs CPython).
    kind=finding and still failing -> KNOWN-FINDING; kind=fixed and failing again -> a property failure (VIOLATION with
    the witness as replay): a fixed entry suppresses nothing"""
    WITNESSES.update(CALL_WITNESSES)
    listed = {f["id"]: f for f in ctx.findings if f["id"] in WITNESSES}
    if not listed:
        return
    ids = list(listed)
    progs = [WITNESSES[i]["prog"] for i in ids]
    real, scripts, _ = run_real(progs, [WITNESSES[i]["dr"] for i in ids], [WITNESSES[i]["ar"] for i in ids], batch=1)
    for i, r, sc in zip(ids, real, scripts):
        failing = r["status"] == "ran" and r["fw"] != r["py"]["obs"]
        fixed = listed[i].get("kind") == "fixed"
        ctx.coverage.setdefault("known_findings_replayed", []).append(
            {"id": i, "kind": listed[i].get("kind"), "status": r["status"], "reproduces": failing})
        if failing and fixed:
            ctx.fail(f"the repaired defect {i} is back: firmware observations differ from CPython's on its witness",
                     {"script": sc, "digital_read(4)": WITNESSES[i]["dr"], "analog_read(14)": WITNESSES[i]["ar"], "main_loop_passes": 0,
                      "finding": i}, r["py"]["obs"], r["fw"], key="fixed-finding-returned:" + i)
        elif failing:
            ctx.known(f"{i}: {listed[i]['what']}")


def run(ctx: C.Ctx):
    stats = collections.Counter()
    replay_findings(ctx)          # first: a repaired defect that is back is the first VIOLATION reported
    n_a, d_a, s_a = layer_a(ctx, stats)
    n_b, d_b, s_b, n_sk = layer_b(ctx, stats)
    n_c, d_c, s_c, n_sk_c = layer_calls(ctx, stats)
    s_b = s_b + s_c
    ctx.coverage.update({
        "evaluations": n_a + n_b + n_c,
        "distinct_nontrivial": d_a + d_b + d_c,
        "programs": n_b + n_c,
        "sketches_compiled": n_sk + n_sk_c,
        "rule": "(round 4 - layer C, calls of functions that write module-level names: module constants (lists, strings, ints) bound before the def; def gr(): appends a constant or a run-time value to a module list, `global s; s = s + 'x'`, augmented assignment, a plain constant, one tuple assignment of two globals, optionally under an if, optionally printing a length; then [re-bind a written name; gr(); fold it] 1-3 times where the re-binding is EVERY statement form - plain assignment, tuple assignment in either target order and as a swap of two strings, augmented assignment, a list comprehension over a literal range, assignment followed by append of a constant, the assignment (plain or tuple) inside if / else / try / for / while, or nothing at all (the name was forgotten at the def) - never a plain assignment between the re-binding and the call; folds: len(name), mon.write(name), rarely flash_pattern(name) / a glyph row (refused by the transpiler: nothing to bake). Variants: calling sequence at module level (model correspondence: accepted / rejected, folded constants of the calling sequence and of the body vs the real IR, model reference semantics vs CPython, model firmware vs real firmware), as the body of a second function (same correspondence with in_fn = 1, every re-binding form - the region the repaired finding F-C03-stale-after-call-in-function used to exclude), the same with the writer defined AFTER the calling function / reached through a third function / being the calling function itself, recursing behind a run-time condition / with the calling sequence inside an if, try, for or while block of the calling function's body (oracle only), inside the main loop 1-3 passes / inside an if body, an else branch or a try body / inside a for or while body run 0-3 times / two writer functions with the second def after the first statements / a writer with an int parameter (oracle only: firmware observations = CPython's; the guard is the model's calls_ok of the straight-line sequence).) (round 3 additions - A: sensor-model-shaped expressions ('HC-SR04' spellings, concatenations, names bound to model strings) through Ultrasonic(7, 8, model=<e>) and every sampled expression through Led(<e>): the folded model / pin is what the argument names at run time. B: tuple assignments at every depth and in every program family (swaps and 3-rotations of int / str names whose tracked constants differ, `x, y = <new string>, len(x)` and three-target forms whose last right-hand side reads both earlier targets, pairs of expressions where the second reads the first target; all-new pairs at module level), each followed by the fold sites that read the targets (len(target), a glyph bitmap built from the targets, append(target) + flash_pattern); flash_pattern(name) followed by append / remove of constants to the same list - in the same block, in a taken-or-not branch, in a for body - and a second flash_pattern; try / except blocks (sent to the model as `if <true>: body else: handler`; the head of every handler prints a marker so that a CPython run that enters a handler is discarded); removes that prefer a duplicated value; a family of small scenario programs built around one such fold site each; a failing program is shrunk by deleting simple statements (re-checked against the guard of the extracted model) before it is reported.) A: boundary expressions (every node kind _eval_const looks at, each operator with int/float/bool/str operands, error sources, hostile forms) x 3-5 environments (known int/float/bool/str/list/tuple, a marker, an unbound name), then seeded random expressions (harness/pyast_wire.gen_expr, depth 1-4) - each through the extracted model and the real _eval_const/_expr_has_name/_to_c_expr, a sample also through parse() at the blink/backlight/glyph/sleep call sites with the environment set up by assignments; non-trivial (A) = distinct (expression, environment) on which the real evaluator returned a value inside the guard and the CPython comparison ran. B: seeded programs (assign / augmented assign / run-time read / append / remove / len(name) / flash_pattern(name) / lcd.glyph(0, [rows]) / mon.write(name) = the run-time value of a variable; at module level a 'retune' pattern: a constant is re-assigned and then used in the FIRST assignment of another module-level name, which is then printed - the static-initialiser vs run-time-assignment split; a fifth of the programs additionally use tuple assignment, oracle only) under if, while, for and - every fourth program - the sketch's main loop `while True:` run 1-3 passes; 80 % generated inside the guard; every second guarded program is generated for the FLOW guard: tracked constants are re-assigned / appended inside branches and loop bodies, if / elif / else chains of 1-3 branches where 60 % of the branches with later siblings re-assign a tracked constant and the later siblings fold it (len / glyph row) from the snapshot, loop bodies that write tracked constants nothing folds, for-loop variables named like a tracked module constant followed by a re-assignment with a probe (a string formatted from the binder, and its length) in the body; a further quarter of the programs define a function whose formal arguments are mostly named like tracked module constants of the same type, with len(argument) / glyph / flash_pattern / len(module constant) / locals in the body, module statements between the def and 1-2 calls (some re-assigning a constant the body folds), arguments that differ from the same-named constants) with one seeded execution path each (branches taken or not, loops 0-3 times): real parse() IR vs model residual (folded constants; which module-level first assignments became static initialisers and which stayed in setup()), CPython run vs model reference semantics, firmware run (batched sketches, g++, mock core) vs model firmware outputs; non-trivial (B) = distinct program inside the guard that ran on both sides with >= 2 observations.",
        "samples": [{"expr": x} for x in s_a] + [{"program": x} for x in s_b],
        "distribution": dict(sorted(stats.items())),
        "guard": "A: in_guard (no one-argument max/min), no variable named like a builtin of _SAFE_NAME_REFERENCES. B: is_fresh (ConstEnv.tblock's flag) - since the repair of the stale-fold findings only single-statement side conditions: every folded expression inside in_guard, no variable named like a builtin the evaluator interprets, a remove with a constant argument finds it in the tracked list; NOTHING about where a name is assigned / appended to / removed from (branches, loop bodies, try bodies, run-time arguments are all inside) - and def_ok for every call of a defined function (the same side conditions for prefix, body and the statements before the call; formal arguments not named like a builtin); split_ok = is_fresh and the hoisting side conditions of C03_global_split_partial. Layer C: calls_ok (the same single-statement side conditions for prefix, body and every segment of the calling sequence) - nothing about which statement re-binds a written name, nor about the scope of the calling sequence (module level or the body of another function: F-C03-stale-after-call-in-function is repaired). A program goes to the oracle when the extracted model says so. The witnesses of the nine repaired findings (kind=fixed) are replayed first on every run: one that fails again is reported as a VIOLATION with the witness as replay.",
        "unmodelled": ["IEEE specials, float results that are not exactly representable are compared only CPython-vs-implementation (exact), not against the rational model",
                       "sensor model names and Led pins are oracle-only fold sites (real parse() vs CPython value; no Gallina function for the model-name canonicalisation); other device constructors' pins follow the same _resolve pattern and are not run",
                       "list aliasing between variables (b = a), flash_pattern / glyph with an inline literal containing names (ast.literal_eval path) in the environment model",
                       "len(name) INSIDE a right-hand side / append / remove argument is folded by the real translation (_to_c_expr); the model keeps those expressions symbolic - inside is_fresh the environment agrees with the run-time state at every program point (C03_env_agrees), so the folded length is the run-time length (C03_literal_length_sound); the model-vs-real firmware tie is skipped for programs outside the guard that contain one",
                       "calls of a writer function from INSIDE a block (main loop, if, for body), two writer functions, a writer with a parameter, a writer defined after the function that calls it, reached through a third function, or recursive: oracle only (firmware vs CPython), the Gallina call model (Lang/ConstCall.v) has one parameterless call-free writer called between top-level segments of the calling scope (module level or one function body); writers that return values feeding fold sites, Button on_click callbacks as writers are not generated; sleep(name) is not a fold site of the environment (C03_namefree_closed: only name-free arguments fold) and is not observed in layer C",
                       "tuple assignment: the model has the temporaries form (Lang/ConstTuple.v, proved simultaneous); where all targets are new at module level the real transpiler declares the names one by one without temporaries and the harness sends single assignments (tie: globals / top-level assignments / folded constants); tuple assignment of list VALUES (aliasing) and targets that are partly new at module level (setup()-local declarations: C01/C06) are not generated",
                       "try / except: modelled as a two-way branch whose body is taken (a body that raises nothing); handlers that actually run (exceptions at run time), finally / else clauses, typed handlers are outside",
                       "IR nodes other than LedFlashPattern that hold lists (LCDGlyph.bitmap is built entry by entry from a freshly evaluated list and cannot alias the environment: names bound to lists do not evaluate) - covered by reading the real IR after parse() in the correspondence, not by Lang/ConstNodes.v",
                       "statements the parser drops without translating (p[0] = 7, p.pop(), p.insert(), p.reverse(), p.clear(), p.extend(): C07's silent-skip findings) leave the tracked list and the firmware's list equally unchanged - never generated here",
                       "functions that call functions / recursion / return values feeding fold sites / list arguments (the def model is: call-free body, str / int arguments, module-level def and calls), names promoted out of blocks are not listed among the model's globals",
                       "a for-loop variable named like a module variable that is assigned inside the loop body or read after the loop without re-assignment (C++ scopes the loop variable: C01's business) - generated only with a re-assignment after the loop; the model-vs-firmware tie is skipped for those programs",
                       "str(float) / float(str) / complex results: OutOfModel in PySem (skipped, counted)"],
        "trusted_base": C.COMMON_TRUSTED + ["harness/gen/safecasts.py (operator / cast / safe-name tables of parser.py)",
                                            "Lang/PySem.v as the meaning of Python expressions (validated against CPython by harness/pysem_check.py)",
                                            "mock Arduino core + g++ (device), CPython 3.12 + host classes with recording stubs (harness/impl/c03_impl.py pyobs)"],
    })
    ctx.assumptions += ["a script does not rebind len/abs/max/min/int/float/str/bool", "C int does not overflow for the generated magnitudes (values 0..255, lengths < 50)"]
    return ctx


def replay(data):
    from harness.props.c03_replay import replay_c03
    return replay_c03(data)
