"""./check replay <file> for C03 and C11: re-run a recorded failing case on the current /repo and say whether
it still fails (exit code 1) or not (0)."""
from __future__ import annotations

from harness import common as C
from harness import fw


def replay_c03(data):
    from harness.props import c03 as L
    case = data.get("case") or {}
    if "expr" in case:
        env = {k: (L.MARK if v == "<marker>" else v) for k, v in (case.get("env") or {}).items()}
        rt = case.get("runtime_env") or {k: (9 if v is L.MARK else v) for k, v in env.items()}
        r = C.run_impl("c03_impl.py", {"cases": [["eval", case["expr"], L.impl_env(env), {k: L.tag(v) for k, v in rt.items()}]]})[0]
        print("real _eval_const:", r["res"], " CPython:", r.get("py"), " folded len:", r.get("len"))
        bad = r["res"][0] == "ok" and r.get("py") is not None and (r["py"][0] != "ok" or not L.same_exact(L.untag(r["res"][1]), L.untag(r["py"][1])))
        print("still failing" if bad else "no longer failing (or a call-site / len case: see the values above)")
        return 1 if bad else 0
    if "script" in case:
        inputs = {"dr": {"4": case.get("digital_read(4)") or [0]}, "ar": {"14": case.get("analog_read(14)") or [0], "15": [0]}}
        for pin, v in L.RT_PINS.items():
            inputs["ar"][str(pin)] = [v]
        loops = case.get("main_loop_passes", 0)
        py = C.run_impl("c03_impl.py", {"cases": [["pyobs", case["script"], inputs, loops]]})[0]
        t = fw.transpile_many([case["script"]])[0]
        if not t["ok"]:
            print("transpiler now rejects the script:", t)
            return 0
        r = fw.run_sketches([{"cpp": t["cpp"], "input": L.input_script(inputs["dr"]["4"], inputs["ar"]["14"]), "loops": loops}])[0]
        f = L.fw_obs(r["events"])
        print("CPython :", py["obs"], py.get("exc"))
        print("firmware:", f)
        bad = py["exc"] is None and f != py["obs"]
        print("still failing" if bad else "no longer failing")
        return 1 if bad else 0
    print("nothing to replay in this file (a broken proof or correspondence: see broken_proof / broken_correspondence)")
    return 0


def replay_c11(data):
    case = data.get("case") or {}
    if "text" in case and not case["text"].endswith("...<cut>"):
        r = C.run_impl("c11_impl.py", {"cases": [["script", case["text"]]], "limit": 30})[0]
        print("real parse()+emit():", r)
        bad = r["exc"] not in (None, "ValueError", "SyntaxError") or bool(r["audit"])
        print("still failing" if bad else "no longer failing")
        return 1 if bad else 0
    if case.get("kind") == "fixed-witness" and "n" in case:
        r = C.run_impl("c11_impl.py", {"cases": [["blowup", int(n)] for n in case["n"]], "limit": 30})
        print("real _eval_const('2**2**n', {}) for n =", case["n"], ":", r)
        bad = any(x.get("bits") is not None or x.get("exc") != "ValueError" for x in r)
        print("still failing" if bad else "no longer failing")
        return 1 if bad else 0
    if "expr" in case:
        from harness.props import c03 as L
        env = {k: (L.MARK if v == "<marker>" else v) for k, v in (case.get("env") or {}).items()}
        r = C.run_impl("c11_impl.py", {"cases": [["expr", case["expr"], L.impl_env(env)]], "limit": 30})[0]
        print("real _eval_const under recording wrappers:", r)
        return 0
    print("nothing to replay in this file")
    return 0
