"""C04, unit C04_led: LED commands - generated firmware = host class.

Engines (AGENT_GUIDE rule 5):
 (i)  correspondence: the same command sequences through the extracted models (coq/Wire/C04_ledW.v: Device/DLed.v
      and Host/Led.v) and through the REAL artefacts: the script transpiled by the real parser/emitter, compiled and
      run under the mock core (raw digitalWrite/analogWrite/delay events and the getter prints), and the same script
      executed under CPython against the real Led class (completed set_brightness calls, sleeps, getter values);
 (ii) property oracle: the extracted canonicaliser applied to the real firmware trace and to the real host trace
      (host sleeps floored to whole ms) must give the same per-pin timed level signal, and the printed getter
      values must agree - evaluated for every generated case inside the guard; the clamp clause (every analogWrite
      value within 0..255) is evaluated on every real firmware trace, inside or outside the guard."""
from __future__ import annotations

import itertools
import json
from fractions import Fraction

from harness import common as C
from harness.props.c04_util import Arg, Builder, CASES_PER_SKETCH, run_firmware, run_host, q_of

UNIT = "C04_led"
IMPORTS = ["from Reduino.Actuators import Led", "from Reduino.Communication import SerialMonitor",
           "from Reduino.Core import analog_read"]

META_PART = ("C04_led: for all LED command sequences inside the guard the device model (the emitter's C++, statement by "
             "statement) and the host model produce the same canonical per-pin level signal with whole-millisecond time stamps "
             "(host sleep q = device delay trunc(q), proved < 1 ms apart), the same getter values, and no host call raises; "
             "clamp clause proved for ALL values and histories; two refutations outside the guard (fractional fade step, "
             "pattern entry strictly between 1 and 2).")

# op codes of the wire (shared with C19_ledW): 0 on 1 off 2 get_state 3 get_brightness 4 set_brightness 5 toggle
# 6 blink 7 fade_in 8 fade_out 9 flash_pattern
NAMES = {0: "on", 1: "off", 2: "get_state", 3: "get_brightness", 4: "set_brightness", 5: "toggle", 6: "blink",
         7: "fade_in", 8: "fade_out", 9: "flash_pattern"}


def op(code, *args, pattern=None):
    return {"code": code, "args": list(args), "pattern": pattern}


def op_wire(o):
    if o["code"] == 9:
        return [9, [a.wire() for a in o["pattern"]]] + [a.wire() for a in o["args"]]
    return [o["code"]] + [a.wire() for a in o["args"]]


def op_pub(o):
    d = {"op": NAMES[o["code"]], "args": [a.pub() for a in o["args"]]}
    if o["pattern"] is not None:
        d["pattern"] = [a.v for a in o["pattern"]]
    return d


def emit_case(b: Builder, cid, case):
    b.case(cid)
    name = f"d{cid}"
    b.add(f"{name} = Led({case['pin']})")
    for o in case["ops"]:
        c = o["code"]
        if c in (2, 3):
            b.add(f"mon.write({name}.{NAMES[c]}())")
        elif c == 9:
            ex = [b.expr(a) for a in o["args"]]
            b.add(f"{name}.flash_pattern([{', '.join(repr(a.v) for a in o['pattern'])}]" + "".join(", " + e for e in ex) + ")")
        else:
            ex = [b.expr(a) for a in o["args"]]
            b.add(f"{name}.{NAMES[c]}({', '.join(ex)})")


# ---------------------------------------------------------------------------------------------------------------
# guard (mirror of Device/DLed.v in_range; the model's own in_range flags are compared with it on every case)
# ---------------------------------------------------------------------------------------------------------------

def whole(v):
    return isinstance(v, (bool, int)) or float(v) == int(v)


def in_range(o) -> bool:
    c, a = o["code"], [x.v for x in o["args"]]
    if c == 4:
        return 0 <= a[0] <= 255
    if c == 6:
        t = a[1] if len(a) > 1 else 1
        return a[0] >= 0 and isinstance(t, (bool, int)) and t > 0
    if c in (7, 8):
        s = a[0] if a else 5
        d = a[1] if len(a) > 1 else 10
        return s > 0 and whole(s) and d >= 0
    if c == 9:
        d = a[0] if a else 200
        return d >= 0 and all(0 <= e.v <= 255 and not (1 < e.v < 2) for e in o["pattern"])
    return True


# ---------------------------------------------------------------------------------------------------------------
# generators
# ---------------------------------------------------------------------------------------------------------------
BRIGHT_OK = [0, 1, 2, 127, 128, 254, 255, 0.5, 127.5, 255.0, 75.25, True]
BRIGHT_BAD = [-1, 256, 300, -0.5, -300, 723, 255.75 + 0.5]
DUR_OK = [0, 1, 5, 2.5, 7.75, 0.25]
TIMES_OK = [1, 2, 3, True]
TIMES_BAD = [0, -1, -3]
STEP_OK = [1, 5, 51, 100, 254, 255, 300, 51.0, 2.0]
STEP_BAD = [0, -1, -5]
STEP_FRACTIONAL = [2.5, 0.5, 100.25]
DELAY_OK = [0, 3, 2.5, 1]
PAT_OK = [0, 1, 2, 128, 255, True, False, 0.5, 2.5, 254.75, 1.0, 0.0]
PAT_BAD = [-1, 256, 300, -0.5]


def mk(ctx, v, allow_rt=True):
    return Arg(v, rt=allow_rt and ctx.rng.random() < 0.5)


def base_alphabet(ctx, small):
    """in-range commands at boundary values; each numeric argument is independently literal or run-time"""
    A = [op(0), op(1), op(5), op(2), op(3)]
    for v in (BRIGHT_OK[:7] if small else BRIGHT_OK):
        A.append(op(4, mk(ctx, v)))
    for d, t in ([(5, 2), (2.5, 1), (0, 3)] if small else itertools.product(DUR_OK, TIMES_OK)):
        A.append(op(6, mk(ctx, d), mk(ctx, t)))
    A.append(op(6, mk(ctx, 7)))
    for s, d in ([(100, 3), (51, 0), (300, 2.5), (1, 0)] if small else itertools.product(STEP_OK, DELAY_OK[:3])):
        A.append(op(7, mk(ctx, s), mk(ctx, d)))
        A.append(op(8, mk(ctx, s), mk(ctx, d)))
    A += [op(7), op(8), op(7, mk(ctx, 60)), op(8, mk(ctx, 60))]
    pats = [[1, 0, 128], [255], [0.5, 2.5, True], [2, 254.75, 0, 1, 1.0], []]
    for p in pats:
        A.append(op(9, mk(ctx, ctx.rng.choice(DELAY_OK)), pattern=[Arg(e) for e in p]))
    A.append(op(9, pattern=[Arg(1), Arg(0)]))
    return A


def random_op(ctx, bad=False):
    r = ctx.rng
    k = r.choice([0, 1, 5, 2, 3, 4, 4, 4, 6, 6, 7, 7, 8, 8, 9, 9])
    if k in (0, 1, 5, 2, 3):
        return op(k)
    if k == 4:
        return op(4, mk(ctx, r.choice(BRIGHT_BAD if bad and r.random() < 0.7 else BRIGHT_OK + list(range(3, 250, 41)))))
    if k == 6:
        return op(6, mk(ctx, r.choice(DUR_OK)), mk(ctx, r.choice(TIMES_BAD if bad and r.random() < 0.5 else TIMES_OK)))
    if k in (7, 8):
        s = r.choice(STEP_BAD if bad and r.random() < 0.5 else STEP_OK + [r.randint(1, 260)])
        if r.random() < 0.2:
            return op(k, mk(ctx, s))
        return op(k, mk(ctx, s), mk(ctx, r.choice(DELAY_OK)))
    n = r.randint(0, 6)
    pool = PAT_OK + (PAT_BAD if bad else [])
    return op(9, mk(ctx, r.choice(DELAY_OK)), pattern=[Arg(r.choice(pool)) for _ in range(n)])


def gen_cases(ctx):
    quick = ctx.tier == "quick"
    cases = []
    A = base_alphabet(ctx, small=quick)
    starts = [[], [op(4, Arg(100))]] if not quick else [[]]
    # exhaustive ordered pairs over the boundary alphabet (followed by both getters)
    for st in starts:
        for a, b in itertools.product(A, repeat=2):
            cases.append({"pin": ctx.rng.choice([3, 5, 9, 13]), "ops": st + [a, b, op(2), op(3)], "family": "pairs", "stream": "guard"})
    # seeded random longer sequences, inside the guard
    for _ in range(150 if quick else 1500):
        n = ctx.rng.randint(3, 12)
        ops = []
        for _ in range(n):
            ops.append(random_op(ctx))
            if ctx.rng.random() < 0.3:
                ops.append(op(ctx.rng.choice([2, 3])))
        cases.append({"pin": ctx.rng.choice([3, 5, 6, 9, 13]), "ops": ops, "family": "random", "stream": "guard"})
    # clamp stream: out-of-range values too (device only: the host would raise)
    for _ in range(80 if quick else 600):
        n = ctx.rng.randint(2, 8)
        ops = [random_op(ctx, bad=True) for _ in range(n)] + [op(2), op(3)]
        cases.append({"pin": ctx.rng.choice([3, 5, 9]), "ops": ops, "family": "clamp", "stream": "clamp"})
    # fixed clamp boundary cases
    for v in BRIGHT_BAD:
        for rt in (False, True):
            cases.append({"pin": 5, "ops": [op(4, Arg(v, rt)), op(3), op(2)], "family": "clamp-fixed", "stream": "clamp"})
    for p in ([-1, 256, 300, 1, 0], [300], [255, 256]):
        cases.append({"pin": 5, "ops": [op(9, Arg(1), pattern=[Arg(e) for e in p]), op(3)], "family": "clamp-fixed", "stream": "clamp"})
    for c in cases:
        if c["stream"] == "guard" and not all(in_range(o) for o in c["ops"]):
            c["stream"] = "clamp"
    return cases


# ---------------------------------------------------------------------------------------------------------------
# traces
# ---------------------------------------------------------------------------------------------------------------

def fw_items(events):
    """raw firmware events of one case -> (wire dev events, getter prints, junk)"""
    dev, gets, junk = [], [], []
    for e in events:
        f = e.split(" ")
        if f[0] == "DW":
            dev.append([1, int(f[1]), int(f[2])])
        elif f[0] == "AW":
            dev.append([2, int(f[1]), int(f[2])])
        elif f[0] == "D":
            dev.append([3, int(f[1])])
        elif f[0] == "S":
            gets.append(e[2:])
        elif f[0] in ("PM", "AR", "M"):
            pass
        else:
            junk.append(e)
    return dev, gets, junk


def host_items(events):
    hev, gets, junk = [], [], []
    for e in events:
        f = e.split(" ")
        if f[0] == "L":
            hev.append([5, int(f[2])])
        elif f[0] == "D":
            hev.append([4, q_of(f[1])])
        elif f[0] == "S":
            gets.append(e[2:])
        elif f[0] == "AR":
            pass
        else:
            junk.append(e)
    return hev, gets, junk


def norm_get(text):
    return {"True": 1, "False": 0}.get(text, None) if text in ("True", "False") else (int(text) if text.lstrip("-").isdigit() else text)


def run_batch(ctx, cases):
    """-> per case dict(fw=[events]|None, host=[events]|None, why); guard and clamp cases go to separate sketches
    (the host is run only on guard sketches: an out-of-range call raises and would end the script)"""
    builders, index, guard_only = [], [], []
    for stream_is_guard in (True, False):
        ids = [n for n, c in enumerate(cases) if (c["stream"] == "guard") == stream_is_guard]
        for i in range(0, len(ids), CASES_PER_SKETCH):
            b = Builder(IMPORTS)
            part = ids[i:i + CASES_PER_SKETCH]
            for n in part:
                emit_case(b, n, cases[n])
            builders.append(b)
            index.append(part)
            guard_only.append(stream_is_guard)
    fwr = run_firmware(builders)
    hr_list = run_host([b for b, g in zip(builders, guard_only) if g])
    hres = iter(hr_list)
    out = [None] * len(cases)
    for part, b, fr, g in zip(index, builders, fwr, guard_only):
        hr = next(hres) if g else None
        for n in part:
            rec = {"fw": None, "host": None, "why": None, "script": None}
            if not fr["ok"]:
                rec["why"] = fr["why"]
                rec["script"] = fr["script"]
            else:
                rec["fw"] = fr["cases"].get(str(n), [])
            if hr is not None:
                rec["host"] = hr["cases"].get(str(n))
                if not hr["ok"]:
                    rec["host_why"] = hr["why"]
            out[n] = rec
    return out, len(builders)


def single_script(case):
    b = Builder(IMPORTS)
    emit_case(b, 0, case)
    return b.script(), b.input()


def case_pub(case):
    s, inp = single_script(case)
    return {"unit": UNIT, "pin": case["pin"], "ops": [op_pub(o) for o in case["ops"]], "script": s, "mock_input": inp,
            "replay": {"pin": case["pin"], "ops": [[o["code"], [[a.v, a.rt] for a in o["args"]],
                                                     None if o["pattern"] is None else [a.v for a in o["pattern"]]] for o in case["ops"]]}}


def case_from_replay(r):
    ops = []
    for code, args, pat in r["ops"]:
        ops.append({"code": code, "args": [Arg(v, rt) for v, rt in args], "pattern": None if pat is None else [Arg(v) for v in pat]})
    return {"pin": r["pin"], "ops": ops, "family": "replay", "stream": "guard"}


def canon_of(ctx, dev=None, hev=None, pin=None):
    if dev is not None:
        r = ctx.model([[1, dev]], unit=UNIT)[0]
    else:
        r = ctx.model([[2, pin, hev]], unit=UNIT)[0]
    return r[1] if r and r[0] == 0 else None


def oracle_one(case, rec, cd, ch):
    """the property's relation on the real traces of one in-guard case -> list of failure dicts"""
    F = []
    dev, fgets, _ = fw_items(rec["fw"])
    hev, hgets, _ = host_items(rec["host"])
    if cd is None or ch is None:
        return F
    if cd[0] != ch[0]:
        k = next((j for j in range(max(len(cd[0]), len(ch[0]))) if j >= len(cd[0]) or j >= len(ch[0]) or cd[0][j] != ch[0][j]), 0)
        F.append({"what": f"LED on pin {case['pin']}: the firmware's level signal differs from the host's at change #{k} "
                          f"(firmware (t_ms, pin, level) {cd[0][k] if k < len(cd[0]) else None}, host {ch[0][k] if k < len(ch[0]) else None})",
                  "expected": ch[0][:k + 3], "observed": cd[0][:k + 3], "key": "led-signal"})
    elif cd[1] != ch[1]:
        F.append({"what": f"LED on pin {case['pin']}: total duration differs (firmware {cd[1]} ms, host {ch[1]} ms with each sleep floored)",
                  "expected": ch[1], "observed": cd[1], "key": "led-duration"})
    if [norm_get(x) for x in fgets] != [norm_get(x) for x in hgets]:
        F.append({"what": f"LED on pin {case['pin']}: state queries print {fgets} on the device, the host returns {hgets}",
                  "expected": hgets, "observed": fgets, "key": "led-getter"})
    return F


def clamp_failures(case, rec):
    dev, _, _ = fw_items(rec["fw"])
    bad = [d for d in dev if d[0] == 2 and not 0 <= d[2] <= 255]
    if bad:
        return [{"what": f"LED on pin {case['pin']}: analogWrite({bad[0][1]}, {bad[0][2]}) reaches the pin unclamped",
                 "expected": "0..255", "observed": bad[0][2], "key": "led-clamp"}]
    return limit_failures(case, rec)


def limit_failures(case, rec):
    """'clamped on the device to the documented limits': a case that starts with one set_brightness(v), v outside 0..255, followed by
    get_brightness - the duty written is the limit itself (255 above, 0 below) and get_brightness() prints it"""
    ops = case["ops"]
    if not ops or ops[0]["code"] != 4 or not ops[0]["args"] or 0 <= ops[0]["args"][0].frac() <= 255:
        return []
    if any(o["code"] not in (2, 3) for o in ops[1:]):
        return []
    v = ops[0]["args"][0].frac()
    lim = 255 if v > 255 else 0
    dev, fgets, _ = fw_items(rec["fw"])
    aws = [d[2] for d in dev if d[0] == 2]
    if not aws or aws[-1] != lim:
        return [{"what": f"LED on pin {case['pin']}: set_brightness({ops[0]['args'][0].v}) is out of range; the device writes duty "
                         f"{aws[-1] if aws else None}, the documented limit is {lim}", "expected": lim, "observed": aws[-1] if aws else None, "key": "led-clamp-limit"}]
    gi = 0
    for o in ops[1:]:
        t = fgets[gi] if gi < len(fgets) else None
        gi += 1
        if o["code"] == 3:
            try:
                ok = float(t) == lim
            except (TypeError, ValueError):
                ok = False
            if not ok:
                return [{"what": f"LED on pin {case['pin']}: after the out-of-range set_brightness({ops[0]['args'][0].v}) get_brightness() prints {t!r}, "
                                 f"the documented limit is {lim}", "expected": lim, "observed": t, "key": "led-clamp-limit-state"}]
    return []


# ---------------------------------------------------------------------------------------------------------------
# known findings
# ---------------------------------------------------------------------------------------------------------------

def load_findings(ctx):
    items = {f["id"]: f for f in ctx.findings if f.get("unit") == UNIT}
    p = C.VERIF / "known_findings.d" / "C04.json"
    if p.exists():
        for f in json.loads(p.read_text()):
            if f.get("unit") == UNIT:
                items.setdefault(f["id"], f)
    return [f for f in items.values() if f.get("kind") != "fixed"]


def finding_reproduces(ctx, f):
    case = case_from_replay(f["witness"]["replay"])
    recs, _ = run_batch(ctx, [case])
    rec = recs[0]
    if rec["fw"] is None or rec["host"] is None or ctx.exes.get(UNIT) is None:
        return False
    dev, _, _ = fw_items(rec["fw"])
    hev, _, _ = host_items(rec["host"])
    cd, ch = canon_of(ctx, dev=dev), canon_of(ctx, hev=hev, pin=case["pin"])
    return bool(oracle_one(case, rec, cd, ch))


# ---------------------------------------------------------------------------------------------------------------
# main
# ---------------------------------------------------------------------------------------------------------------

def run_unit(ctx: C.Ctx):
    cases = gen_cases(ctx)
    recs, n_sketches = run_batch(ctx, cases)
    have_model = ctx.exes.get(UNIT) is not None
    model = ctx.model([[0, c["pin"], [op_wire(o) for o in c["ops"]]] for c in cases], unit=UNIT) if have_model else [None] * len(cases)

    # canonical signals of the real traces through the extracted canonicaliser (batched)
    canon_jobs, canon_where = [], []
    for n, (c, r) in enumerate(zip(cases, recs)):
        if r["fw"] is not None:
            canon_jobs.append([1, fw_items(r["fw"])[0]])
            canon_where.append((n, "d"))
        if r["host"] is not None and c["stream"] == "guard":
            canon_jobs.append([2, c["pin"], host_items(r["host"])[0]])
            canon_where.append((n, "h"))
    canon_out = ctx.model(canon_jobs, unit=UNIT) if (have_model and canon_jobs) else []
    canons = {}
    for (n, side), o in zip(canon_where, canon_out):
        canons[(n, side)] = o[1] if o and o[0] == 0 else None

    stats = {"cases": len(cases), "sketches": n_sketches, "streams": {}, "families": {}, "ops": {}, "arg_kinds": {"literal": 0, "run-time": 0},
             "fw_events": 0, "host_events": 0, "oracle_cases": 0, "clamp_cases": 0, "getter_prints": 0, "level_changes": 0,
             "nontrivial_signals": 0}
    distinct = set()
    seen_fail = set()
    for n, (c, r, m) in enumerate(zip(cases, recs, model)):
        stats["streams"][c["stream"]] = stats["streams"].get(c["stream"], 0) + 1
        stats["families"][c["family"]] = stats["families"].get(c["family"], 0) + 1
        for o in c["ops"]:
            stats["ops"][NAMES[o["code"]]] = stats["ops"].get(NAMES[o["code"]], 0) + 1
            for a in o["args"]:
                stats["arg_kinds"]["run-time" if a.rt else "literal"] += 1
        if r["fw"] is None:
            ctx.disagree("generated LED script was not transpiled/compiled/run: " + str(r["why"]), {"script": (r.get("script") or "")[:3000]}, None, r["why"])
            continue
        dev, fgets, junk = fw_items(r["fw"])
        stats["fw_events"] += len(dev)
        stats["getter_prints"] += len(fgets)
        if junk:
            ctx.disagree("unexpected firmware events in an LED case", case_pub(c), None, junk[:5])
        # ---- correspondence: device model vs real firmware
        if m is not None:
            if not m or m[0] != 0:
                ctx.disagree("model rejected the case", case_pub(c), m, None)
                continue
            mdev, mhev, mdg, mhg, mhok, mcd, mch, mir = m[1:9]
            if [list(x) for x in mdev] != dev:
                k = next((j for j in range(max(len(mdev), len(dev))) if j >= len(mdev) or j >= len(dev) or list(mdev[j]) != dev[j]), 0)
                ctx.disagree(f"device model vs firmware: event #{k} differs (1 digitalWrite, 2 analogWrite, 3 delay)", case_pub(c),
                             [list(x) for x in mdev[max(0, k - 2):k + 3]], dev[max(0, k - 2):k + 3])
            mg = [g[0] for g in mdg if g]
            if mg != [norm_get(x) for x in fgets]:
                ctx.disagree("device model vs firmware: getter values", case_pub(c), mg, fgets)
            if [bool(x) for x in mir] != [in_range(o) for o in c["ops"]]:
                ctx.disagree("guard: the model's in_range and the generator's disagree", case_pub(c), mir, [in_range(o) for o in c["ops"]])
            # the extracted canon on the real trace must be what the model computes from its own trace (sanity of the tie)
            cd = canons.get((n, "d"))
            if cd is not None and [list(map(list, mcd[0])), mcd[1]] != [list(map(list, cd[0])), cd[1]] and [list(x) for x in mdev] == dev:
                ctx.disagree("canon(model device trace) != canon(real trace) although the traces are equal", case_pub(c), mcd, cd)
        # ---- clamp clause on the real trace (every case)
        stats["clamp_cases"] += 1
        for f in clamp_failures(c, r):
            ctx.fail(f["what"], case_pub(c), f["expected"], f["observed"], key=f["key"])
        # ---- host side
        if c["stream"] != "guard":
            continue
        if r["host"] is None or r.get("host_why"):
            ctx.fail(f"the host class raised on an in-range LED command sequence: {r.get('host_why')}", case_pub(c), "no exception",
                     r.get("host_why"), key="led-host-raised")
            continue
        hev, hgets, hjunk = host_items(r["host"])
        stats["host_events"] += len(hev)
        if m is not None and m and m[0] == 0:
            mhev = m[2]
            want = [[5, x[1]] if x[0] == 5 else [4, Fraction(x[1][0], x[1][1])] for x in mhev]
            if want != hev:
                ctx.disagree("host model vs real Led class: events (4 sleep, 5 level)", case_pub(c), want[:12], hev[:12])
            mhg = [g[0] for g in m[4] if g]
            if mhg != [norm_get(x) for x in hgets]:
                ctx.disagree("host model vs real Led class: getter values", case_pub(c), mhg, hgets)
            if not m[5]:
                ctx.disagree("host model raises inside the guard", case_pub(c), m[5], None)
        # ---- property oracle on the real artefacts
        cd, ch = canons.get((n, "d")), canons.get((n, "h"))
        stats["oracle_cases"] += 1
        if cd is not None:
            stats["level_changes"] += len(cd[0])
            if len(cd[0]) >= 2:
                stats["nontrivial_signals"] += 1
                distinct.add(json.dumps([cd, fgets]))
        for f in oracle_one(c, r, cd, ch):
            if f["key"] in seen_fail:
                ctx.fail(f["what"], {"unit": UNIT, "note": "see the first failure of this class"}, f["expected"], f["observed"], key=f["key"])
            else:
                seen_fail.add(f["key"])
                ctx.fail(f["what"], case_pub(c), f["expected"], f["observed"], key=f["key"])

    replayed = []
    for f in load_findings(ctx):
        try:
            if finding_reproduces(ctx, f):
                ctx.known(f"{f['id']}: {f['what']}")
                replayed.append(f["id"])
        except Exception as e:  # noqa
            ctx.notes.append(f"replay of {f['id']} failed to run: {e}")

    samples = []
    for c in cases[:1] + cases[-1:]:
        samples.append(case_pub(c))
    return {
        "evaluations": stats["oracle_cases"] + stats["clamp_cases"],
        "distinct_nontrivial": len(distinct),
        "rule": "LED cases = command sequences on a fresh Led(pin): exhaustive ordered pairs over a boundary alphabet of in-range commands "
                "(each followed by both getters), seeded random sequences of 3-12 commands with interleaved getters (inside the guard), and a clamp "
                "stream with out-of-range brightness / times / step / pattern values (firmware + device model only). Every numeric argument is "
                "independently a literal or a run-time value (analog_read input +- arithmetic). 40 cases per sketch. evaluations = in-guard cases "
                "checked by the signal oracle + cases checked by the clamp oracle; distinct non-trivial = distinct canonical signals with >= 2 level "
                "changes (together with the getter prints).",
        "samples": samples,
        "distribution": stats,
        "guard": "set_brightness 0..255; blink duration >= 0, times a positive int; fade step > 0 and whole (a fractional step is outside the documented int domain: theorem C04_led_fractional_step_refuted shows the guard is needed; not a finding), "
                 "delay >= 0; flash_pattern delay >= 0, entries 0..255 and not strictly between 1 and 2 (such entries are outside the documented Sequence[int] domain: C04_led_pattern_entry_refuted; not a finding); "
                 "values below 2^15 (C int)",
        "unmodelled": ["C int overflow (arguments >= 2^15 on AVR)", "negative delays (wrap to huge unsigned values on the device; the host raises)",
                       "a pattern that is not a literal list (the parser rejects it)", "Led objects created inside loops / functions"],
        "known_replayed": replayed,
        "trusted_base": ["mock/Arduino.h + mock/mock_core.cpp (digitalWrite/analogWrite/delay events), g++ -O0",
                         "harness/fw.py, harness/impl/transpile_impl.py (real parse+emit), harness/impl/c04_impl.py (real host classes under CPython, "
                         "set_brightness / sleep wrapped in the harness process)",
                         "harness/props/c04_util.py (script builder: run-time values through scripted analogRead), harness/props/c04_led.py",
                         "coq/Wire/C04_ledW.v (codecs); the canonicaliser applied to the real traces is the extracted Device/Signal.v canon"],
        "assumptions": ["the mock core is the definition of 'device' (DESIGN.md section 3)",
                        "host level sequence = completed set_brightness calls, host delays = calls of the package-level sleep (DESIGN.md A.2)",
                        "a channel starts at level 0; C int does not overflow"],
    }


def replay_unit(data):
    case = (data.get("case") or {})
    r = case.get("replay")
    if not r:
        print("replay: no LED case in this file (correspondence / proof failure: see the fields above)")
        return 0
    ctx = C.Ctx("C04", "quick", 0)
    try:
        ctx.exes[UNIT] = C.build_model(UNIT)
    except Exception as e:  # noqa
        print("replay: model unavailable:", e)
        return 1
    c = case_from_replay(r)
    recs, _ = run_batch(ctx, [c])
    rec = recs[0]
    if rec["fw"] is None:
        print("replay:", rec["why"])
        return 1
    F = clamp_failures(c, rec)
    if rec["host"] is not None and not rec.get("host_why"):
        dev, _, _ = fw_items(rec["fw"])
        hev, _, _ = host_items(rec["host"])
        F += oracle_one(c, rec, canon_of(ctx, dev=dev), canon_of(ctx, hev=hev, pin=c["pin"]))
    elif rec.get("host_why"):
        print("host:", rec["host_why"])
    for f in F:
        print(f"REPRODUCED [{f['key']}] {f['what']}")
    if not F:
        print("replay: the property holds on this case now")
    return 1 if F else 0
