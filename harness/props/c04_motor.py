"""C04, unit C04_motor: DC motor commands - generated firmware vs host class.
Correspondence: device model (coq/Device/DMotor.v, exact rationals) vs the real firmware, event by event (direction pins and
delays exactly, PWM duty within one count: the firmware computes in float32).  Oracle: every completed host drive change
(_apply_speed / stop / coast on the real DCMotor) against the firmware's (digitalWrite in1, digitalWrite in2, analogWrite enable)
triple: direction pins from the sign of the applied speed, |duty - 255*|applied|| <= 1, each host sleep q against a device
delay d with 0 <= q - d < 1, getters equal (floats to 0.006: the device prints 2 decimals)."""
from __future__ import annotations

import json
from fractions import Fraction

from harness import common as C
from harness.props.c04_util import Arg, Builder, CASES_PER_SKETCH, run_firmware, run_host, q_of
from harness.props.c04_led import fw_items

UNIT = "C04_motor"
IMPORTS = ["from Reduino.Actuators import DCMotor", "from Reduino.Communication import SerialMonitor",
           "from Reduino.Core import analog_read"]
META_PART = ("C04_motor: device model of set_speed/backward/stop/coast/invert/ramp (20 steps)/run_for with the PWM rounding "
             "static_cast<int>(|x|*255+0.5f), direction pins and mode decided by the applied speed being non-zero (not by the PWM count), and "
             "truncating delays; clamp clause proved for all values and histories; device = host proved for ALL commands and histories with speeds of "
             "ANY value (outside -1..1 both sides clamp; ramp clamps its target BEFORE interpolating) and durations >= 0 (C04_motor_partial: firmware events = host level signal event by event with duty = nearest "
             "PWM count, proved within 1/2 count of 255*|applied|; sleeps truncated, proved < 1 ms; getters equal; no host call raises). The former "
             "refutation (0 < |speed| < 1/510: host mode drive, device coast with all pins LOW) is repaired in Reduino and replaced by "
             "C04_motor_mode_follows_applied_speed and the unguarded simulation; its witness is replayed first on every run.")

NAMES = {0: "set_speed", 1: "backward", 2: "stop", 3: "coast", 4: "invert", 5: "ramp", 6: "run_for", 7: "get_speed",
         8: "get_applied_speed", 9: "is_inverted", 10: "get_mode"}
MODES = {0: "coast", 1: "drive", 2: "brake"}


def op(code, *args):
    return {"code": code, "args": list(args)}


def op_wire(o):
    return [o["code"]] + [a.wire() for a in o["args"]]


def op_pub(o):
    return {"op": NAMES[o["code"]], "args": [a.pub() for a in o["args"]]}


def emit_case(b: Builder, cid, case):
    b.case(cid)
    name = f"d{cid}"
    p = case["pins"]
    b.add(f"{name} = DCMotor({p[0]}, {p[1]}, {p[2]})")
    for o in case["ops"]:
        if o["code"] >= 7:
            b.add(f"mon.write({name}.{NAMES[o['code']]}())")
        else:
            ex = [b.expr(a) for a in o["args"]]
            b.add(f"{name}.{NAMES[o['code']]}({', '.join(ex)})")


# 1/1024, -1/1024, 1/512, 0.001: 0 < |x| < 1/510, PWM count 0 although the motor drives (the region the former finding
# F-C04-motor-tiny-speed-mode excluded); 1/256: count 1
SPEEDS = [0, 1, -1, 0.5, -0.5, 0.25, 0.75, -0.75, 0.125, 1 / 256, -1 / 256, 1 / 64, 1.0, True, 1 / 1024, -1 / 1024, 1 / 512, 0.001]
SPEEDS_OUT = [2, -2, 1.5, -1.25, 300, -300, 1.0009765625]
DURS = [0, 1, 19, 20, 21, 50, 100, 2.5, 10.5]
DURS_BAD = [-1, -2.5, -20]          # the host raises ValueError, the device clamps to 0: device-only stream
# ramp towards a target outside -1..1: the host clamps the TARGET first and then interpolates its 20 steps; compared step by step
RAMP_STARTS = [0, 0.25, 1, -1, -0.5, 0.75]
RAMP_TARGETS_OUT = [2.0, -3.0, 1.5, -1.25, 2, -2, 300, 1.0009765625]


def mk(ctx, v):
    return Arg(v, rt=ctx.rng.random() < 0.5)


def random_op(ctx, out=False):
    r = ctx.rng
    sp = lambda: mk(ctx, r.choice(SPEEDS_OUT if out and r.random() < 0.5 else SPEEDS))
    k = r.choice([0, 0, 0, 1, 1, 2, 3, 4, 4, 5, 5, 6, 6, 7, 8, 9, 10])
    if k == 0:
        return op(0, sp())
    if k == 1:
        return op(1, sp()) if r.random() < 0.7 else op(1)
    du = lambda: mk(ctx, r.choice(DURS_BAD if out and r.random() < 0.12 else DURS))
    if k == 5:
        return op(5, sp(), du())
    if k == 6:
        return op(6, du(), sp())
    return op(k)


def gen_cases(ctx):
    quick = ctx.tier == "quick"
    cases = []
    pins = lambda: ctx.rng.choice([(4, 5, 6), (7, 8, 9), (2, 3, 11)])
    getters = [op(7), op(8), op(9), op(10)]
    base = [op(0, Arg(v)) for v in SPEEDS] + [op(1), op(1, Arg(0.25)), op(2), op(3), op(4), op(5, Arg(1), Arg(100)), op(5, Arg(-0.5), Arg(0)),
                                               op(5, Arg(0.5), Arg(10.5)), op(6, Arg(50), Arg(0.375)), op(6, Arg(0), Arg(-1)), op(6, Arg(2.5), Arg(0.5))]
    for a in base:
        for b2 in (base if not quick else base[::2]):
            cases.append({"pins": pins(), "ops": [a, b2] + getters, "family": "pairs"})
    for inv in ([op(4)], []):
        for v in SPEEDS:
            cases.append({"pins": pins(), "ops": inv + [op(0, mk(ctx, v))] + getters + [op(4)] + getters, "family": "speed-grid"})
    # out-of-range speeds are INSIDE the guard (the host clamps them; the device must do the same at the same point of the computation)
    n = 0
    for inv in ([], [op(4)]):
        for st in RAMP_STARTS:
            for tg in RAMP_TARGETS_OUT:
                for rt in ((n % 2 == 0,) if quick else (False, True)):
                    n += 1
                    if quick and inv and n % 3:
                        continue
                    pre = inv + ([op(0, Arg(st, rt and n % 4 == 0))] if st != 0 else [])
                    cases.append({"pins": pins(), "ops": pre + [op(5, Arg(tg, rt), Arg(ctx.rng.choice([0, 20, 100, 10.5]), rt and n % 3 == 0))] + getters,
                                  "family": "ramp-target-out-of-range"})
    for v in SPEEDS_OUT:
        for rt in (False, True):
            for o in (op(0, Arg(v, rt)), op(1, Arg(v, rt)), op(6, Arg(20), Arg(v, rt))):
                cases.append({"pins": pins(), "ops": [o] + getters + [op(4)] + getters + [op(5, Arg(-v, rt), Arg(40))] + getters,
                              "family": "speed-out-of-range"})
    for _ in range(120 if quick else 1200):
        cases.append({"pins": pins(), "ops": [random_op(ctx) for _ in range(ctx.rng.randint(2, 9))] + getters, "family": "random"})
    for _ in range(60 if quick else 500):
        cases.append({"pins": pins(), "ops": [random_op(ctx, out=True) for _ in range(ctx.rng.randint(2, 6))] + getters, "family": "clamp"})
    return cases


def strip_decl(events):
    """the DCMotor declaration itself configures the pins and writes LOW, LOW, duty 0 (emitter DCMotorDecl): that is the
    power-on state, not a command; it is checked to be exactly that and removed"""
    ev = list(events)
    k = 0
    while k < len(ev) and ev[k].startswith("PM "):
        k += 1
    if k in (0, 3) and len(ev) >= k + 3 and [e.split(" ")[0] for e in ev[k:k + 3]] == ["DW", "DW", "AW"] \
            and all(e.split(" ")[2] == "0" for e in ev[k:k + 3]):
        return ev[k + 3:], True
    return ev, False


def host_items(events):
    """-> list of ('lvl', applied Fraction, mode) | ('sleep', q) | ('get', text)"""
    out = []
    for e in events:
        f = e.split(" ")
        if f[0] == "M":
            out.append(("lvl", q_of(f[3]), f[4]))
        elif f[0] == "D":
            out.append(("sleep", q_of(f[1])))
        elif f[0] == "S":
            out.append(("get", e[2:]))
    return out


def fw_seq(events):
    """firmware events of a case in order: ('lvl', in1, in2, pwm, pins) | ('delay', ms) | ('get', text) | ('junk', e)"""
    out, i = [], 0
    ev = [e for e in events if e.split(" ")[0] not in ("PM", "AR", "M")]
    while i < len(ev):
        f = ev[i].split(" ")
        if f[0] == "DW" and i + 2 < len(ev) and ev[i + 1].startswith("DW ") and ev[i + 2].startswith("AW "):
            g, h = ev[i + 1].split(" "), ev[i + 2].split(" ")
            out.append(("lvl", int(f[2]), int(g[2]), int(h[2]), (int(f[1]), int(g[1]), int(h[1]))))
            i += 3
            continue
        if f[0] == "D":
            out.append(("delay", int(f[1])))
        elif f[0] == "S":
            out.append(("get", ev[i][2:]))
        else:
            out.append(("junk", ev[i]))
        i += 1
    return out


def get_equal(dev_text, host_text):
    if host_text in ("True", "False"):
        return dev_text == ("1" if host_text == "True" else "0")
    try:
        return abs(float(dev_text) - float(host_text)) <= 0.006
    except ValueError:
        return dev_text == host_text


def oracle_one(case, fseq, hseq):
    """the statement of C04 for the motor on the real traces"""
    F = []
    pins = tuple(case["pins"])
    if len(fseq) != len(hseq):
        kinds = ([x[0] for x in fseq], [x[0] for x in hseq])
    for k in range(max(len(fseq), len(hseq))):
        a = fseq[k] if k < len(fseq) else None
        h = hseq[k] if k < len(hseq) else None
        if a is None or h is None or {"lvl": "lvl", "delay": "sleep", "get": "get"}.get(a[0]) != h[0]:
            F.append({"what": f"DC motor on pins {list(pins)}: event #{k} of the firmware is {a}, of the host {h}", "expected": str(h), "observed": str(a),
                      "key": "motor-shape"})
            break
        if a[0] == "lvl":
            ap, md = h[1], h[2]
            if a[4] != pins:
                F.append({"what": f"DC motor: writes go to pins {a[4]}, declared {pins}", "expected": pins, "observed": a[4], "key": "motor-pins"})
                break
            want = (1, 1) if md == "brake" else ((0, 0) if ap == 0 else ((1, 0) if ap > 0 else (0, 1)))
            if (a[1], a[2]) != want:
                F.append({"what": f"DC motor: direction pins (in1, in2) = {(a[1], a[2])} on the device; the host has applied speed {float(ap)} mode {md}, i.e. {want}",
                          "expected": want, "observed": (a[1], a[2]), "key": "motor-direction"})
                break
            duty = 0 if md == "brake" else 255 * abs(ap)
            if abs(a[3] - duty) > 1:
                F.append({"what": f"DC motor: PWM duty {a[3]} on the device; the host's applied speed {float(ap)} is duty {float(duty)} (more than one count apart)",
                          "expected": float(duty), "observed": a[3], "key": "motor-duty"})
                break
        elif a[0] == "delay":
            if not (0 <= h[1] - a[1] < 1):
                F.append({"what": f"DC motor: device delay {a[1]} ms where the host sleeps {float(h[1])} ms", "expected": float(h[1]), "observed": a[1], "key": "motor-delay"})
                break
        elif not get_equal(a[1], h[1]):
            F.append({"what": f"DC motor: a state query prints {a[1]!r} on the device, the host returns {h[1]!r}", "expected": h[1], "observed": a[1], "key": "motor-getter"})
            break
    return F


def run_batch(ctx, cases):
    builders, index, guard_only = [], [], []
    for g in (True, False):
        ids = [n for n, c in enumerate(cases) if (c["stream"] == "guard") == g]
        for i in range(0, len(ids), CASES_PER_SKETCH):
            b = Builder(IMPORTS)
            part = ids[i:i + CASES_PER_SKETCH]
            for n in part:
                emit_case(b, n, cases[n])
            builders.append(b)
            index.append(part)
            guard_only.append(g)
    fwr = run_firmware(builders)
    hres = iter(run_host([b for b, g in zip(builders, guard_only) if g]))
    out = [None] * len(cases)
    for part, b, fr, g in zip(index, builders, fwr, guard_only):
        hr = next(hres) if g else None
        for n in part:
            rec = {"fw": None, "host": None, "why": None, "script": None}
            if not fr["ok"]:
                rec["why"], rec["script"] = fr["why"], fr["script"]
            else:
                rec["fw"], rec["decl_ok"] = strip_decl(fr["cases"].get(str(n), []))
            if hr is not None:
                rec["host"] = hr["cases"].get(str(n))
                if not hr["ok"]:
                    rec["host_why"] = hr["why"]
            out[n] = rec
    return out, len(builders)


def case_pub(case):
    b = Builder(IMPORTS)
    emit_case(b, 0, case)
    return {"unit": UNIT, "pins": list(case["pins"]), "ops": [op_pub(o) for o in case["ops"]], "script": b.script(), "mock_input": b.input(),
            "replay": {"pins": list(case["pins"]), "ops": [[o["code"], [[a.v, a.rt] for a in o["args"]]] for o in case["ops"]]}}


def case_from_replay(r):
    return {"pins": tuple(r["pins"]), "ops": [{"code": code, "args": [Arg(v, rt) for v, rt in args]} for code, args in r["ops"]],
            "family": "replay", "stream": "guard"}


def unit_findings(ctx):
    items = {f["id"]: f for f in ctx.findings if f.get("unit") == UNIT}
    p = C.VERIF / "known_findings.d" / "C04.json"          # the source of known_findings.json: its entries win
    if p.exists():
        for f in json.loads(p.read_text()):
            if f.get("unit") == UNIT:
                items[f["id"]] = f
    return list(items.values())


def load_findings(ctx):
    return [f for f in unit_findings(ctx) if f.get("kind") != "fixed"]


def witness_failures(ctx, f):
    case = case_from_replay(f["witness"]["replay"])
    recs, _ = run_batch(ctx, [case])
    rec = recs[0]
    if rec["fw"] is None:
        return case, [{"what": f"the witness script is not transpiled/compiled/run: {rec['why']}", "expected": "firmware", "observed": rec["why"], "key": "motor-witness"}]
    if rec["host"] is None or rec.get("host_why"):
        return case, [{"what": f"the host class raised on the witness: {rec.get('host_why')}", "expected": "no exception", "observed": rec.get("host_why"),
                       "key": "motor-witness"}]
    return case, oracle_one(case, fw_seq(rec["fw"]), host_items(rec["host"]))


def finding_reproduces(ctx, f):
    return bool(witness_failures(ctx, f)[1])


def replay_fixed(ctx):
    """repaired defects (kind "fixed") suppress nothing: their witnesses are replayed FIRST, and one that fails again is a VIOLATION
    whose replay is the witness"""
    n = 0
    for f in unit_findings(ctx):
        if f.get("kind") != "fixed":
            continue
        n += 1
        case, F = witness_failures(ctx, f)
        if F:
            pub = case_pub(case)
            pub["finding"] = f["id"]
            pub["witness"] = f["witness"]
            ctx.fail(f"repaired defect {f['id']} is back: {F[0]['what']}", pub, F[0]["expected"], F[0]["observed"], key="fixed-defect-returned:" + f["id"])
    return n


def run_unit(ctx: C.Ctx):
    cases = gen_cases(ctx)
    have_model = ctx.exes.get(UNIT) is not None
    model = ctx.model([[0, list(c["pins"]), [op_wire(o) for o in c["ops"]]] for c in cases], unit=UNIT) if have_model else [None] * len(cases)
    # the guard is the model's (it depends on the speeds the host applies); without a model nothing is sent to the oracle
    for c, m in zip(cases, model):
        c["stream"] = "guard" if (m is not None and m and m[0] == 0 and all(m[7])) else "clamp"
    recs, n_sketches = run_batch(ctx, cases)
    stats = {"cases": len(cases), "sketches": n_sketches, "streams": {}, "families": {}, "ops": {}, "arg_kinds": {"literal": 0, "run-time": 0},
             "fw_events": 0, "oracle_cases": 0, "clamp_cases": 0, "duty_off_by_one_vs_model": 0, "drive_changes": 0, "getter_prints": 0,
             "oracle_cases_with_out_of_range_speed": 0, "oracle_ramps_with_out_of_range_target": 0,
             "drive_changes_with_pwm_0_while_driving_in_guard": 0,
             "fixed_witnesses_replayed_first": getattr(ctx, "c04_fixed_replayed", {}).get(UNIT)}
    if stats["fixed_witnesses_replayed_first"] is None:
        stats["fixed_witnesses_replayed_first"] = replay_fixed(ctx)
    distinct, seen_fail = set(), set()
    for n, (c, r, m) in enumerate(zip(cases, recs, model)):
        stats["streams"][c["stream"]] = stats["streams"].get(c["stream"], 0) + 1
        stats["families"][c["family"]] = stats["families"].get(c["family"], 0) + 1
        for o in c["ops"]:
            stats["ops"][NAMES[o["code"]]] = stats["ops"].get(NAMES[o["code"]], 0) + 1
            for a in o["args"]:
                stats["arg_kinds"]["run-time" if a.rt else "literal"] += 1
        if r["fw"] is None:
            ctx.disagree("generated motor script was not transpiled/compiled/run: " + str(r["why"]), {"script": (r.get("script") or "")[:3000]}, None, r["why"])
            continue
        dev, fgets, junk = fw_items(r["fw"])
        if not r.get("decl_ok"):
            ctx.disagree("the DCMotor declaration did not write LOW, LOW, duty 0", case_pub(c), None, r["fw"][:8])
        stats["fw_events"] += len(dev)
        stats["getter_prints"] += len(fgets)
        if junk:
            ctx.disagree("unexpected firmware events in a motor case", case_pub(c), None, junk[:5])
        if m is not None and m and m[0] == 0:
            mdev = [list(x) for x in m[1]]
            bad = None
            if len(mdev) != len(dev):
                bad = min(len(mdev), len(dev))
            else:
                for k, (x, y) in enumerate(zip(mdev, dev)):
                    if x == y:
                        continue
                    if x[0] == 2 and y[0] == 2 and x[1] == y[1] and abs(x[2] - y[2]) <= 1 and min(x[2], y[2]) >= 1:
                        stats["duty_off_by_one_vs_model"] += 1      # float32 vs exact rational at a rounding boundary
                        continue
                    bad = k
                    break
            if bad is not None:
                ctx.disagree(f"device model vs firmware: event #{bad} differs (1 digitalWrite, 2 analogWrite, 3 delay)", case_pub(c),
                             mdev[max(0, bad - 3):bad + 3], dev[max(0, bad - 3):bad + 3])
            # getters: model vs firmware prints
            mg = [g for g in m[2] if g]
            if len(mg) != len(fgets):
                ctx.disagree("device model vs firmware: number of getter prints", case_pub(c), mg, fgets)
            else:
                for g, t in zip(mg, fgets):
                    if g[0] == 1:
                        ok = abs(float(Fraction(g[1][0], g[1][1])) - float(t)) <= 0.006
                    elif g[0] == 2:
                        ok = str(g[1]) == t
                    else:
                        ok = MODES[g[1]] == t
                    if not ok:
                        ctx.disagree("device model vs firmware: getter value", case_pub(c), g, t)
                        break
        elif m is not None:
            ctx.disagree("model rejected the case", case_pub(c), m, None)
        stats["clamp_cases"] += 1
        badaw = [d for d in dev if d[0] == 2 and not 0 <= d[2] <= 255]
        if badaw:
            ctx.fail(f"DC motor: analogWrite({badaw[0][1]}, {badaw[0][2]}) reaches the pin unclamped", case_pub(c), "0..255", badaw[0][2], key="motor-clamp")
        if c["stream"] != "guard":
            continue
        if r["host"] is None or r.get("host_why"):
            ctx.fail(f"the host class raised on an in-range motor command sequence: {r.get('host_why')}", case_pub(c), "no exception", r.get("host_why"),
                     key="motor-host-raised")
            continue
        fseq, hseq = fw_seq(r["fw"]), host_items(r["host"])
        stats["oracle_cases"] += 1
        oor = lambda a: abs(a.frac()) > 1
        if any(oor(o["args"][{0: 0, 1: 0, 5: 0, 6: 1}[o["code"]]]) for o in c["ops"] if o["code"] in (0, 1, 5, 6) and o["args"]):
            stats["oracle_cases_with_out_of_range_speed"] += 1
        stats["oracle_ramps_with_out_of_range_target"] += sum(1 for o in c["ops"] if o["code"] == 5 and oor(o["args"][0]))
        stats["drive_changes"] += sum(1 for x in fseq if x[0] == "lvl")
        stats["drive_changes_with_pwm_0_while_driving_in_guard"] += sum(1 for x in hseq if x[0] == "lvl" and x[2] == "drive" and 0 < 255 * abs(x[1]) < Fraction(1, 2))
        if sum(1 for x in fseq if x[0] == "lvl") >= 2:
            distinct.add(json.dumps([x[:4] for x in fseq]))
        # host model vs real host: getter values and drive changes (through the model's canon of the host side is not needed: compare getters)
        for f in oracle_one(c, fseq, hseq):
            first = f["key"] not in seen_fail
            seen_fail.add(f["key"])
            ctx.fail(f["what"], case_pub(c) if first else {"unit": UNIT, "note": "see the first failure of this class"}, f["expected"], f["observed"], key=f["key"])
    replayed = []
    for f in load_findings(ctx):
        try:
            if finding_reproduces(ctx, f):
                ctx.known(f"{f['id']}: {f['what']}")
                replayed.append(f["id"])
        except Exception as e:  # noqa
            ctx.notes.append(f"replay of {f['id']} failed to run: {e}")
    return {
        "evaluations": stats["oracle_cases"] + stats["clamp_cases"],
        "distinct_nontrivial": len(distinct),
        "rule": "motor cases = command sequences on a fresh DCMotor followed by the four getters: ordered pairs over a boundary alphabet (speeds that are "
                "dyadic rationals so that float32 and the exact model agree, durations 0/1/19/20/21/50/100/2.5/10.5), a speed grid with and without "
                "invert (including speeds 1/1024, -1/1024, 1/512, 0.001 whose PWM count is 0 while the motor drives), seeded random sequences of 2-9 "
                "commands, a grid of ramps towards targets OUTSIDE -1..1 (2.0, -3.0, 1.5, -1.25, 2, -2, 300, 1+2^-10; literal and run-time) from six "
                "start speeds with and without invert, set_speed / backward / run_for with out-of-range speeds followed by invert and a ramp, and a "
                "random stream mixing in-range and out-of-range speeds (all of these INSIDE the guard: the 20 intermediate steps of every ramp are "
                "compared with the host's, which clamps the target before interpolating) and negative durations (device only: the host raises). "
                "A case is inside the guard iff the MODEL's motor_in_range holds for every command (speeds any number, durations >= 0). The witness of "
                "the repaired finding is replayed before anything else. evaluations = in-guard cases through the oracle + cases through the clamp oracle.",
        "samples": [case_pub(c) for c in cases[:1] + cases[-1:]],
        "distribution": stats,
        "guard": "speeds of any value (outside -1..1 the host clamps - for ramp before interpolating - and the device must produce the host's sequence) and "
                 "durations >= 0 (negative durations: the host raises, the device clamps to 0; device-only stream). No listed "
                 "finding is excluded: F-C04-motor-tiny-speed-mode is repaired (kind fixed); speeds with 0 < |x| < 1/510 are generated and compared",
        "unmodelled": ["float32 arithmetic of the device (exact rationals; PWM duty compared within one count, which the statement allows)",
                       "numeric strings accepted by the host's float()", "negative durations (the host raises; the device clamps to 0)",
                       ],
        "known_replayed": replayed,
        "trusted_base": ["harness/props/c04_motor.py (grouping of the (DW in1, DW in2, AW enable) triple; tolerances)", "coq/Wire/C04_motorW.v (codecs)",
                         "harness/impl/c04_impl.py wraps DCMotor._apply_speed / stop / coast (completed drive changes)"],
        "assumptions": ["host drive level = (sign of the applied speed, 255*|applied speed|, mode) after each completed _apply_speed / stop / coast"],
    }


def replay_unit(data):
    r = (data.get("case") or {}).get("replay")
    if not r:
        print("replay: no motor case in this file")
        return 0
    ctx = C.Ctx("C04", "quick", 0)
    c = case_from_replay(r)
    recs, _ = run_batch(ctx, [c])
    rec = recs[0]
    if rec["fw"] is None:
        print("replay:", rec["why"])
        return 1
    F = []
    if rec["host"] is not None and not rec.get("host_why"):
        F = oracle_one(c, fw_seq(rec["fw"]), host_items(rec["host"]))
    elif rec.get("host_why"):
        print("host:", rec["host_why"])
    for f in F:
        print(f"REPRODUCED [{f['key']}] {f['what']}")
    if not F:
        print("replay: the property holds on this case now")
    return 1 if F else 0
