"""C04, unit C04_rgb: RGB LED commands - generated firmware = host class (same engines as c04_led.py)."""
from __future__ import annotations

import itertools
import json
from fractions import Fraction

from harness import common as C
from harness.props.c04_util import Arg, Builder, CASES_PER_SKETCH, run_firmware, run_host, q_of
from harness.props.c04_led import fw_items

UNIT = "C04_rgb"
IMPORTS = ["from Reduino.Actuators import RGBLed", "from Reduino.Communication import SerialMonitor",
           "from Reduino.Core import analog_read"]

META_PART = ("C04_rgb: device model of set_color/on/off/fade/blink (integer fade arithmetic: quotient and remainder, nearest integer with a half "
             "going to the even neighbour - the host's int(round(x)); delay (unsigned long)(x+0.5f), "
             "skipped zero delays); clamp clause proved for all values and histories (also the interpolated fade values); device = host proved for "
             "ALL histories of set_color/on/off/fade/blink with in-range arguments (C04_rgb: int components 0..255, whole duration >= 0, positive "
             "int steps/times, delay >= 0 - fade steps landing exactly on .5 included since the repair of F-C04-rgb-fade-half-rounding, kind fixed): "
             "same canonical per-pin level signal with whole-millisecond time stamps, no host call raises; the former witness "
             "fade(1,0,0,100,steps=2) from black is replayed first on every run.")

# wire op codes (C19_ledW): 3 set_color, 4 on, 5 off, 6 fade, 7 blink
NAMES = {3: "set_color", 4: "on", 5: "off", 6: "fade", 7: "blink"}


def op(code, *args):
    return {"code": code, "args": list(args)}


def op_wire(o):
    return [o["code"]] + [a.wire() for a in o["args"]]


def op_pub(o):
    return {"op": NAMES[o["code"]], "args": [a.pub() for a in o["args"]]}


def emit_case(b: Builder, cid, case):
    b.case(cid)
    name = f"d{cid}"
    p = case["pins"]
    b.add(f"{name} = RGBLed({p[0]}, {p[1]}, {p[2]})")
    for o in case["ops"]:
        ex = [b.expr(a) for a in o["args"]]
        b.add(f"{name}.{NAMES[o['code']]}({', '.join(ex)})")


def is_int(v):
    return isinstance(v, (bool, int))


def comp_ok(v):
    return is_int(v) and 0 <= v <= 255


def tie_free(n, s, t):
    """no step of a fade from s to t in n steps lands exactly on a half (statistics only: ties are inside the guard)"""
    return all((2 * (t - s) * i) % (2 * n) != n for i in range(1, n + 1))


def py_round(q: Fraction) -> int:
    return round(q)


def sim_host(cur, o):
    """colour after an in-range command (fade / set / on -> target; blink / off as the host does)"""
    c, a = o["code"], [int(x.v) for x in o["args"]]
    if c in (3, 4):
        a = a + [255] * (3 - len(a))
        return tuple(a[:3])
    if c == 5:
        return (0, 0, 0)
    if c == 6:
        return tuple(a[:3])
    return cur


def in_range(cur, o) -> bool:
    c, a = o["code"], [x.v for x in o["args"]]
    if c in (3, 4):
        return all(comp_ok(v) for v in a)
    if c == 5:
        return True
    if c == 6:
        d = a[3] if len(a) > 3 else 1000
        n = a[4] if len(a) > 4 else 50
        # (a fade step landing exactly on .5 is in range: F-C04-rgb-fade-half-rounding is repaired)
        return all(comp_ok(v) for v in a[:3]) and d >= 0 and float(d) == int(d) and is_int(n) and n > 0
    if c == 7:
        t = a[3] if len(a) > 3 else 1
        d = a[4] if len(a) > 4 else 200
        return all(comp_ok(v) for v in a[:3]) and is_int(t) and t > 0 and d >= 0
    return False


COMP_OK = [0, 1, 2, 127, 128, 254, 255, True]
COMP_BAD = [-1, 256, 300, -300, 700, 1.5, 255.5]
DUR = [0, 1, 7, 100, 250, 1000, 33]
STEPS = [1, 2, 3, 4, 5, 7, 10, 50]
TIMES = [1, 2, 3, True]
DELAY = [0, 1, 5, 200, 2.5, 0.5]


def mk(ctx, v):
    return Arg(v, rt=ctx.rng.random() < 0.5)


def random_op(ctx, bad=False):
    r = ctx.rng
    comp = lambda: mk(ctx, r.choice(COMP_BAD if bad and r.random() < 0.4 else COMP_OK + [r.randint(0, 255)]))
    k = r.choice([3, 3, 4, 4, 5, 6, 6, 6, 6, 7, 7])
    if k == 3:
        return op(3, comp(), comp(), comp())
    if k == 4:
        return op(4, *[comp() for _ in range(r.choice([0, 1, 2, 3, 3]))])
    if k == 5:
        return op(5)
    if k == 6:
        n = r.choice(STEPS + ([0, -2] if bad else []))
        d = r.choice(DUR + ([-5, 2.5] if bad else []))
        m = r.choice([3, 4, 5, 5, 5])
        return op(6, *([comp(), comp(), comp()] + [mk(ctx, d), mk(ctx, n)][:m - 3]))
    t = r.choice(TIMES + ([0, -1] if bad else []))
    m = r.choice([3, 4, 5, 5])
    return op(7, *([comp(), comp(), comp()] + [mk(ctx, t), mk(ctx, r.choice(DELAY))][:m - 3]))


def stream_of(case):
    cur = (0, 0, 0)
    for o in case["ops"]:
        if not in_range(cur, o):
            return "clamp"
        cur = sim_host(cur, o)
    return "guard"


def tie_fades(case):
    """number of fades of an in-guard case with at least one interpolation step exactly on a half (the region of the repaired
    finding F-C04-rgb-fade-half-rounding)"""
    cur, k = (0, 0, 0), 0
    for o in case["ops"]:
        if o["code"] == 6:
            a = [x.v for x in o["args"]]
            d = a[3] if len(a) > 3 else 1000
            n = int(a[4]) if len(a) > 4 else 50
            if d != 0 and tuple(int(t) for t in a[:3]) != cur and not all(tie_free(n, s, int(t)) for s, t in zip(cur, a[:3])):
                k += 1
        cur = sim_host(cur, o)
    return k


def gen_cases(ctx):
    quick = ctx.tier == "quick"
    cases = []
    pins = lambda: ctx.rng.choice([(9, 10, 11), (3, 5, 6), (6, 5, 3)])
    # boundary fades from boundary colours: every (start, target) channel pair over a small alphabet, steps 1..5/7/10
    alpha = [0, 1, 2, 5, 128, 254, 255]
    for s, t in itertools.product(alpha, repeat=2):
        for n in ([1, 2, 3, 4, 5] if quick else [1, 2, 3, 4, 5, 7, 10, 16]):
            for d in ([0, 7] if quick else [0, 1, 7, 100]):
                cases.append({"pins": pins(), "ops": [op(3, mk(ctx, s), mk(ctx, 255 - s), mk(ctx, 0)),
                                                      op(6, mk(ctx, t), mk(ctx, 255 - t), mk(ctx, 0), mk(ctx, d), mk(ctx, n))], "family": "fade-grid"})
    # the region of the repaired finding, densely: fades whose steps land exactly on a half - an even step count and an odd
    # numerator (t - s) * i at i = n/2 (and n/4-multiples for n = 4, 8); rising and falling; halves whose floor is even and
    # odd (x.5 -> down / up); all three channels, each with its own direction; literal and run-time
    ties = [(0, 1, 2), (0, 3, 2), (1, 0, 2), (3, 0, 2), (0, 5, 2), (254, 255, 2), (255, 254, 2), (255, 252, 2), (2, 5, 2), (5, 2, 2),
            (0, 2, 4), (0, 6, 4), (255, 249, 4), (7, 1, 4), (0, 3, 6), (255, 0, 2), (0, 255, 2), (0, 255, 6), (255, 0, 10), (100, 101, 2),
            (101, 100, 2), (0, 4, 8), (0, 12, 8), (128, 127, 2), (127, 128, 2), (0, 255, 50), (255, 0, 50)]
    for j, (s, t, n) in enumerate(ties):
        for d in ([7] if quick else [1, 7, 100]):
            for rt in (False, True):
                g1, g2 = ties[(j + 5) % len(ties)], ties[(j + 11) % len(ties)]
                cases.append({"pins": pins(), "ops": [op(3, Arg(s, rt), Arg(g1[0] if g1[2] == n else 255 - s, rt), Arg(g2[0] if g2[2] == n else s, rt)),
                                                      op(6, Arg(t, rt), Arg(g1[1] if g1[2] == n else 255 - t, rt), Arg(g2[1] if g2[2] == n else t, rt),
                                                         Arg(d, not rt), Arg(n, rt)),
                                                      op(6, Arg(s, not rt), Arg(0), Arg(255), Arg(d, rt), Arg(n, not rt))], "family": "fade-ties"})
    for c in itertools.product([0, 1, 255], repeat=3):
        for t, d in [(1, 0), (2, 5), (True, 2.5), (3, 0.5)]:
            cases.append({"pins": pins(), "ops": [op(4, Arg(7), Arg(8), Arg(9)), op(7, *[mk(ctx, x) for x in c], mk(ctx, t), mk(ctx, d)), op(5)], "family": "blink-grid"})
    for _ in range(150 if quick else 1500):
        cases.append({"pins": pins(), "ops": [random_op(ctx) for _ in range(ctx.rng.randint(2, 8))], "family": "random"})
    for _ in range(80 if quick else 600):
        cases.append({"pins": pins(), "ops": [random_op(ctx, bad=True) for _ in range(ctx.rng.randint(2, 6))], "family": "clamp"})
    for v in COMP_BAD[:5]:
        for rt in (False, True):
            cases.append({"pins": (9, 10, 11), "ops": [op(3, Arg(v, rt), Arg(5), Arg(255)), op(6, Arg(v, rt), Arg(0), Arg(300), Arg(10), Arg(3)),
                                                       op(7, Arg(v, rt), Arg(256), Arg(-1), Arg(1), Arg(0))], "family": "clamp-fixed"})
    for c in cases:
        c["stream"] = stream_of(c)
        c["tie_fades"] = tie_fades(c) if c["stream"] == "guard" else 0
    return cases


def host_items(events):
    hev, junk = [], []
    for e in events:
        f = e.split(" ")
        if f[0] == "C":
            hev.append([6, int(f[4]), int(f[5]), int(f[6])])
        elif f[0] == "D":
            hev.append([4, q_of(f[1]), 1 if (len(f) > 2 and f[2] == "fade") else 0])
        elif f[0] in ("AR", "S"):
            pass
        else:
            junk.append(e)
    return hev, junk


def run_batch(ctx, cases):
    builders, index, guard_only = [], [], []
    for stream_is_guard in (True, False):
        ids = [n for n, c in enumerate(cases) if (c["stream"] == "guard") == stream_is_guard]
        for i in range(0, len(ids), CASES_PER_SKETCH):
            b = Builder(IMPORTS)
            part = ids[i:i + CASES_PER_SKETCH]
            for n in part:
                emit_case(b, n, cases[n])
            builders.append(b)
            index.append(part)
            guard_only.append(stream_is_guard)
    fwr = run_firmware(builders)
    hres = iter(run_host([b for b, g in zip(builders, guard_only) if g]))
    out = [None] * len(cases)
    for part, b, fr, g in zip(index, builders, fwr, guard_only):
        hr = next(hres) if g else None
        for n in part:
            rec = {"fw": None, "host": None, "why": None, "script": None}
            if not fr["ok"]:
                rec["why"], rec["script"] = fr["why"], fr["script"]
            else:
                rec["fw"] = fr["cases"].get(str(n), [])
            if hr is not None:
                rec["host"] = hr["cases"].get(str(n))
                if not hr["ok"]:
                    rec["host_why"] = hr["why"]
            out[n] = rec
    return out, len(builders)


def case_pub(case):
    b = Builder(IMPORTS)
    emit_case(b, 0, case)
    return {"unit": UNIT, "pins": list(case["pins"]), "ops": [op_pub(o) for o in case["ops"]], "script": b.script(), "mock_input": b.input(),
            "replay": {"pins": list(case["pins"]), "ops": [[o["code"], [[a.v, a.rt] for a in o["args"]]] for o in case["ops"]]}}


def case_from_replay(r):
    c = {"pins": tuple(r["pins"]), "ops": [{"code": code, "args": [Arg(v, rt) for v, rt in args]} for code, args in r["ops"]], "family": "replay"}
    c["stream"] = "guard"
    return c


def canon_of(ctx, dev=None, hev=None, pins=None):
    r = ctx.model([[1, dev]] if dev is not None else [[2, list(pins), hev]], unit=UNIT)[0]
    return r[1] if r and r[0] == 0 else None


def oracle_one(case, cd, ch):
    F = []
    if cd is None or ch is None:
        return F
    if cd[0] != ch[0]:
        k = next((j for j in range(max(len(cd[0]), len(ch[0]))) if j >= len(cd[0]) or j >= len(ch[0]) or cd[0][j] != ch[0][j]), 0)
        F.append({"what": f"RGB LED on pins {list(case['pins'])}: the firmware's level signal differs from the host's at change #{k} "
                          f"(firmware (t_ms, pin, level) {cd[0][k] if k < len(cd[0]) else None}, host {ch[0][k] if k < len(ch[0]) else None})",
                  "expected": ch[0][max(0, k - 3):k + 3], "observed": cd[0][max(0, k - 3):k + 3], "key": "rgb-signal"})
    elif cd[1] != ch[1]:
        F.append({"what": f"RGB LED: total duration differs (firmware {cd[1]} ms, host {ch[1]} ms with each sleep rounded as the device does)",
                  "expected": ch[1], "observed": cd[1], "key": "rgb-duration"})
    return F


def clamp_failures(case, rec):
    dev, _, _ = fw_items(rec["fw"])
    bad = [d for d in dev if d[0] == 2 and not 0 <= d[2] <= 255]
    if bad:
        return [{"what": f"RGB LED: analogWrite({bad[0][1]}, {bad[0][2]}) reaches the pin unclamped", "expected": "0..255", "observed": bad[0][2],
                 "key": "rgb-clamp"}]
    return []


def unit_findings(ctx):
    items = {f["id"]: f for f in ctx.findings if f.get("unit") == UNIT}
    p = C.VERIF / "known_findings.d" / "C04.json"          # the source of known_findings.json: its entries win
    if p.exists():
        for f in json.loads(p.read_text()):
            if f.get("unit") == UNIT:
                items[f["id"]] = f
    return list(items.values())


def load_findings(ctx):
    return [f for f in unit_findings(ctx) if f.get("kind") != "fixed"]


def witness_failures(ctx, f):
    case = case_from_replay(f["witness"]["replay"])
    recs, _ = run_batch(ctx, [case])
    rec = recs[0]
    if rec["fw"] is None:
        return case, [{"what": f"the witness script is not transpiled/compiled/run: {rec['why']}", "expected": "firmware", "observed": rec["why"], "key": "rgb-witness"}]
    if rec["host"] is None or rec.get("host_why"):
        return case, [{"what": f"the host class raised on the witness: {rec.get('host_why')}", "expected": "no exception", "observed": rec.get("host_why"),
                       "key": "rgb-witness"}]
    dev, _, _ = fw_items(rec["fw"])
    hev, _ = host_items(rec["host"])
    if ctx.exes.get(UNIT) is None:
        return case, []        # no extracted canonicaliser: the verdict is already "no longer shown to hold"
    return case, oracle_one(case, canon_of(ctx, dev=dev), canon_of(ctx, hev=hev, pins=case["pins"]))


def finding_reproduces(ctx, f):
    return bool(witness_failures(ctx, f)[1])


def replay_fixed(ctx):
    """repaired defects (kind "fixed") suppress nothing: their witnesses are replayed FIRST, and one that fails again is a VIOLATION
    whose replay is the witness"""
    n = 0
    for f in unit_findings(ctx):
        if f.get("kind") != "fixed":
            continue
        n += 1
        case, F = witness_failures(ctx, f)
        if F:
            pub = case_pub(case)
            pub["finding"] = f["id"]
            pub["witness"] = f["witness"]
            ctx.fail(f"{f.get('fixed', 'fixed: ' + f['id'])} - repaired defect {f['id']} is back: {F[0]['what']}", pub, F[0]["expected"], F[0]["observed"],
                     key="fixed-defect-returned:" + f["id"])
    return n


def run_unit(ctx: C.Ctx):
    cases = gen_cases(ctx)
    recs, n_sketches = run_batch(ctx, cases)
    have_model = ctx.exes.get(UNIT) is not None
    model = ctx.model([[0, list(c["pins"]), [op_wire(o) for o in c["ops"]]] for c in cases], unit=UNIT) if have_model else [None] * len(cases)
    canon_jobs, canon_where = [], []
    for n, (c, r) in enumerate(zip(cases, recs)):
        if r["fw"] is not None:
            canon_jobs.append([1, fw_items(r["fw"])[0]])
            canon_where.append((n, "d"))
        if r["host"] is not None and c["stream"] == "guard":
            canon_jobs.append([2, list(c["pins"]), host_items(r["host"])[0]])
            canon_where.append((n, "h"))
    canon_out = ctx.model(canon_jobs, unit=UNIT) if (have_model and canon_jobs) else []
    canons = {k: (o[1] if o and o[0] == 0 else None) for k, o in zip(canon_where, canon_out)}

    stats = {"cases": len(cases), "sketches": n_sketches, "streams": {}, "families": {}, "ops": {}, "arg_kinds": {"literal": 0, "run-time": 0},
             "fw_events": 0, "host_events": 0, "oracle_cases": 0, "clamp_cases": 0, "level_changes": 0, "nontrivial_signals": 0, "fade_steps": {},
             "in_guard_cases_with_a_fade_step_on_a_half": 0, "in_guard_fades_with_a_step_on_a_half": 0,
             "fixed_witnesses_replayed_first": getattr(ctx, "c04_fixed_replayed", {}).get(UNIT)}
    if stats["fixed_witnesses_replayed_first"] is None:
        stats["fixed_witnesses_replayed_first"] = replay_fixed(ctx)
    distinct, seen_fail = set(), set()
    for n, (c, r, m) in enumerate(zip(cases, recs, model)):
        stats["streams"][c["stream"]] = stats["streams"].get(c["stream"], 0) + 1
        stats["families"][c["family"]] = stats["families"].get(c["family"], 0) + 1
        for o in c["ops"]:
            stats["ops"][NAMES[o["code"]]] = stats["ops"].get(NAMES[o["code"]], 0) + 1
            for a in o["args"]:
                stats["arg_kinds"]["run-time" if a.rt else "literal"] += 1
            if o["code"] == 6 and len(o["args"]) > 4:
                stats["fade_steps"][str(o["args"][4].v)] = stats["fade_steps"].get(str(o["args"][4].v), 0) + 1
        if r["fw"] is None:
            ctx.disagree("generated RGB script was not transpiled/compiled/run: " + str(r["why"]), {"script": (r.get("script") or "")[:3000]}, None, r["why"])
            continue
        dev, _, junk = fw_items(r["fw"])
        stats["fw_events"] += len(dev)
        if junk:
            ctx.disagree("unexpected firmware events in an RGB case", case_pub(c), None, junk[:5])
        if m is not None:
            if not m or m[0] != 0:
                ctx.disagree("model rejected the case", case_pub(c), m, None)
                continue
            mdev, mhok, mcd, mch, mir = m[1:6]
            if [list(x) for x in mdev] != dev:
                k = next((j for j in range(max(len(mdev), len(dev))) if j >= len(mdev) or j >= len(dev) or list(mdev[j]) != dev[j]), 0)
                ctx.disagree(f"device model vs firmware: event #{k} differs (2 analogWrite, 3 delay)", case_pub(c),
                             [list(x) for x in mdev[max(0, k - 3):k + 3]], dev[max(0, k - 3):k + 3])
            mguard = all(bool(x) for x in mir)
            if mguard != (c["stream"] == "guard"):
                ctx.disagree("guard: the model's rgb_in_range and the generator's disagree", case_pub(c), mir, c["stream"])
        stats["clamp_cases"] += 1
        for f in clamp_failures(c, r):
            ctx.fail(f["what"], case_pub(c), f["expected"], f["observed"], key=f["key"])
        if c["stream"] != "guard":
            continue
        if r["host"] is None or r.get("host_why"):
            ctx.fail(f"the host class raised on an in-range RGB command sequence: {r.get('host_why')}", case_pub(c), "no exception",
                     r.get("host_why"), key="rgb-host-raised")
            continue
        hev, _ = host_items(r["host"])
        stats["host_events"] += len(hev)
        cd, ch = canons.get((n, "d")), canons.get((n, "h"))
        if m is not None and m and m[0] == 0 and ch is not None:
            mch = m[4]
            if [list(map(list, mch[0])), mch[1]] != [list(map(list, ch[0])), ch[1]]:
                ctx.disagree("host model vs real RGBLed class: canonical signal of the host trace", case_pub(c), mch, ch)
            if not m[2]:
                ctx.disagree("host model raises inside the guard", case_pub(c), m[2], None)
        stats["oracle_cases"] += 1
        if c.get("tie_fades"):
            stats["in_guard_cases_with_a_fade_step_on_a_half"] += 1
            stats["in_guard_fades_with_a_step_on_a_half"] += c["tie_fades"]
        if cd is not None:
            stats["level_changes"] += len(cd[0])
            if len(cd[0]) >= 2:
                stats["nontrivial_signals"] += 1
                distinct.add(json.dumps(cd))
        for f in oracle_one(c, cd, ch):
            first = f["key"] not in seen_fail
            seen_fail.add(f["key"])
            ctx.fail(f["what"], case_pub(c) if first else {"unit": UNIT, "note": "see the first failure of this class"}, f["expected"], f["observed"], key=f["key"])

    replayed = []
    for f in load_findings(ctx):
        try:
            if finding_reproduces(ctx, f):
                ctx.known(f"{f['id']}: {f['what']}")
                replayed.append(f["id"])
        except Exception as e:  # noqa
            ctx.notes.append(f"replay of {f['id']} failed to run: {e}")
    return {
        "evaluations": stats["oracle_cases"] + stats["clamp_cases"],
        "distinct_nontrivial": len(distinct),
        "rule": "RGB cases = command sequences on a fresh RGBLed: a grid of fades between boundary colours (7x7 start/target values per channel, steps "
                "1-5 (thorough: up to 16), durations 0/7 (thorough: 0/1/7/100)), a grid of fades with steps exactly on a half (27 (start, target, steps) "
                "triples: rising/falling, halves rounding down and up to the even neighbour, steps 2-50; all three channels; then a second fade back), "
                "a blink grid, seeded random sequences of 2-8 commands, and a clamp stream "
                "with out-of-range / non-int components, steps and times (firmware + device model only). A case is inside the guard iff every command "
                "is in range (fades landing exactly on .5 included; their number is in distribution.in_guard_fades_with_a_step_on_a_half). Arguments "
                "are independently literal or run-time. evaluations = in-guard cases checked by the signal oracle + cases checked by the clamp oracle.",
        "samples": [case_pub(c) for c in cases[:1] + cases[-1:]],
        "distribution": stats,
        "guard": "components ints 0..255 (the host raises otherwise); fade: duration >= 0 and whole, steps a positive int; blink: times a positive int, "
                 "delay >= 0.  No finding is excluded: F-C04-rgb-fade-half-rounding is repaired (kind fixed); fades with an interpolation step whose exact "
                 "value has fractional part 1/2 are generated and compared",
        "unmodelled": ["float32 rounding of duration/steps + 0.5f (exact rationals in the model; generated durations <= 1000, steps <= 50)",
                       "C int / long overflow", "negative delays", "RGB getters do not exist on the device (the parser rejects them)"],
        "known_replayed": replayed,
        "trusted_base": ["harness/props/c04_rgb.py; coq/Wire/C04_rgbW.v (codecs)",
                         "harness/impl/c04_impl.py records which host method a sleep was called from (RGBLed.fade delays are rounded half-up by the device, others truncated)"],
        "assumptions": ["host level sequence of an RGB LED = completed set_color calls, written to the three pins in the order red, green, blue (DESIGN.md A.2)"],
    }


def replay_unit(data):
    r = (data.get("case") or {}).get("replay")
    if not r:
        print("replay: no RGB case in this file")
        return 0
    ctx = C.Ctx("C04", "quick", 0)
    ctx.exes[UNIT] = C.build_model(UNIT)
    c = case_from_replay(r)
    recs, _ = run_batch(ctx, [c])
    rec = recs[0]
    if rec["fw"] is None:
        print("replay:", rec["why"])
        return 1
    F = clamp_failures(c, rec)
    if rec["host"] is not None and not rec.get("host_why"):
        dev, _, _ = fw_items(rec["fw"])
        hev, _ = host_items(rec["host"])
        F += oracle_one(c, canon_of(ctx, dev=dev), canon_of(ctx, hev=hev, pins=c["pins"]))
    elif rec.get("host_why"):
        print("host:", rec["host_why"])
    for f in F:
        print(f"REPRODUCED [{f['key']}] {f['what']}")
    if not F:
        print("replay: the property holds on this case now")
    return 1 if F else 0
