"""C04, unit C04_servo: servo commands - generated firmware vs host class.

Engines (AGENT_GUIDE rule 5):
 (i)  correspondence: the same declarations + command sequences through the extracted models (coq/Wire/C04_servoW.v:
      Device/DServo.v and Host/Servo.v) and through the REAL artefacts: the script transpiled by the real parser/emitter,
      compiled and run under the mock core (SVA attach, SVW Servo.write, SVU writeMicroseconds events, the printed
      read()/read_us() values), and the same script under CPython against the real Servo class (completed write /
      write_us calls with the angle and pulse they leave, getter values);
 (ii) property oracle on the real artefacts, op by op, for every generated case inside the guard: a completed host
      write(a) must be a firmware Servo.write(z) with |z - angle level| <= 1/2, a completed write_us(p) a
      writeMicroseconds(z) with |z - pulse level| <= 1/2 (the library takes integers), on the declared pin; every
      read()/read_us() print must be the host's value (to the two printed decimals); setup() must attach with the
      configured pulse bounds (nearest whole microseconds) and park at the minimum pulse.  The clamp clause (the integer handed to the library is the
      rounding of a value within the configured bounds; getter values within the bounds) is evaluated on every real
      firmware trace, inside or outside the guard."""
from __future__ import annotations

import json
import math
from fractions import Fraction

from harness import common as C
from harness import fw
from harness.props.c04_util import Arg, Builder, CASES_PER_SKETCH, run_firmware, run_host, q_of

UNIT = "C04_servo"
IMPORTS = ["from Reduino.Actuators import Servo", "from Reduino.Communication import SerialMonitor",
           "from Reduino.Core import analog_read"]
META_PART = ("C04_servo: device model of the Servo declaration (angles and pulse bounds kept as floats; attach() with their nearest whole "
             "microseconds), write (clamp to the configured angles, linear map to the pulse, clamp, Servo.write(nearest integer: a negative value "
             "is shifted down by one before static_cast<int>(x+0.5f))), write_us (clamp, inverse map, writeMicroseconds) and the read()/read_us() "
             "expressions; for all declarations with number arguments (whole or fractional, of either sign) and all command sequences within the "
             "configured bounds the printed getters equal the host's, no host call raises and the library receives the nearest integer of the "
             "host's level, negative levels included; the parser accepts exactly the declarations the host constructor accepts; clamp clause proved "
             "for ALL declarations, values and histories. The two former refutations (negative angle truncated toward zero; fractional pulse bound "
             "truncated by the parser) are repaired in Reduino and replaced by positive theorems; their witnesses are replayed first on every run.")

NAMES = {0: "write", 1: "write_us", 2: "read", 3: "read_us"}
KW = ["min_angle", "max_angle", "min_pulse_us", "max_pulse_us"]
DEFAULTS = {"min_angle": 0.0, "max_angle": 180.0, "min_pulse_us": 544.0, "max_pulse_us": 2400.0}     # the documented defaults (Servo docstring)
TOL = 0.007        # a printed getter has two decimals (0.005) + float32 arithmetic of the map


def op(code, *args):
    return {"code": code, "args": list(args)}


def op_wire(o):
    return [o["code"]] + [a.wire() for a in o["args"]]


def op_pub(o):
    return {"op": NAMES[o["code"]], "args": [a.pub() for a in o["args"]]}


def lit_wire(v):
    return [Arg(v).wire()]


def case_wire(c):
    k = c["ctor"]
    return [0, [lit_wire(c["pin"])] + [([] if k.get(n) is None else lit_wire(k[n])) for n in KW], [op_wire(o) for o in c["ops"]]]


def bound(c, name):
    v = c["ctor"].get(name)
    return Fraction(DEFAULTS[name] if v is None else (int(v) if isinstance(v, bool) else v))


def ctor_text(c):
    parts = [repr(c["pin"])] + [f"{n}={c['ctor'][n]!r}" for n in KW if c["ctor"].get(n) is not None]
    return "Servo(" + ", ".join(parts) + ")"


def emit_case(b: Builder, cid, case):
    b.case(cid)
    name = f"d{cid}"
    b.add(f"{name} = {ctor_text(case)}")
    for o in case["ops"]:
        if o["code"] >= 2:
            b.add(f"mon.write({name}.{NAMES[o['code']]}())")
        else:
            b.add(f"{name}.{NAMES[o['code']]}({b.expr(o['args'][0])})")


# ---------------------------------------------------------------------------------------------------------------
# guards (mirror of Device/DServo.v; compared with the model's own flags on every case)
# ---------------------------------------------------------------------------------------------------------------

def decl_guard(c):
    """every declaration argument is a number literal (all generated ones are): the model's decl_ok"""
    return True


def rnear(q):
    """nearest integer, halves away from zero (Device/DServo.v rnear)"""
    q = Fraction(q)
    return -math.floor(-q + Fraction(1, 2)) if q < 0 else math.floor(q + Fraction(1, 2))


def ordered(c):
    """the host constructor accepts the bounds"""
    return bound(c, "min_angle") < bound(c, "max_angle") and bound(c, "min_pulse_us") < bound(c, "max_pulse_us")


def parser_accepts(c):
    return ordered(c)


def in_range(c, o):
    if o["code"] == 0:
        return bound(c, "min_angle") <= o["args"][0].frac() <= bound(c, "max_angle")
    if o["code"] == 1:
        return bound(c, "min_pulse_us") <= o["args"][0].frac() <= bound(c, "max_pulse_us")
    return True


# ---------------------------------------------------------------------------------------------------------------
# generators
# ---------------------------------------------------------------------------------------------------------------
CALIBS = [
    {},
    {"min_angle": 0, "max_angle": 180},
    {"max_angle": 90},
    {"min_angle": -90, "max_angle": 90},
    {"min_angle": -45.5, "max_angle": 45.5},
    {"min_angle": 10, "max_angle": 170.5},
    {"min_angle": -180.0, "max_angle": 0.5},
    {"min_pulse_us": 500, "max_pulse_us": 2500},
    {"min_angle": -60, "max_angle": 60, "min_pulse_us": 1000, "max_pulse_us": 2000},
    {"min_angle": 0, "max_angle": 270, "min_pulse_us": 600.0, "max_pulse_us": 2400},
    {"min_angle": True, "max_angle": 128, "min_pulse_us": 200, "max_pulse_us": 712},
    {"min_angle": 0.25, "max_angle": 1.75, "min_pulse_us": 0, "max_pulse_us": 1024},
    # fractional pulse bounds (the region the former finding F-C04-servo-fractional-pulse-bound excluded)
    {"min_pulse_us": 544.5},
    {"min_pulse_us": 1000.25, "max_pulse_us": 1999.75, "min_angle": -30, "max_angle": 30},
    {"min_pulse_us": 600.75, "max_pulse_us": 2399.5},
    {"min_angle": -128, "max_angle": 128, "min_pulse_us": 544.25, "max_pulse_us": 544.75},        # both bounds truncate to 544
    {"min_angle": -64, "max_angle": 64, "min_pulse_us": -200.5, "max_pulse_us": 823.5},           # negative pulse levels
]
CALIBS_REJECT = [               # min >= max somewhere: the host constructor raises ValueError, and so must the parser
    {"min_angle": 90, "max_angle": 90},
    {"min_angle": 100, "max_angle": 10},
    {"min_angle": 200},
    {"min_pulse_us": 2400},
    {"min_pulse_us": 2000, "max_pulse_us": 1000},
    {"max_pulse_us": 500},
    {"max_angle": 0},
    {"max_angle": -0.5},
    {"min_pulse_us": 544.5, "max_pulse_us": 544.5},
    {"min_pulse_us": 544.75, "max_pulse_us": 544.25},
    {"min_pulse_us": 2400.5},
]


def mk(ctx, v):
    return Arg(v, rt=ctx.rng.random() < 0.5)


def angles_in(c):
    lo, hi = bound(c, "min_angle"), bound(c, "max_angle")
    mid = (lo + hi) / 2
    cand = [lo, hi, mid, lo + Fraction(1, 2), hi - Fraction(1, 4), lo + Fraction(3, 4), mid + Fraction(1, 2), mid - Fraction(1, 4), 0, 1, True, 90, 45.5, 90.75,
            -0.25, -0.5, -0.75, -1, -1.5, -10, -10.5, -9.75, -44.25, -44.5, -63.5, 127.5, 12.125, lo + Fraction(1, 4), mid - Fraction(1, 2)]
    out = []
    for v in cand:
        q = Fraction(int(v) if isinstance(v, bool) else v)
        if lo <= q <= hi:
            out.append(v if isinstance(v, (bool, int, float)) else (int(q) if q.denominator == 1 else float(q)))
    return out


def pulses_in(c):
    lo, hi = bound(c, "min_pulse_us"), bound(c, "max_pulse_us")
    mid = (lo + hi) / 2
    cand = [lo, hi, mid, lo + 1, hi - 1, lo + Fraction(1, 2), hi - Fraction(1, 4), mid + Fraction(3, 4), 1500, 1000, 1472.25, 600, 700.5, 256, 1, 0, True,
            -0.5, -0.25, -1, -7.5, -8.75, -100, -199.5]
    out = []
    for v in cand:
        q = Fraction(int(v) if isinstance(v, bool) else v)
        if lo <= q <= hi:
            out.append(v if isinstance(v, (bool, int, float)) else (int(q) if q.denominator == 1 else float(q)))
    return out


def values_out(c, pulse):
    lo, hi = (bound(c, "min_pulse_us"), bound(c, "max_pulse_us")) if pulse else (bound(c, "min_angle"), bound(c, "max_angle"))
    cand = [lo - 1, hi + 1, lo - Fraction(1, 4), hi + Fraction(1, 4), -300, 723, 5000, -5000, 2023, lo - 100, hi + 100.5]
    return [int(q) if Fraction(q).denominator == 1 else float(q) for q in cand]


def random_op(ctx, c, out=False):
    r = ctx.rng
    k = r.choice([0, 0, 0, 1, 1, 2, 3])
    if k == 0:
        pool = values_out(c, False) if out and r.random() < 0.6 else angles_in(c)
        return op(0, mk(ctx, r.choice(pool)))
    if k == 1:
        pool = values_out(c, True) if out and r.random() < 0.6 else pulses_in(c)
        return op(1, mk(ctx, r.choice(pool)))
    return op(k)


def gen_cases(ctx):
    quick = ctx.tier == "quick"
    r = ctx.rng
    cases = []
    pin = lambda: r.choice([3, 5, 6, 9, 10, 11])
    both = [op(2), op(3)]
    # every calibration: the power-on getters, then each boundary value once as a literal and once as a run-time value
    for cal in CALIBS:
        c0 = {"pin": pin(), "ctor": cal}
        for v in angles_in(c0):
            for rt in (False, True):
                cases.append({"pin": pin(), "ctor": cal, "ops": both + [op(0, Arg(v, rt))] + both, "family": "angle-grid"})
        for v in pulses_in(c0):
            for rt in (False, True):
                cases.append({"pin": pin(), "ctor": cal, "ops": both + [op(1, Arg(v, rt))] + both, "family": "pulse-grid"})
    # ordered pairs of commands (the second command starts from the state the first left)
    for cal in (CALIBS[:6] if quick else CALIBS):
        c0 = {"pin": 9, "ctor": cal}
        A = [op(0, mk(ctx, v)) for v in angles_in(c0)[:5]] + [op(1, mk(ctx, v)) for v in pulses_in(c0)[:4]]
        for a in A:
            for b2 in (A[::2] if quick else A):
                cases.append({"pin": pin(), "ctor": cal, "ops": [a] + both + [b2] + both, "family": "pairs"})
    for _ in range(100 if quick else 1500):
        cal = r.choice(CALIBS)
        c0 = {"pin": pin(), "ctor": cal}
        ops = []
        for _ in range(r.randint(2, 9)):
            ops.append(random_op(ctx, c0))
            if r.random() < 0.35:
                ops.append(op(r.choice([2, 3])))
        cases.append({"pin": c0["pin"], "ctor": cal, "ops": ops + both, "family": "random"})
    # clamp stream: values outside the configured bounds (firmware + device model only)
    for cal in CALIBS:
        c0 = {"pin": 9, "ctor": cal}
        for v in values_out(c0, False):
            cases.append({"pin": pin(), "ctor": cal, "ops": [op(0, mk(ctx, v))] + both, "family": "clamp-grid"})
        for v in values_out(c0, True):
            cases.append({"pin": pin(), "ctor": cal, "ops": [op(1, mk(ctx, v))] + both, "family": "clamp-grid"})
    for _ in range(60 if quick else 700):
        cal = r.choice(CALIBS)
        c0 = {"pin": pin(), "ctor": cal}
        ops = [random_op(ctx, c0, out=True) for _ in range(r.randint(2, 7))]
        cases.append({"pin": c0["pin"], "ctor": cal, "ops": ops + both, "family": "clamp-random"})
    for cal in CALIBS_REJECT:
        cases.append({"pin": 9, "ctor": cal, "ops": list(both), "family": "reject"})
    for c in cases:
        if c["family"] == "reject":
            c["stream"] = "reject"
        elif decl_guard(c) and ordered(c) and all(in_range(c, o) for o in c["ops"]):
            c["stream"] = "guard"
        else:
            c["stream"] = "clamp"
    return cases


# ---------------------------------------------------------------------------------------------------------------
# traces
# ---------------------------------------------------------------------------------------------------------------

def fw_items(events):
    """firmware events of one case -> (wire sdev events, getter prints, junk)"""
    dev, gets, junk = [], [], []
    for e in events:
        f = e.split(" ")
        if f[0] == "SVA":
            dev.append([0, int(f[1]), int(f[2]), int(f[3])])
        elif f[0] == "SVW":
            dev.append([1, int(f[1]), int(f[2])])
        elif f[0] == "SVU":
            dev.append([2, int(f[1]), int(f[2])])
        elif f[0] == "S":
            gets.append(e[2:])
        elif f[0] in ("AR", "M", "SB"):
            pass
        else:
            junk.append(e)
    return dev, gets, junk


def host_items(events):
    """host events of one case -> list of ('lvl', pin, angle, pulse) | ('get', text), junk"""
    out, junk = [], []
    for e in events:
        f = e.split(" ")
        if f[0] == "SV":
            out.append(("lvl", int(f[1]) if f[1].lstrip("-").isdigit() else f[1], q_of(f[2]), q_of(f[3])))
        elif f[0] == "S":
            out.append(("get", e[2:]))
        elif f[0] == "AR":
            pass
        else:
            junk.append(e)
    return out, junk


def setup_pairs(prelude):
    """the declarations' setup() calls in order: [(SVA event, SVU event)]"""
    ev = [e for e in prelude if e.split(" ")[0] in ("SVA", "SVU", "SVW")]
    pairs, i = [], 0
    while i < len(ev):
        if ev[i].startswith("SVA ") and i + 1 < len(ev) and ev[i + 1].startswith("SVU "):
            pairs.append(fw_items(ev[i:i + 2])[0])
            i += 2
        else:
            pairs.append(fw_items(ev[i:i + 1])[0])
            i += 1
    return pairs


def run_batch(ctx, cases):
    """-> per case dict(fw, setup, host, why); guard cases also run on the host; reject cases are only transpiled (one per script)"""
    builders, index, guard_only = [], [], []
    for g in (True, False):
        ids = [n for n, c in enumerate(cases) if c["stream"] != "reject" and (c["stream"] == "guard") == g]
        for i in range(0, len(ids), CASES_PER_SKETCH):
            b = Builder(IMPORTS)
            part = ids[i:i + CASES_PER_SKETCH]
            for n in part:
                emit_case(b, n, cases[n])
            builders.append(b)
            index.append(part)
            guard_only.append(g)
    fwr = run_firmware(builders)
    hres = iter(run_host([b for b, g in zip(builders, guard_only) if g]))
    out = [None] * len(cases)
    for part, b, fr, g in zip(index, builders, fwr, guard_only):
        hr = next(hres) if g else None
        pairs = setup_pairs(fr.get("prelude", [])) if fr["ok"] else []
        for k, n in enumerate(part):
            rec = {"fw": None, "host": None, "why": None, "script": None, "setup": None}
            if not fr["ok"]:
                rec["why"], rec["script"] = fr["why"], fr["script"]
            else:
                rec["fw"] = fr["cases"].get(str(n), [])
                rec["setup"] = pairs[k] if len(pairs) == len(part) else []
            if hr is not None:
                rec["host"] = hr["cases"].get(str(n))
                if not hr["ok"]:
                    rec["host_why"] = hr["why"]
            out[n] = rec
    rej = [n for n, c in enumerate(cases) if c["stream"] == "reject"]
    if rej:
        scripts = []
        for n in rej:
            b = Builder(IMPORTS)
            emit_case(b, n, cases[n])
            scripts.append(b.script())
        tr = fw.transpile_many(scripts)
        hr = run_host_scripts(scripts)
        for n, t, h, s in zip(rej, tr, hr, scripts):
            out[n] = {"fw": None, "host": None, "why": None, "script": s, "setup": None,
                      "transpile": "ok" if t.get("ok") else t.get("exc"), "host_exc": None if h["exc"] is None else h["exc"][0]}
    return out, len(builders)


def run_host_scripts(scripts):
    res = []
    jobs = [{"src": s, "input": "ar 14 0\n"} for s in scripts]
    for i in range(0, len(jobs), 50):
        res += C.run_impl("c04_impl.py", {"jobs": jobs[i:i + 50], "timeout": 60}, timeout=60 * 50 + 60)
    return res


def case_pub(case):
    b = Builder(IMPORTS)
    emit_case(b, 0, case)
    return {"unit": UNIT, "pin": case["pin"], "ctor": dict(case["ctor"]), "ops": [op_pub(o) for o in case["ops"]], "script": b.script(), "mock_input": b.input(),
            "replay": {"pin": case["pin"], "ctor": dict(case["ctor"]), "ops": [[o["code"], [[a.v, a.rt] for a in o["args"]]] for o in case["ops"]]}}


def case_from_replay(r):
    return {"pin": r["pin"], "ctor": dict(r["ctor"]), "ops": [{"code": code, "args": [Arg(v, rt) for v, rt in args]} for code, args in r["ops"]],
            "family": "replay", "stream": "guard"}


# ---------------------------------------------------------------------------------------------------------------
# oracles
# ---------------------------------------------------------------------------------------------------------------

def near(z, q):
    return abs(Fraction(z) - q) <= Fraction(1, 2)


def getter_close(dev_text, host_text):
    try:
        a, b = float(dev_text), float(host_text)
    except ValueError:
        return dev_text == host_text
    return abs(a - b) <= TOL + 2e-6 * abs(b)


def oracle_one(case, rec):
    """the statement of C04 for the servo on the real traces of one in-guard case -> failure dicts"""
    F = []
    pin = case["pin"]
    dev, fgets, _ = fw_items(rec["fw"])
    hitems, _ = host_items(rec["host"])
    # setup(): attach with the configured pulse bounds, parked at the minimum pulse
    st = rec.get("setup") or []
    want_setup = [[0, pin, rnear(bound(case, "min_pulse_us")), rnear(bound(case, "max_pulse_us"))], [2, pin, rnear(bound(case, "min_pulse_us"))]]
    if st != want_setup:
        F.append({"what": f"Servo on pin {pin}: setup() performs {st} (0 attach pin min max, 2 writeMicroseconds pin us); the host object has pulse bounds "
                          f"{float(bound(case, 'min_pulse_us'))}..{float(bound(case, 'max_pulse_us'))} and starts at the minimum pulse",
                  "expected": want_setup, "observed": st, "key": "servo-setup"})
    di, gi, hi = 0, 0, 0
    for k, o in enumerate(case["ops"]):
        h = hitems[hi] if hi < len(hitems) else None
        hi += 1
        if o["code"] >= 2:
            t = fgets[gi] if gi < len(fgets) else None
            gi += 1
            if h is None or h[0] != "get" or t is None:
                F.append({"what": f"Servo on pin {pin}: command #{k} ({NAMES[o['code']]}) - firmware print {t!r}, host item {h}", "expected": str(h), "observed": t,
                          "key": "servo-shape"})
                break
            if not getter_close(t, h[1]):
                F.append({"what": f"Servo on pin {pin}: {NAMES[o['code']]}() prints {t} on the device, the host returns {h[1]}", "expected": h[1], "observed": t,
                          "key": "servo-getter"})
                break
            continue
        d = dev[di] if di < len(dev) else None
        di += 1
        if h is None or h[0] != "lvl" or d is None:
            F.append({"what": f"Servo on pin {pin}: command #{k} ({NAMES[o['code']]}) - firmware event {d}, host item {h}", "expected": str(h), "observed": str(d),
                      "key": "servo-shape"})
            break
        kind = 1 if o["code"] == 0 else 2
        level = h[2] if o["code"] == 0 else h[3]
        if d[0] != kind or d[1] != pin or h[1] != pin:
            F.append({"what": f"Servo on pin {pin}: {NAMES[o['code']]} became the library call {d} (1 write, 2 writeMicroseconds; pin) on the device, host pin {h[1]}",
                      "expected": [kind, pin], "observed": d, "key": "servo-call"})
            break
        if not near(d[2], level):
            F.append({"what": f"Servo on pin {pin}: {NAMES[o['code']]}({o['args'][0].v}) hands {d[2]} to the Servo library; the host's "
                              f"{'angle' if kind == 1 else 'pulse'} level is {float(level)} (more than 1/2 apart)",
                      "expected": float(level), "observed": d[2], "key": "servo-level"})
            break
    else:
        if di != len(dev) or gi != len(fgets) or hi != len(hitems):
            F.append({"what": f"Servo on pin {pin}: extra events (firmware {len(dev)} calls / {len(fgets)} prints, host {len(hitems)} items)", "expected": len(hitems),
                      "observed": len(dev) + len(fgets), "key": "servo-shape"})
    return F


def clamp_failures(case, rec):
    """clamp clause on a real firmware trace: every integer handed to the library is the rounding of a value within the configured
    bounds, printed getters within the bounds"""
    F = []
    dev, fgets, _ = fw_items(rec["fw"])
    la, ha = bound(case, "min_angle"), bound(case, "max_angle")
    lp, hp = bound(case, "min_pulse_us"), bound(case, "max_pulse_us")
    half = Fraction(1, 2)
    for d in dev:
        lo, hi = (la, ha) if d[0] == 1 else (lp, hp)
        if d[0] in (1, 2) and not (lo - half <= d[2] <= hi + half):
            F.append({"what": f"Servo on pin {case['pin']}: {'write' if d[0] == 1 else 'writeMicroseconds'}({d[2]}) reaches the library outside the configured bounds "
                              f"{float(lo)}..{float(hi)}", "expected": f"{float(lo)}..{float(hi)}", "observed": d[2], "key": "servo-clamp"})
            break
    gi = 0
    for o in case["ops"]:
        if o["code"] < 2:
            continue
        t = fgets[gi] if gi < len(fgets) else None
        gi += 1
        lo, hi = (la, ha) if o["code"] == 2 else (lp, hp)
        try:
            x = float(t)
        except (TypeError, ValueError):
            continue
        if not (float(lo) - TOL - 2e-6 * abs(lo) <= x <= float(hi) + TOL + 2e-6 * abs(hi)):
            F.append({"what": f"Servo on pin {case['pin']}: {NAMES[o['code']]}() prints {t}, outside the configured bounds {float(lo)}..{float(hi)}",
                      "expected": f"{float(lo)}..{float(hi)}", "observed": t, "key": "servo-clamp-state"})
            break
    return F or limit_failures(case, rec)


def limit_failures(case, rec):
    """'clamped on the device to the documented limits (configured angle/pulse bounds)': a case that is one write(v) / write_us(v) with v
    outside the configured bounds followed by getters - the library receives the nearest integer of the bound on v's side, read() /
    read_us() print the angle / pulse bound of that side (the map is increasing: min angle <-> min pulse)"""
    ops = case["ops"]
    if not ops or ops[0]["code"] > 1 or not ops[0]["args"] or any(o["code"] < 2 for o in ops[1:]):
        return []
    la, ha = bound(case, "min_angle"), bound(case, "max_angle")
    lp, hp = bound(case, "min_pulse_us"), bound(case, "max_pulse_us")
    if not (la < ha and lp < hp):
        return []
    code, v = ops[0]["code"], ops[0]["args"][0].frac()
    lo, hi = (la, ha) if code == 0 else (lp, hp)
    if lo <= v <= hi:
        return []
    up = v > hi
    lim = hi if up else lo
    dev, fgets, _ = fw_items(rec["fw"])
    calls = [d[2] for d in dev if d[0] == (1 if code == 0 else 2)]
    name = "write" if code == 0 else "write_us"
    if not calls or abs(calls[-1] - lim) > Fraction(1, 2):
        return [{"what": f"Servo on pin {case['pin']}: {name}({ops[0]['args'][0].v}) is outside the configured bounds {float(lo)}..{float(hi)}; the library "
                         f"receives {calls[-1] if calls else None}, the documented limit is {float(lim)}", "expected": float(lim),
                 "observed": calls[-1] if calls else None, "key": "servo-clamp-limit"}]
    gi = 0
    for o in ops[1:]:
        t = fgets[gi] if gi < len(fgets) else None
        gi += 1
        want = (ha if up else la) if o["code"] == 2 else (hp if up else lp)
        try:
            x = float(t)
        except (TypeError, ValueError):
            continue
        if abs(x - float(want)) > TOL + 2e-6 * abs(want):
            return [{"what": f"Servo on pin {case['pin']}: after the out-of-range {name}({ops[0]['args'][0].v}) {NAMES[o['code']]}() prints {t}, the "
                             f"documented limit is {float(want)}", "expected": float(want), "observed": t, "key": "servo-clamp-limit-state"}]
    return []


# ---------------------------------------------------------------------------------------------------------------
# known findings
# ---------------------------------------------------------------------------------------------------------------

def unit_findings(ctx):
    items = {f["id"]: f for f in ctx.findings if f.get("unit") == UNIT}
    p = C.VERIF / "known_findings.d" / "C04.json"          # the source of known_findings.json: its entries win
    if p.exists():
        for f in json.loads(p.read_text()):
            if f.get("unit") == UNIT:
                items[f["id"]] = f
    return list(items.values())


def load_findings(ctx):
    return [f for f in unit_findings(ctx) if f.get("kind") != "fixed"]


def witness_failures(ctx, f):
    """the whole statement (setup, levels, getters, clamp) on the witness of a finding -> failure dicts, or None if it could not be run"""
    case = case_from_replay(f["witness"]["replay"])
    recs, _ = run_batch(ctx, [case])
    rec = recs[0]
    if rec["fw"] is None:
        return case, [{"what": f"the witness script is not transpiled/compiled/run: {rec['why']}", "expected": "firmware", "observed": rec["why"], "key": "servo-witness"}]
    if rec["host"] is None or rec.get("host_why"):
        return case, [{"what": f"the host class raised on the witness: {rec.get('host_why')}", "expected": "no exception", "observed": rec.get("host_why"),
                       "key": "servo-witness"}]
    return case, oracle_one(case, rec) + clamp_failures(case, rec)


def finding_reproduces(ctx, f):
    return bool(witness_failures(ctx, f)[1])


def replay_fixed(ctx):
    """repaired defects (kind "fixed") suppress nothing: their witnesses are replayed FIRST, and one that fails again is a VIOLATION
    whose replay is the witness"""
    n = 0
    for f in unit_findings(ctx):
        if f.get("kind") != "fixed":
            continue
        n += 1
        case, F = witness_failures(ctx, f)
        if F:
            pub = case_pub(case)
            pub["finding"] = f["id"]
            pub["witness"] = f["witness"]
            ctx.fail(f"repaired defect {f['id']} is back: {F[0]['what']}", pub, F[0]["expected"], F[0]["observed"], key="fixed-defect-returned:" + f["id"])
    return n


# ---------------------------------------------------------------------------------------------------------------
# main
# ---------------------------------------------------------------------------------------------------------------

def run_unit(ctx: C.Ctx):
    cases = gen_cases(ctx)
    have_model = ctx.exes.get(UNIT) is not None
    model = ctx.model([case_wire(c) for c in cases], unit=UNIT) if have_model else [None] * len(cases)
    recs, n_sketches = run_batch(ctx, cases)
    stats = {"cases": len(cases), "sketches": n_sketches, "streams": {}, "families": {}, "ops": {}, "arg_kinds": {"literal": 0, "run-time": 0},
             "calibrations": {}, "fw_calls": 0, "getter_prints": 0, "oracle_cases": 0, "clamp_cases": 0, "reject_cases": 0,
             "negative_level_writes_in_guard": 0, "negative_tie_writes_in_guard": 0, "fractional_pulse_bound_cases_in_guard": 0,
             "fixed_witnesses_replayed_first": getattr(ctx, "c04_fixed_replayed", {}).get(UNIT)}
    if stats["fixed_witnesses_replayed_first"] is None:
        stats["fixed_witnesses_replayed_first"] = replay_fixed(ctx)
    distinct, seen_fail = set(), set()

    def fail(f, c):
        first = f["key"] not in seen_fail
        seen_fail.add(f["key"])
        ctx.fail(f["what"], case_pub(c) if first else {"unit": UNIT, "note": "see the first failure of this class"}, f["expected"], f["observed"], key=f["key"])

    for n, (c, r, m) in enumerate(zip(cases, recs, model)):
        stats["streams"][c["stream"]] = stats["streams"].get(c["stream"], 0) + 1
        stats["families"][c["family"]] = stats["families"].get(c["family"], 0) + 1
        ck = json.dumps(c["ctor"], sort_keys=True)
        stats["calibrations"][ck] = stats["calibrations"].get(ck, 0) + 1
        for o in c["ops"]:
            stats["ops"][NAMES[o["code"]]] = stats["ops"].get(NAMES[o["code"]], 0) + 1
            for a in o["args"]:
                stats["arg_kinds"]["run-time" if a.rt else "literal"] += 1
        if m is not None and (not m or m[0] != 0):
            ctx.disagree("model rejected the case", case_pub(c), m, None)
            m = None
        if c["stream"] == "reject":
            stats["reject_cases"] += 1
            if m is not None:
                if (m[2][0] == 0) != (r["transpile"] != "ok"):
                    ctx.disagree("device model vs parser: acceptance of a Servo declaration", case_pub(c), "rejects" if m[2][0] == 0 else "accepts", r["transpile"])
                if (m[1][0] == 1) != (r["host_exc"] is not None):
                    ctx.disagree("host model vs real Servo constructor: raising", case_pub(c), m[1], r["host_exc"])
            # the statement side: a declaration the host refuses must not silently become firmware, and vice versa
            if (r["host_exc"] is not None) != (r["transpile"] != "ok"):
                fail({"what": f"{ctor_text(c)}: the host constructor {'raises ' + str(r['host_exc']) if r['host_exc'] else 'returns'} but the transpiler "
                              f"{'raises ' + str(r['transpile']) if r['transpile'] != 'ok' else 'generates firmware'}",
                      "expected": r["host_exc"], "observed": r["transpile"], "key": "servo-decl-accept"}, c)
            continue
        if r["fw"] is None:
            ctx.disagree("generated servo script was not transpiled/compiled/run: " + str(r["why"]), {"script": (r.get("script") or "")[:3000]}, None, r["why"])
            continue
        dev, fgets, junk = fw_items(r["fw"])
        stats["fw_calls"] += len(dev)
        stats["getter_prints"] += len(fgets)
        if junk:
            ctx.disagree("unexpected firmware events in a servo case", case_pub(c), None, junk[:5])
        # ---- correspondence: device model vs real firmware
        if m is not None:
            hctor, decl, mdev, mdg, mhev, mhg, mhok, mrange, mdeclok = m[1:10]
            if decl[0] != 1:
                ctx.disagree("device model: the parser would reject this declaration, the real one accepted it", case_pub(c), decl, r["setup"])
            elif [list(x) for x in decl[1]] != r["setup"]:
                ctx.disagree("device model vs firmware: setup() calls of the declaration (0 attach, 2 writeMicroseconds)", case_pub(c), [list(x) for x in decl[1]], r["setup"])
            if [list(x) for x in mdev] != dev:
                k = next((j for j in range(max(len(mdev), len(dev))) if j >= len(mdev) or j >= len(dev) or list(mdev[j]) != dev[j]), 0)
                ctx.disagree(f"device model vs firmware: library call #{k} differs (1 write, 2 writeMicroseconds; pin; value)", case_pub(c),
                             [list(x) for x in mdev[max(0, k - 2):k + 3]], dev[max(0, k - 2):k + 3])
            mg = [Fraction(g[1][0], g[1][1]) for g in mdg if g]
            if len(mg) != len(fgets) or any(not getter_close(t, repr(float(q))) for q, t in zip(mg, fgets)):
                ctx.disagree("device model vs firmware: printed read()/read_us() values", case_pub(c), [float(q) for q in mg], fgets)
            if bool(mdeclok) != decl_guard(c):
                ctx.disagree("guard: the model's decl_ok and the generator's disagree", case_pub(c), mdeclok, decl_guard(c))
            if hctor[0] == 0 and [bool(x) for x in mrange] != [in_range(c, o) for o in c["ops"]]:
                ctx.disagree("guard: the model's range flags and the generator's disagree", case_pub(c), mrange, [in_range(c, o) for o in c["ops"]])
        # ---- clamp clause on the real trace (every case)
        stats["clamp_cases"] += 1
        for f in clamp_failures(c, r):
            fail(f, c)
        if c["stream"] != "guard":
            continue
        # ---- host side
        if r["host"] is None or r.get("host_why"):
            fail({"what": f"the host class raised on an in-range servo command sequence: {r.get('host_why')}", "expected": "no exception",
                  "observed": r.get("host_why"), "key": "servo-host-raised"}, c)
            continue
        hitems, hjunk = host_items(r["host"])
        if hjunk:
            ctx.disagree("unexpected host events in a servo case", case_pub(c), None, hjunk[:5])
        if m is not None:
            if hctor[0] != 0 or not mhok:
                ctx.disagree("host model raises inside the guard", case_pub(c), [hctor, mhok], None)
            # host model vs real class: the commands the levels stand for, and the getter values
            lv = [x for x in hitems if x[0] == "lvl"]
            wr = [o for o in c["ops"] if o["code"] < 2]
            want = [[1, x[1], rnear(x[2])] if o["code"] == 0 else [2, x[1], rnear(x[3])] for x, o in zip(lv, wr)]
            if len(lv) != len(wr) or want != [list(x) for x in mhev]:
                ctx.disagree("host model vs real Servo class: completed writes (as nearest-integer library commands)", case_pub(c), [list(x) for x in mhev], want)
            hg = [x[1] for x in hitems if x[0] == "get"]
            mq = [Fraction(g[1][0], g[1][1]) for g in mhg if g]
            if len(hg) != len(mq) or any(abs(float(t) - float(q)) > 1e-9 * max(1.0, abs(float(q))) for t, q in zip(hg, mq)):
                ctx.disagree("host model vs real Servo class: getter values", case_pub(c), [float(q) for q in mq], hg)
        # ---- property oracle on the real artefacts
        stats["oracle_cases"] += 1
        stats["negative_level_writes_in_guard"] += sum(1 for o in c["ops"] if o["code"] < 2 and o["args"][0].frac() < 0)
        stats["negative_tie_writes_in_guard"] += sum(1 for o in c["ops"] if o["code"] < 2 and o["args"][0].frac() < 0 and (2 * o["args"][0].frac()).denominator == 1
                                                     and o["args"][0].frac().denominator == 2)
        stats["fractional_pulse_bound_cases_in_guard"] += int(any(bound(c, n).denominator != 1 for n in ("min_pulse_us", "max_pulse_us")))
        if len(dev) >= 1:
            distinct.add(json.dumps([r["setup"], dev, fgets]))
        for f in oracle_one(c, r):
            fail(f, c)

    replayed = []
    for f in load_findings(ctx):
        try:
            if finding_reproduces(ctx, f):
                ctx.known(f"{f['id']}: {f['what']}")
                replayed.append(f["id"])
        except Exception as e:  # noqa
            ctx.notes.append(f"replay of {f['id']} failed to run: {e}")
    return {
        "evaluations": stats["oracle_cases"] + stats["clamp_cases"] + stats["reject_cases"],
        "distinct_nontrivial": len(distinct),
        "rule": "servo cases = a declaration Servo(pin, <calibration>) with literal arguments (17 calibrations: the default, custom angle ranges including "
                "negative and fractional ones, custom whole, fractional and negative pulse bounds, two fractional bounds inside the same whole microsecond) "
                "followed by command sequences: the power-on getters, every boundary value of the calibration (min, max, middle, +-1/4, +-1/2, 0, 1, True, "
                "negatives including exact negative halves) once as a literal and once as a run-time value (analog_read input +- arithmetic) with both "
                "getters after it, ordered pairs of commands, seeded random sequences of 2-9 commands with interleaved getters; a clamp stream with values "
                "outside the bounds (firmware + device model only); declarations with min >= max, fractional ones included (transpile + host "
                "constructor only). 40 cases per sketch. The witnesses of the repaired findings are replayed before anything else. evaluations = in-guard "
                "cases through the oracle + cases through the clamp oracle + rejected declarations; distinct non-trivial = distinct (setup, library calls, "
                "prints) traces with at least one command.",
        "samples": [case_pub(c) for c in cases[:1] + [c for c in cases if c["family"] == "random"][:1]],
        "distribution": stats,
        "guard": "declaration: literal number arguments, min < max (otherwise both sides must refuse it); commands within the configured bounds (the host "
                 "raises otherwise; exercised in the device-only clamp stream). No listed finding is excluded: F-C04-servo-negative-angle-rounding and "
                 "F-C04-servo-fractional-pulse-bound are repaired (kind fixed), negative levels and fractional pulse bounds are generated and compared",
        "unmodelled": ["float32 arithmetic of the device (exact rationals in the model; commanded values are dyadic so the integer calls are exact, printed "
                       "getters compared to 0.007)", "declaration arguments that are not literals (run-time calibration)", "non-numeric arguments (None)",
                       "the Arduino Servo library itself (the mock records the calls; the real library clamps write() to 0..180 whatever the calibration)"],
        "known_replayed": replayed,
        "trusted_base": ["mock/Servo.h (attach / write / writeMicroseconds events), g++ -O0",
                         "harness/impl/c04_impl.py wraps Servo.write / write_us (completed calls with the angle and pulse they leave)",
                         "harness/props/c04_servo.py (pairing of the k-th declaration of a sketch with the k-th attach; tolerances)", "coq/Wire/C04_servoW.v (codecs)"],
        "assumptions": ["host servo level = (angle, pulse) after each completed write / write_us (DESIGN.md A.2); a completed write(a) stands for the library call "
                        "write(nearest integer of a), a completed write_us(p) for writeMicroseconds(nearest integer of p)"],
    }


def replay_unit(data):
    r = (data.get("case") or {}).get("replay")
    if not r:
        print("replay: no servo case in this file (correspondence / proof failure: see the fields above)")
        return 0
    ctx = C.Ctx("C04", "quick", 0)
    c = case_from_replay(r)
    if not (ordered(c) and parser_accepts(c)):
        c["stream"] = "reject"
        recs, _ = run_batch(ctx, [c])
        print(f"replay: transpile -> {recs[0]['transpile']}, host constructor -> {recs[0]['host_exc']}")
        bad = (recs[0]["host_exc"] is not None) != (recs[0]["transpile"] != "ok")
        if bad:
            print("REPRODUCED [servo-decl-accept]")
        return 1 if bad else 0
    recs, _ = run_batch(ctx, [c])
    rec = recs[0]
    if rec["fw"] is None:
        print("replay:", rec["why"])
        return 1
    F = clamp_failures(c, rec)
    if rec["host"] is not None and not rec.get("host_why"):
        F += oracle_one(c, rec)
    elif rec.get("host_why"):
        print("host:", rec["host_why"])
    for f in F:
        print(f"REPRODUCED [{f['key']}] {f['what']}")
    if not F:
        print("replay: the property holds on this case now")
    return 1 if F else 0
