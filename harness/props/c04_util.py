"""Shared helpers of the C04 units: argument values (literal / run-time), batched sketches, running the same
script as firmware (real parse+emit -> g++ -> mock core) and under CPython against the real host classes."""
from __future__ import annotations

from fractions import Fraction

from harness import common as C
from harness import fw

APIN = "A0"
APIN_NUM = 14
CASES_PER_SKETCH = 40


class Arg:
    """one command argument: a Python value (int / float / bool) written either as a literal or as a run-time
    expression over a fresh analog_read (the transpiler cannot fold it)"""
    __slots__ = ("v", "rt")

    def __init__(self, v, rt=False):
        self.v = v
        self.rt = bool(rt) and Arg.can_rt(v)

    @staticmethod
    def can_rt(v):
        if isinstance(v, bool):
            return False
        if isinstance(v, int):
            return -300 <= v <= 2023
        if isinstance(v, float):
            k = v * 4
            return k == int(k) and -300 <= int(k) <= 723
        return False

    def wire(self):
        v = self.v
        if isinstance(v, bool):
            return [2, v]
        if isinstance(v, int):
            return [0, v]
        return [1, Fraction(v)]

    def frac(self):
        return Fraction(int(self.v) if isinstance(self.v, bool) else self.v)

    def pub(self):
        return {"value": self.v, "kind": "run-time" if self.rt else "literal"}

    def __repr__(self):
        return ("rt:" if self.rt else "") + repr(self.v)


class Builder:
    """script text of one batched sketch + the scripted analogRead values"""

    def __init__(self, imports):
        self.lines = list(imports) + ["", "mon = SerialMonitor(9600)"]
        self.inputs = []
        self.nvar = 0

    def case(self, cid):
        self.lines.append(f'mon.write("##case {cid}")')

    def expr(self, a: Arg) -> str:
        """source text of an argument; run-time arguments first read a scripted analog value"""
        if not a.rt:
            return repr(a.v)
        self.nvar += 1
        name = f"r{self.nvar}"
        self.lines.append(f'{name} = analog_read("{APIN}")')
        if isinstance(a.v, int):
            if 0 <= a.v <= 1023 and a.v % 2 == 0:
                self.inputs.append(a.v)
                return name
            if a.v > 723:
                self.inputs.append(a.v - 1000)
                return f"{name} + 1000"
            self.inputs.append(a.v + 300)
            return f"{name} - 300"
        k = int(a.v * 4)
        if k >= 0:
            self.inputs.append(k)
            return f"{name} / 4.0"
        self.inputs.append(k + 300)
        return f"({name} - 300) / 4.0"

    def add(self, line):
        self.lines.append(line)

    def script(self):
        return "\n".join(self.lines) + "\n"

    def input(self):
        return f"ar {APIN_NUM} " + " ".join(map(str, self.inputs or [0])) + "\n"


def run_firmware(builders):
    """-> per sketch {"ok", "why", "cases": {id: [events]}, "script"}"""
    scripts = [b.script() for b in builders]
    tr = fw.transpile_many(scripts)
    out = [None] * len(builders)
    jobs, where = [], []
    for n, (b, t) in enumerate(zip(builders, tr)):
        if not t.get("ok"):
            out[n] = {"ok": False, "why": f"transpile raised {t.get('exc')}: {t.get('msg')}", "script": scripts[n]}
            continue
        jobs.append({"cpp": t["cpp"], "input": b.input(), "loops": 0, "run_timeout": 60})
        where.append(n)
    for n, r in zip(where, fw.run_sketches(jobs)):
        if not r["compiled"]:
            out[n] = {"ok": False, "why": "emitted C++ does not compile: " + r["compile_log"][-600:], "script": scripts[n]}
        elif r["rc"] != 0:
            out[n] = {"ok": False, "why": f"sketch exit status {r['rc']}: {r['stderr'][-300:]}", "script": scripts[n]}
        else:
            first = next((k for k, e in enumerate(r["events"]) if e.startswith("S ##case ")), len(r["events"]))
            out[n] = {"ok": True, "cases": fw.split_cases(r["events"]), "script": scripts[n], "prelude": r["events"][:first]}
    return out


def run_host(builders):
    """-> per sketch {"ok", "why", "cases": {id: [events]}, "exc"}"""
    jobs = [{"src": b.script(), "input": b.input()} for b in builders]
    out = []
    res = []
    for i in range(0, len(jobs), 50):
        res += C.run_impl("c04_impl.py", {"jobs": jobs[i:i + 50], "timeout": 60}, timeout=60 * 50 + 60)
    for r in res:
        cases = fw.split_cases(r["events"])
        out.append({"ok": r["exc"] is None, "exc": r["exc"], "cases": cases,
                    "why": None if r["exc"] is None else f"host script raised {r['exc']}"})
    return out


def q_of(text):
    n, d = text.split("/")
    return Fraction(int(n), int(d))
