"""C05 - setup()/loop() split: run-once prologue, repeated body, configure-before-use.

Engines
  * correspondence (a): generated scripts -> real parse() -> Program dataclasses, compared node by node with
    the model's IR (coq/Lang/Split.v ir_setup / ir_loop: placement in setup_body / loop_body, order,
    ButtonPoll / LCDTick prefix, global vs local declarations) and parse()'s verdict with transl_ok (break guard);
  * correspondence (b): the same scripts -> real emit() -> g++ against the mock core -> event trace for N passes,
    projected on markers / printed values / polls / ticks / handler output / configuration events, compared with
    the model's exec (coq/Lang/Emit.v);
  * break placement matrix (text level, no model): for every chain of header lines (if / else / elif / try / except variants /
    for / while / nested while True) around a `break`, in the main loop and at the top level: parse() must raise ValueError iff no
    inner loop encloses the break, and no BreakStmt of an accepted Program may sit outside every inner loop node;
  * property oracle: the temporal monitors (configured-before-use, one mode per pin, housekeeping exactly once at
    the head of every pass, no pass cut short) evaluated on the REAL traces twice - by the extracted Gallina
    predicates (cbu / one_mode / hk_ok) and by an independent Python re-implementation (they must agree) - and the
    firmware's markers / values compared with CPython's (harness/impl/pyrun_impl.py) for every N in {0,1,2,3},
    for EVERY script parse() accepts (no guard on variables since the repair of F-C05-looplocal-reinit: names first
    assigned inside `while True:` persist); a script with anything after the main loop must be rejected with ValueError
    (repair of F-C05-postloop-in-setup / F-C05-second-main-loop-appended) - if one is accepted again it is compared
    with CPython like every other accepted script;
  * animations started from helper functions (harness/props/c05_animfn.py, text level): the LCD contents after setup() and after
    every pass must equal those of the inline spelling of the same script (each started animation ticked once per pass on its own state);
  * pin EXPRESSIONS (harness/props/c05_pinexpr.py, coq/Lang/EmitPin.v): straight-line scripts whose devices take `pin`, `pin + k`
    as pin arguments with the variable re-assigned between declarations; the EXECUTED firmware trace with numeric pins is compared
    with the model's and, inside the model's guard `pins_tracked`, judged by the configured-before-use monitor."""
from __future__ import annotations

import re

from harness import common as C
from harness import fw
from harness.props import c05_pinexpr as PX
from harness.props import c05_animfn as AF

META = {
    "id": "C05",
    "technique": "Coq proof (induction over item lists, nested statements and the number of passes) about a Gallina model of parse()'s setup/loop split and emit()'s configuration hoisting + extracted-model correspondence with the real Program IR and with compiled firmware traces + extracted temporal monitors run on real traces + CPython reference traces",
    "level_text": "Theorems C05_* (coq/Props/C05.v) are proved for all item lists, all input histories and all N>=0 about the model coq/Lang/Split.v + coq/Lang/Emit.v (split, poll/tick injection, break guard through if / else / try / except / for / while nesting, global/local variable lifetime incl. names promoted out of if-else / for / while / try-except blocks, configuration hoisting with emit()'s dedup sets, the binding each command resolves to when a device name is bound several times); the model is run against the real parse() IR and against the emitted C++ compiled with g++ and executed under the mock Arduino core; the proved monitors are extracted and evaluated on the real traces.",
    "level_note": "Trusted: Coq kernel, extraction, OCaml driver, mock Arduino core (definition of 'device'), CPython 3.12 + harness/impl/pyrun_impl.py (definition of 'what Python does'), the script renderer and trace abstraction in harness/props/c05.py. The theorems are about the model; the correspondence bounds its distance from parser.py / emitter.py on the generated fragment.",
    "design_ref": "DESIGN.md section 4 C05, Appendix B.1, B.5",
}

KINDS = ["Led", "RGB", "Servo", "Motor", "Button", "Pot", "Ultra", "Buzzer", "Lcd", "Serial"]
KIDX = {k: i for i, k in enumerate(KINDS)}
HOISTED = ["Led", "RGB", "Servo", "Motor", "Button", "Pot", "Ultra"]
NPINS = {"Led": 1, "RGB": 3, "Servo": 1, "Motor": 3, "Button": 1, "Pot": 1, "Ultra": 2, "Buzzer": 1, "Serial": 0}
NAME_POOL = {
    "Led": ["led", "Led2", "l_a", "status"], "RGB": ["rgb", "RGB1", "px"], "Servo": ["sv", "arm", "S9"],
    "Motor": ["mt", "drive", "M_L"], "Button": ["b2", "b10", "Btn", "a_key", "zb", "_k"],
    "Pot": ["pot", "knob", "P0"], "Ultra": ["us", "sonar"], "Buzzer": ["bz", "beep"],
    "Lcd": ["lcd", "LcdB", "disp", "_d"], "Serial": ["mon"],
}
CORE_PIN = 13
VAL_LIMIT = 100000      # printed ints >= this are device read-outs, not SShow values
SLEEP_BASE = 1000       # sleep(SLEEP_BASE + id) is marker id

HEADER = (
    "from Reduino.Actuators import Led, RGBLed, Servo, DCMotor, Buzzer\n"
    "from Reduino.Sensors import Button, Potentiometer, Ultrasonic\n"
    "from Reduino.Displays import LCD\n"
    "from Reduino.Communication import SerialMonitor\n"
    "from Reduino.Utils import sleep\n"
    "from Reduino.Core import pin_mode, analog_write, OUTPUT\n"
)


# ----------------------------------------------------------------------------------------------
# abstract programs (mirror of coq/Lang/Split.v), their wire encoding and their Python rendering
# statements: ("mark", id, dev|None, form) ("decl", kind, name, pins, handler|None, extra)
#             ("set", x, ("const", z) | ("add", y, z)) ("show", dev, x) ("anim", lcd, row) ("break",)
#             ("if", x, body) ("for", cnt, body)
# items:      ("stmt", s) ("main", body) ("func", f, body)
# ----------------------------------------------------------------------------------------------

def enc_stmt(s):
    t = s[0]
    if t == "mark":
        return [0, s[1], [s[2]] if s[2] is not None else []]
    if t == "decl":
        return [1, [KIDX[s[1]], s[2], list(s[3]), [s[4]] if s[4] is not None else []]]
    if t == "set":
        e = s[2]
        return [2, s[1], [0, e[1]] if e[0] == "const" else [1, e[1], e[2]]]
    if t == "show":
        return [3, s[1], s[2]]
    if t == "anim":
        return [4, s[1]]
    if t == "break":
        return [5]
    if t == "if":
        if len(s) > 3 and s[3]:
            return [6, s[1], [enc_stmt(x) for x in s[2]], [enc_stmt(x) for x in s[3]]]
        return [6, s[1], [enc_stmt(x) for x in s[2]]]
    if t == "for":
        return [7, s[1], [enc_stmt(x) for x in s[2]]]
    if t == "while":
        return [8, s[1], [enc_stmt(x) for x in s[2]]]
    if t == "try":
        return [9, [enc_stmt(x) for x in s[1]], [enc_stmt(x) for x in s[2]]]
    raise ValueError(s)


def sub_blocks(s):
    """the nested statement lists of a compound statement (textual order)"""
    t = s[0]
    if t == "if":
        return [s[2]] + ([s[3]] if len(s) > 3 and s[3] else [])
    if t in ("for", "while"):
        return [s[2]]
    if t == "try":
        return [s[1], s[2]]
    return []


def flatten_seq(stmts):
    """("seq", [..]) groups (statements the generator keeps adjacent) -> plain statement lists, recursively"""
    out = []
    for s in stmts:
        if s[0] == "seq":
            out.extend(flatten_seq(s[1]))
        elif s[0] == "if":
            out.append(("if", s[1], flatten_seq(s[2])) + ((flatten_seq(s[3]),) if len(s) > 3 and s[3] else ()))
        elif s[0] in ("for", "while"):
            out.append((s[0], s[1], flatten_seq(s[2])))
        elif s[0] == "try":
            out.append(("try", flatten_seq(s[1]), flatten_seq(s[2])))
        else:
            out.append(s)
    return out


def bad_breaks(stmts, ld=0):
    """number of `break` statements whose innermost enclosing loop is not an inner for / while (ld = inner loop depth):
    at the top level / in a function they are outside any loop, in the body of the main `while True:` they would leave it"""
    n = 0
    for s in stmts:
        if s[0] == "break":
            n += 1 if ld == 0 else 0
        elif s[0] in ("for", "while"):
            n += bad_breaks(s[2], ld + 1)
        else:
            for b in sub_blocks(s):
                n += bad_breaks(b, ld)
    return n


def must_reject(prog):
    return sum(bad_breaks([it[1]] if it[0] == "stmt" else it[-1]) for it in prog["items"]) > 0


def after_main(prog):
    """a top-level statement / def / second `while True:` stands after the main loop (unreachable in Python):
    parse() raises ValueError since the repair of F-C05-postloop-in-setup / F-C05-second-main-loop-appended"""
    kinds = [it[0] for it in prog["items"]]
    return "main" in kinds and kinds.index("main") < len(kinds) - 1


def loop_first_names(prog):
    """names whose first assignment (text order) is inside `while True:` (at any depth): sketch globals since the
    repair of F-C05-looplocal-reinit"""
    seen, out = set(), []
    for it in prog["items"]:
        if it[0] == "func":
            continue
        for st in walk_stmts([it[1]] if it[0] == "stmt" else it[1]):
            if st[0] == "set" and st[1] not in seen:
                seen.add(st[1])
                if it[0] == "main":
                    out.append(st[1])
    return out


def enc_item(it):
    if it[0] == "stmt":
        return [0, enc_stmt(it[1])]
    if it[0] == "main":
        return [1, [enc_stmt(x) for x in it[1]]]
    return [2, it[1], [enc_stmt(x) for x in it[2]]]


def enc_items(items):
    return [enc_item(i) for i in items]


def enc_inputs(inputs):
    return [[p, list(v)] for p, v in sorted(inputs.items())]


def pot_pin_text(p):
    return f"A{p - 14}"


def render_stmt(s, ind, prog, out):
    pad = "    " * ind
    t = s[0]
    if t == "mark":
        _, mid, dev, form = s
        if form == "ser":
            out.append(f'{pad}{dev}.write("m{mid}")')
        elif form == "sleep":
            out.append(f"{pad}sleep({SLEEP_BASE + mid})")
        elif form == "core":
            out.append(f"{pad}analog_write({CORE_PIN}, {mid})")
        elif form == "pm13":
            out.append(f"{pad}pin_mode({CORE_PIN}, OUTPUT)")
        elif form == "Led":
            out.append(f"{pad}{dev}.{'on' if mid % 2 else 'off'}()")
        elif form == "Led_t":
            out.append(f"{pad}{dev}.toggle()")
        elif form == "RGB":
            out.append(f"{pad}{dev}.set_color({mid % 200 + 1}, 2, 3)")
        elif form == "Servo":
            out.append(f"{pad}{dev}.write({mid % 170 + 5})")
        elif form == "Motor":
            out.append(f"{pad}{dev}.set_speed(0.5)")
        elif form == "Buzzer":
            out.append(f"{pad}{dev}.play_tone({300 + mid})")
        elif form == "Lcd":
            out.append(f'{pad}{dev}.write(0, {prog["lcd_user_row"][dev]}, "u{mid}")')
        elif form == "Pot":
            out.append(f"{pad}mon.write({dev}.read() + {VAL_LIMIT})")
        elif form == "Ultra":
            out.append(f"{pad}mon.write({dev}.measure_distance())")
        else:
            raise ValueError(form)
    elif t == "decl":
        _, kind, name, pins, handler, extra = s
        if kind == "Led":
            out.append(f"{pad}{name} = Led({pins[0]})")
        elif kind == "RGB":
            out.append(f"{pad}{name} = RGBLed({pins[0]}, {pins[1]}, {pins[2]})")
        elif kind == "Servo":
            out.append(f"{pad}{name} = Servo({pins[0]})")
        elif kind == "Motor":
            out.append(f"{pad}{name} = DCMotor({pins[0]}, {pins[1]}, {pins[2]})")
        elif kind == "Button":
            out.append(f"{pad}{name} = Button({pins[0]}" + (f", on_click={handler})" if handler else ")"))
        elif kind == "Pot":
            out.append(f'{pad}{name} = Potentiometer("{pot_pin_text(pins[0])}")')
        elif kind == "Ultra":
            out.append(f"{pad}{name} = Ultrasonic({pins[0]}, {pins[1]})")
        elif kind == "Buzzer":
            out.append(f"{pad}{name} = Buzzer({pins[0]})")
        elif kind == "Lcd":
            if extra.get("i2c"):
                out.append(f"{pad}{name} = LCD(i2c_addr=0x27, cols=16, rows=4)")
            else:
                w = extra["wires"]
                bl = f", backlight_pin={pins[0]}" if pins else ""
                out.append(f"{pad}{name} = LCD(rs={w[0]}, en={w[1]}, d4={w[2]}, d5={w[3]}, d6={w[4]}, d7={w[5]}, cols=16, rows=4{bl})")
        elif kind == "Serial":
            out.append(f"{pad}{name} = SerialMonitor(9600)")
    elif t == "set":
        _, x, e = s
        if e[0] == "const":
            out.append(f"{pad}{x} = {e[1]}")
        elif e[1] == x and prog.get("augmented") and (len(out) + e[2]) % 3 == 0:
            out.append(f"{pad}{x} += {e[2]}" if e[2] >= 0 else f"{pad}{x} -= {-e[2]}")
        elif e[2] >= 0:
            out.append(f"{pad}{x} = {e[1]} + {e[2]}")
        else:
            out.append(f"{pad}{x} = {e[1]} - {-e[2]}")
    elif t == "show":
        out.append(f"{pad}{s[1]}.write({s[2]})")
    elif t == "anim":
        out.append(f'{pad}{s[1]}.animate("scroll", {s[2]}, "abcdefghijklmnopqrstuvwxyz", speed_ms=0, loop=True)')
    elif t == "break":
        out.append(f"{pad}break")
    elif t == "if":
        out.append(f"{pad}if {s[1]}:")
        for x in s[2]:
            render_stmt(x, ind + 1, prog, out)
        if len(s) > 3 and s[3]:
            out.append(f"{pad}else:")
            for x in s[3]:
                render_stmt(x, ind + 1, prog, out)
    elif t == "while":
        out.append(f"{pad}while {s[1]}:")
        for x in s[2]:
            render_stmt(x, ind + 1, prog, out)
    elif t == "try":
        out.append(f"{pad}try:")
        for x in s[1]:
            render_stmt(x, ind + 1, prog, out)
        out.append(f"{pad}except:")
        for x in s[2]:
            render_stmt(x, ind + 1, prog, out)
    elif t == "for":
        prog["_uid"] = prog.get("_uid", 0) + 1
        out.append(f"{pad}for _i{prog['_uid']} in range({s[1]}):")
        for x in s[2]:
            render_stmt(x, ind + 1, prog, out)


# comments (since /repo 3df520b "comments never change the block structure the parser sees" they are inside the guard):
# a trailing comment on the main-loop header, and comment-only lines at any column between any two lines of the script
COMMENT_TEXTS = ["# forever", "# main loop", "#x", "# loop: \"forever\" 'q'", "# while True:", "# if flag:", "# break",
                 "#", "# else:", "# def f():", "# mon.write(\"m0\")"]
COMMENT_COLS = [0, 0, 0, 1, 2, 4, 4, 6, 8, 8, 12, 16]


def decorate(lines, rng, stats=None):
    """lines of a rendered script (after the import header) -> the same script with comments; Python ignores all of them"""
    out = []
    n_head = n_line = 0
    for ln in lines:
        if ln == "while True:" and rng.random() < 0.7:
            ln = "while True:" + rng.choice(["  ", " ", "", "   "]) + rng.choice(COMMENT_TEXTS)
            n_head += 1
        if rng.random() < 0.12:
            out.append(" " * rng.choice(COMMENT_COLS) + rng.choice(COMMENT_TEXTS))     # also BEFORE the first statement of a block
            n_line += 1
        out.append(ln)
        if rng.random() < 0.12:
            out.append(" " * rng.choice(COMMENT_COLS) + rng.choice(COMMENT_TEXTS))
            n_line += 1
    return out, n_head, n_line


def render(prog, rng=None):
    prog["_uid"] = 0
    out = []
    for it in prog["items"]:
        if it[0] == "stmt":
            render_stmt(it[1], 0, prog, out)
        elif it[0] == "main":
            out.append("while True:")
            for x in it[1]:
                render_stmt(x, 1, prog, out)
        else:
            out.append(f"def {it[1]}():")
            for x in it[2]:
                render_stmt(x, 1, prog, out)
    prog["comments"] = (0, 0)
    if rng is not None and rng.random() < 0.5:
        out, n_head, n_line = decorate(out, rng)
        prog["comments"] = (n_head, n_line)
    return "\n".join([HEADER.rstrip("\n")] + out) + "\n"


def walk_stmts(stmts):
    for s in stmts:
        yield s
        for blk in sub_blocks(s):
            yield from walk_stmts(blk)


def all_stmts(prog):
    for it in prog["items"]:
        if it[0] == "stmt":
            yield from walk_stmts([it[1]])
        else:
            yield from walk_stmts(it[-1])


# ----------------------------------------------------------------------------------------------
# generator
# ----------------------------------------------------------------------------------------------

class Builder:
    def __init__(self, rng):
        self.rng = rng
        self.next_mark = 1
        self.pins = [p for p in range(2, 13)] + [p for p in range(22, 54)]
        rng.shuffle(self.pins)
        self.pins = [p for p in range(99, 59, -1)] + self.pins      # reserve: popped only when the board pins are used up
        self.apins = [14, 15, 16, 17, 18, 19]
        rng.shuffle(self.apins)
        self.apins = [21, 20] + self.apins
        self.used_names = set()
        self.marks = {}          # id -> form
        self.devs = {}           # name -> (kind, pins, where)
        self.inputs = {}
        self.lcd_user_row = {}
        self.lcd_anim_rows = {}
        self.lcd_order = []
        self.handlers = {}       # handler name -> mark id

    def mark(self, dev, form):
        mid = self.next_mark
        self.next_mark += 1
        self.marks[mid] = form
        return ("mark", mid, dev, form)

    def free_mark(self, mon, allow_core):
        forms = ["ser", "ser", "sleep"] + (["core"] if allow_core and self.next_mark <= 255 else [])
        f = self.rng.choice(forms)
        return self.mark(mon if f == "ser" else None, f)

    def name(self, kind):
        cands = [n for n in NAME_POOL[kind] if n not in self.used_names]
        n = self.rng.choice(cands) if cands else f"{kind.lower()}{len(self.used_names)}"
        self.used_names.add(n)
        return n

    def decl(self, kind, where, handler=None):
        name = self.name(kind)
        extra = {}
        if kind == "Pot":
            pins = [self.apins.pop()]
        elif kind == "Lcd":
            if self.rng.random() < 0.25:
                extra["i2c"] = True
                pins = []
            else:
                extra["wires"] = [self.pins.pop() for _ in range(6)]
                pins = [self.pins.pop()] if self.rng.random() < 0.4 else []
            self.lcd_user_row[name] = 3
            self.lcd_anim_rows[name] = []
            self.lcd_order.append(name)
        else:
            pins = [self.pins.pop() for _ in range(NPINS[kind])]
        if kind == "Button":
            self.inputs[pins[0]] = [self.rng.randint(0, 1) for _ in range(self.rng.randint(1, 6))]
        self.devs[name] = (kind, pins, where)
        return ("decl", kind, name, pins, handler, extra)

    def use(self, name):
        kind = self.devs[name][0]
        return self.use_kind(name, kind)

    def use_kind(self, name, kind):
        form = kind
        if kind == "Led" and self.rng.random() < 0.3:
            form = "Led_t"
        return self.mark(name, form)

    def fresh_pins(self, kind):
        if kind == "Pot":
            return [self.apins.pop()]
        return [self.pins.pop() for _ in range(NPINS[kind])]

    def raw_decl(self, kind, name, pins, where):
        """a declaration of an already used name (re-binding) or with chosen pins (sharing)"""
        key = name
        while key in self.devs:
            key += "#"
        self.used_names.add(name)
        if kind == "Button":
            self.inputs.setdefault(pins[0], [self.rng.randint(0, 1) for _ in range(self.rng.randint(1, 6))])
        self.devs[key] = (kind, list(pins), where)
        return ("decl", kind, name, list(pins), None, {})


def gen_program(rng, cls, force=None):
    """cls: plain | devices | vars | nested | mix | nomain | postloop | twoloops | looplocal_top | looplocal_ok | looplocal_if |
            looplocal_for | looplocal_deep | setup_inner | break_nested | break_main | break_main_if | break_top | break_setup_for"""
    b = Builder(rng)
    items = []
    mon = "mon"
    b.used_names.add(mon)
    b.devs[mon] = ("Serial", [], "setup")
    items.append(("stmt", ("decl", "Serial", mon, [], None, {})))
    rich = cls in ("devices", "mix", "nomain", "postloop", "twoloops", "hk_many") or (cls.startswith("break") and rng.random() < 0.3) \
        or (cls in ("rebind", "rebind_x", "share", "multi", "serial_late") and rng.random() < 0.5 and force is None)
    use_vars = cls in ("vars", "mix", "nested", "nomain") or cls.startswith("looplocal") or cls == "setup_inner" or rng.random() < 0.3
    use_nested = cls in ("nested", "mix", "break_nested") or rng.random() < (0.5 if cls in ("rebind", "rebind_x", "share", "multi") else 0.25)
    allow_core = rng.random() < 0.5
    if allow_core:
        items.append(("stmt", b.mark(None, "pm13")))

    setup_kinds, loop_kinds = [], []
    if rich:
        pool = [k for k in KINDS if k != "Serial"]
        setup_kinds = rng.sample(pool, rng.randint(1, len(pool))) if rng.random() < 0.7 else list(pool)
        if rng.random() < 0.3:
            setup_kinds.append("Button")
        if rng.random() < 0.2:
            setup_kinds.append("Lcd")
        loop_kinds = rng.sample(HOISTED, rng.randint(0, 4)) if cls != "nomain" else []
        if rng.random() < 0.15:
            loop_kinds = list(HOISTED)
        if cls == "hk_many":
            # several buttons (before the loop and at its top) and several animated LCDs
            setup_kinds = ["Button"] * rng.randint(1, 3) + ["Lcd"] * rng.randint(2, 3) + rng.sample(["Led", "Servo", "Pot"], rng.randint(0, 2))
            loop_kinds = ["Button"] * rng.randint(1, 2) + rng.sample(["Led", "Ultra"], rng.randint(0, 1))

    # handlers (must be defined before the Button(...) call runs)
    n_handlers = sum(1 for k in setup_kinds + loop_kinds if k == "Button")
    hnames = []
    for i in range(n_handlers):
        if rng.random() < 0.7:
            h = f"on_{i}"
            body = [b.mark(mon, "ser") for _ in range(rng.randint(1, 2))]
            for m in body:
                b.marks[m[1]] = "hand"
            items.append(("func", h, body))
            hnames.append(h)
        else:
            hnames.append(None)

    # variables
    gvars = []
    if use_vars:
        for i in range(rng.randint(1, 3)):
            gvars.append(rng.choice(["g", "cnt", "total", "k"]) + str(i))
    flag = "flag" if (use_nested or cls in ("looplocal_if", "looplocal_deep", "setup_inner", "rebind", "rebind_x") or cls.startswith("break")) else None

    setup = []       # statements before the main loop (after mon/pm13/handlers)
    declared_devs = [mon]
    for k in setup_kinds:
        h = hnames.pop() if k == "Button" and hnames else None
        setup.append(b.decl(k, "setup", h))
    rng.shuffle(setup)
    # interleave other statements, keeping "declared before use"
    seq = []
    assigned = []
    for gi, v in enumerate(gvars):
        if gi > 0 and rng.random() < 0.5:
            # first assignment from a run-time expression: a global with a default initialiser + an assignment in setup()
            seq.append(("set", v, ("add", gvars[rng.randrange(gi)], rng.randint(1, 4))))
        else:
            seq.append(("set", v, ("const", rng.randint(-2, 5))))
    if flag:
        seq.append(("set", flag, ("const", rng.randint(0, 1))))
    for _ in range(rng.randint(1, 5)):
        seq.append(b.free_mark(mon, allow_core))
    merged = []
    pend_decl, pend_other = list(setup), list(seq)
    while pend_decl or pend_other:
        if pend_decl and (not pend_other or rng.random() < 0.5):
            d = pend_decl.pop(0)
            merged.append(d)
            declared_devs.append(d[2])
            if d[1] == "Lcd":
                for row in rng.sample([0, 1, 2], rng.choice([0, 1, 1, 2])):
                    merged.append(("anim", d[2], row))
                    b.lcd_anim_rows[d[2]].append(row)
            if rng.random() < 0.5 and d[1] not in ("Button", "Serial"):
                merged.append(b.use(d[2]))
        else:
            s = pend_other.pop(0)
            merged.append(s)
            if s[0] == "set":
                assigned.append(s[1])
            if assigned and rng.random() < 0.3:
                merged.append(("show", mon, rng.choice(assigned)))
            if assigned and rng.random() < 0.2:
                x = rng.choice(assigned)
                merged.append(("set", x, ("add", rng.choice(assigned), rng.randint(-2, 3))))

    loop_locals = []
    while_counters = []

    def block(depth, in_loop, allow_break):
        """a nested block over already-assigned names"""
        body = []
        for _ in range(rng.randint(1, 3)):
            r = rng.random()
            if r < 0.45:
                body.append(b.free_mark(mon, allow_core))
            elif r < 0.6 and assigned:
                body.append(("show", mon, rng.choice(assigned)))
            elif r < 0.75 and assigned:
                x = rng.choice(assigned)
                body.append(("set", x, ("add", rng.choice(assigned), rng.randint(-1, 2))))
            elif r < 0.85 and len(declared_devs) + len(loop_locals) > 1:
                cands = [d for d in declared_devs + (loop_locals if in_loop else []) if b.devs[d][0] not in ("Button", "Serial")]
                if cands:
                    body.append(b.use(rng.choice(cands)))
            elif depth < 2:
                body.append(block(depth + 1, in_loop, allow_break))
        if not body:
            body.append(b.free_mark(mon, allow_core))

        def small():
            return [b.free_mark(mon, allow_core)] + ([("show", mon, rng.choice(assigned))] if assigned and rng.random() < 0.4 else [])

        def brk_form():
            # a legal break of the enclosing inner loop, bare or behind if / else / try / except lines
            r = rng.random()
            if r < 0.35 or not flag:
                return rng.choice([("break",), ("try", small(), [("break",)]), ("try", [("break",)], small())]) if r < 0.2 or not flag else ("break",)
            if r < 0.55:
                return ("if", flag, [("break",)])
            if r < 0.7:
                return ("if", flag, small(), [("break",)])
            if r < 0.8:
                return ("try", small(), [("if", flag, small(), [("break",)])])
            if r < 0.9:
                return ("try", [("if", flag, [("break",)])], small())
            return ("try", small(), [("break",)])

        r = rng.random()
        if r < 0.4 and flag:
            cond = flag if rng.random() < 0.7 or not assigned else rng.choice(assigned)
            if rng.random() < 0.4:
                return ("if", cond, body, small())
            return ("if", cond, body)
        if r < 0.52:
            return ("try", body, small())
        if allow_break and rng.random() < 0.6:
            body.insert(rng.randint(0, len(body)), brk_form())
        if r < 0.7:
            # `while wc:` with its own counter: declared at setup depth 0, set right before the loop, decremented first thing
            wc = f"wc{len(while_counters)}"
            while_counters.append(wc)
            return ("seq", [("set", wc, ("const", rng.randint(0, 3))), ("while", wc, [("set", wc, ("add", wc, -1))] + body)])
        return ("for", rng.randint(0, 3), body)

    if use_nested:
        for _ in range(rng.randint(0, 2)):
            merged.append(block(0, False, cls == "break_setup_for" or rng.random() < 0.3))
            if rng.random() < 0.5:
                merged.append(b.free_mark(mon, allow_core))
    if cls == "setup_inner" and flag:
        # a name first assigned two levels below setup depth 0 (hoisted twice; the inner hoisted declaration is dropped)
        w = "w0"
        merged.append(("for", 3, [("if", flag, [("set", w, ("const", 5)), ("set", flag, ("const", 0))]), ("show", mon, w)]))
    if cls == "break_top":
        merged.insert(rng.randint(0, len(merged)), ("break",) if rng.random() < 0.5 or not flag else ("if", flag, [("break",)]))
    if cls == "break_setup_for":
        merged.append(("for", 2, [b.free_mark(mon, allow_core), ("break",), b.free_mark(mon, allow_core)]))
    extra_loop_decls, extra_loop_uses = [], []

    def insert_seq(seq):
        """insert the statements of seq into merged at increasing random positions (order preserved)"""
        pos = 0
        for st in seq:
            pos = rng.randint(pos, len(merged))
            merged.insert(pos, st)
            pos += 1

    def usable_kind(k):
        return k not in ("Button",)

    def ruse(nm_, k_):
        # a method that only class k_ has: `on` / `off` of a name that was ever an RGBLed are parsed as RGBLed commands
        return b.mark(nm_, "Led_t" if k_ == "Led" else k_)

    if cls in ("rebind", "rebind_x"):
        # the same variable bound to a device more than once: twice before the main loop, before it and at the top
        # of its body, twice at the top of the body - same / different pins, same / different kinds (hoisted set)
        for ri in range(rng.randint(1, 2) if force is None else 1):
            nm = ["dv", "unit", "R_b"][ri] if rng.random() < 0.8 else rng.choice(["zz9", "A_dev", "dd"]) + str(ri)
            shape = rng.choice(["pre_loop", "pre_loop", "pre_pre", "loop_loop", "pre_pre_loop", "pre_loop_loop"])
            if force is not None:
                shape = force["shape"]
            n_pre = {"pre_loop": 1, "pre_pre": 2, "loop_loop": 0, "pre_pre_loop": 2, "pre_loop_loop": 1}[shape]
            n_loop = {"pre_loop": 1, "pre_pre": 0, "loop_loop": 2, "pre_pre_loop": 1, "pre_loop_loop": 2}[shape]
            if cls == "nomain":
                n_loop = 0
            k0 = rng.choice(HOISTED)
            seq_kinds = []
            for j in range(n_pre + n_loop):
                seq_kinds.append(k0 if (cls == "rebind" or rng.random() < 0.3) else rng.choice(HOISTED))
            if force is not None:
                seq_kinds = [force["kinds"][j % len(force["kinds"])] for j in range(n_pre + n_loop)]
            if "Servo" in seq_kinds and "Pot" in seq_kinds:
                # `read` is a method of both classes: for a name that was ever a Servo the parser emits the Servo getter
                seq_kinds = [("Ultra" if k == "Pot" else k) for k in seq_kinds]
            prev = None
            pre_seq, last_kind = [], None
            for j, k in enumerate(seq_kinds):
                if force is not None and prev is not None and prev[0] == k and force["pins"] in ("same", "diff"):
                    pins = list(prev[1]) if force["pins"] == "same" else b.fresh_pins(k)
                elif prev is not None and prev[0] == k and rng.random() < 0.35:
                    pins = list(prev[1])                                   # same pins again
                elif prev is not None and prev[0] == k and NPINS[k] > 1 and rng.random() < 0.3:
                    pins = b.fresh_pins(k)
                    pins[rng.randrange(len(pins))] = prev[1][rng.randrange(len(prev[1]))]   # one pin kept (maybe in another role)
                    if len(set(pins)) < len(pins):
                        pins = b.fresh_pins(k)
                elif prev is not None and prev[0] != k and k != "Pot" and prev[0] != "Pot" and rng.random() < 0.25 \
                        and {k, prev[0]} <= {"Led", "RGB", "Motor"}:
                    pins = b.fresh_pins(k)
                    pins[0] = prev[1][0]                                   # an output pin handed to another output device
                else:
                    pins = b.fresh_pins(k)
                where = "setup" if j < n_pre else "loop"
                d = b.raw_decl(k, nm, pins, where)
                prev = (k, pins)
                if where == "setup":
                    pre_seq.append(d)
                    if force is not None:
                        want = force["use"] is True or (force["use"] == "last" and j == n_pre - 1)
                    else:
                        want = rng.random() < 0.6
                    if usable_kind(k) and want:
                        pre_seq.append(ruse(nm, k))
                else:
                    extra_loop_decls.append(d)
                    if usable_kind(k) and j < len(seq_kinds) - 1 and rng.random() < 0.3:
                        extra_loop_decls.append(ruse(nm, k))     # a command between two loop-top declarations
                last_kind = k
            insert_seq(pre_seq)
            if last_kind and usable_kind(last_kind):
                for _ in range(rng.randint(1, 2)):
                    extra_loop_uses.append(ruse(nm, last_kind))
                if flag and rng.random() < 0.5:
                    extra_loop_uses.append(("if", flag, [ruse(nm, last_kind)]))
    if cls == "share":
        # different devices legitimately on one pin (same mode): Led + Ultrasonic trig, Led + Led, Led + RGB channel,
        # Button + Button, Potentiometer + Potentiometer, Led + DCMotor input, Buzzer + Led
        for si in range(rng.randint(1, 3)):
            pair = rng.choice([("Led", "Ultra"), ("Led", "Led"), ("Led", "RGB"), ("Button", "Button"),
                               ("Led", "Motor"), ("Buzzer", "Led"), ("Ultra", "Led"), ("RGB", "RGB"), ("Motor", "Led")])
            n1, n2 = f"sa{si}", f"sb{si}"
            p1 = b.fresh_pins(pair[0])
            p2 = b.fresh_pins(pair[1])
            p2[0] = p1[0]
            w1 = "setup"
            w2 = "loop" if (pair[1] in HOISTED and cls != "nomain" and rng.random() < 0.5) else "setup"
            d1, d2 = b.raw_decl(pair[0], n1, p1, w1), b.raw_decl(pair[1], n2, p2, w2)
            seq = [d1] + ([b.use_kind(n1, pair[0])] if usable_kind(pair[0]) and rng.random() < 0.6 else [])
            if w2 == "setup":
                seq += [d2] + ([b.use_kind(n2, pair[1])] if usable_kind(pair[1]) and rng.random() < 0.6 else [])
            else:
                extra_loop_decls.append(d2)
            insert_seq(seq)
            for n_, k_ in ((n1, pair[0]), (n2, pair[1])):
                if usable_kind(k_) and rng.random() < 0.7:
                    extra_loop_uses.append(b.use_kind(n_, k_))
    if cls == "multi":
        # several devices of one kind, before the loop and at its top
        k = rng.choice(HOISTED + ["Buzzer"])
        for mi in range(rng.randint(2, 4)):
            n_ = f"{k.lower()}_{mi}"
            w = "loop" if (k in HOISTED and rng.random() < 0.5) else "setup"
            d = b.raw_decl(k, n_, b.fresh_pins(k), w)
            if w == "setup":
                insert_seq([d] + ([b.use_kind(n_, k)] if usable_kind(k) and rng.random() < 0.5 else []))
            else:
                extra_loop_decls.append(d)
            if usable_kind(k):
                extra_loop_uses.append(b.use_kind(n_, k))
    merged[:] = flatten_seq(merged)
    if cls == "serial_late":
        # SerialMonitor declared as late as Python allows: right before the first statement that prints
        def mentions_mon(st):
            return any((x[0] == "mark" and (x[2] == mon or x[3] in ("Pot", "Ultra"))) or x[0] == "show" for x in walk_stmts([st]))
        first = next((i for i, st in enumerate(merged) if mentions_mon(st)), len(merged))
        mon_decl = items.pop(0)
        assert mon_decl[1][0] == "decl" and mon_decl[1][1] == "Serial"
        if any(it[0] == "stmt" and mentions_mon(it[1]) for it in items):
            items.insert(0, mon_decl)
        else:
            merged.insert(first, mon_decl[1])
    pre_items_mark = len(items)
    for s in merged:
        items.append(("stmt", s))

    starts = []

    def loop_body(first):
        body = []
        local_devs = []
        if first:
            for k in loop_kinds:
                h = hnames.pop() if k == "Button" and hnames else None
                d = b.decl(k, "loop", h)
                body.append(d)
                local_devs.append(d[2])
                loop_locals.append(d[2])
            body.extend(extra_loop_decls)
        start = b.mark(mon, "ser")              # start-of-pass sentinel: the first user statement
        starts.append(start[1])
        body.insert(next((i for i, st in enumerate(body) if st[0] != "decl"), len(body)), start)
        n_fixed = len(body)
        rest = []
        for _ in range(rng.randint(1, 4)):
            rest.append(b.free_mark(mon, allow_core))
        usable = [d for d in declared_devs + local_devs if b.devs[d][0] not in ("Button", "Serial")]
        for d in rng.sample(usable, min(len(usable), rng.randint(0, 4))):
            rest.append(b.use(d))
        for v in gvars:
            if rng.random() < 0.8:
                rest.append(("set", v, ("add", rng.choice(gvars), rng.randint(-2, 3))))
            if rng.random() < 0.8:
                rest.append(("show", mon, v))
        if flag and rng.random() < 0.5:
            rest.append(("set", flag, ("const", rng.randint(0, 1))))
        if first:
            rest.extend(extra_loop_uses)
        if use_nested:
            for _ in range(rng.randint(1, 2)):
                rest.append(block(0, True, cls == "break_nested" or rng.random() < 0.4))
        rng.shuffle(rest)
        body += rest
        if cls == "looplocal_top":
            src = rng.choice(gvars)
            body.insert(n_fixed, ("set", "t0", ("add", src, 1)))
            body.append(("show", mon, "t0"))
        if cls == "looplocal_ok":
            # locals of loop() assigned by top-level statements before anything reads them (inside vars_ok)
            src = rng.choice(gvars)
            l1, l2 = "loc_a", "locB"
            head = [("set", l1, ("add", src, rng.randint(-1, 2)))]
            if rng.random() < 0.6:
                head.append(("set", l2, ("add", l1, rng.randint(1, 3))))
            else:
                head.append(("set", l2, ("const", rng.randint(0, 2))))
            body[n_fixed:n_fixed] = head
            tail = [("show", mon, l1), ("if", l2, [b.free_mark(mon, allow_core), ("set", src, ("add", l1, 1)), ("show", mon, l2)]),
                    ("for", rng.randint(1, 2), [("show", mon, l2), ("set", l2, ("add", l2, 1))]),
                    ("set", l1, ("add", l2, 1)), ("show", mon, l1)]
            body += tail[:rng.randint(2, len(tail))]
        if cls == "looplocal_for":
            src = rng.choice(gvars)
            body.append(("for", 2, [("set", "u0", ("add", src, 1)), ("show", mon, "u0")]))
        if cls == "looplocal_if":
            body.insert(n_fixed, ("if", flag, [("set", "c0", ("const", rng.randint(0, 3))), ("set", flag, ("const", 0))]))
            body.append(("set", "c0", ("add", "c0", 1)))
            body.append(("show", mon, "c0"))
        if cls == "looplocal_deep":
            # names first bound inside `while True:` behind one or two header lines (hoisted once or twice to the body level
            # of the main loop), bound in the first pass only, accumulated and printed in every pass
            inits, uses = [], []
            for vi in range(rng.randint(1, 3)):
                v = ["d0", "acc_1", "Lv2"][vi]
                c = rng.randint(0, 5)
                bind = ("set", v, ("const", c)) if rng.random() < 0.6 or not gvars else ("set", v, ("add", rng.choice(gvars), c))
                form = rng.choice(["if", "if_for", "for_if", "while_if", "try_if", "if_if", "if_else", "if_try", "for_for_if"])
                if form == "if":
                    st = ("if", flag, [bind])
                elif form == "if_for":
                    st = ("if", flag, [("for", rng.randint(1, 2), [bind])])
                elif form == "for_if":
                    st = ("for", rng.randint(1, 2), [("if", flag, [bind])])
                elif form == "for_for_if":
                    st = ("for", rng.randint(1, 2), [("for", 1, [("if", flag, [bind])]), b.free_mark(mon, allow_core)])
                elif form == "while_if":
                    wc = f"wc{len(while_counters)}"
                    while_counters.append(wc)
                    st = ("seq", [("set", wc, ("const", rng.randint(1, 2))),
                                  ("while", wc, [("set", wc, ("add", wc, -1)), ("if", flag, [bind])])])
                elif form == "try_if":
                    st = ("try", [("if", flag, [bind])], [b.free_mark(mon, allow_core)])
                elif form == "if_try":
                    st = ("if", flag, [("try", [bind], [b.free_mark(mon, allow_core)])])
                elif form == "if_if":
                    st = ("if", flag, [("if", flag, [bind])])
                else:
                    st = ("if", flag, [bind], [b.free_mark(mon, allow_core)])
                inits.append(st)
                uses += [("set", v, ("add", v, rng.randint(1, 3))), ("show", mon, v)]
            body[n_fixed:n_fixed] = inits
            # nothing between the first-pass bindings and the end of the pass may re-arm or clear the flag
            body[:] = [st for st in body if not (st[0] == "set" and st[1] == flag)]
            body += uses
            body.append(("set", flag, ("const", 0)))
        if cls == "break_main":
            body.insert(rng.randint(n_fixed, len(body)), ("break",))
        if cls == "break_main_if":
            body.insert(rng.randint(n_fixed, len(body)), ("if", flag, [b.free_mark(mon, allow_core), ("break",)]))
        body.append(b.mark(mon, "ser"))         # end-of-pass sentinel
        return body

    if cls in ("looplocal_if", "looplocal_deep", "setup_inner"):
        # make the witness meaningful: the flag starts true
        for i, it in enumerate(items):
            if it[0] == "stmt" and it[1][0] == "set" and it[1][1] == flag:
                items[i] = ("stmt", ("set", flag, ("const", 1)))
    sentinels = []
    if cls != "nomain":
        body = loop_body(True)
        sentinels.append(body[-1][1])
        items.append(("main", body))
        if cls == "postloop":
            for _ in range(rng.randint(1, 3)):
                items.append(("stmt", b.free_mark(mon, allow_core)))
        if cls == "twoloops":
            if rng.random() < 0.5:
                items.append(("stmt", b.free_mark(mon, allow_core)))
            body2 = loop_body(False)
            sentinels.append(body2[-1][1])
            items.append(("main", body2))
    # the counters of generated `while wc:` loops are globals declared by depth-0 statements of the prologue
    items[pre_items_mark:pre_items_mark] = [("stmt", ("set", wc, ("const", 0))) for wc in while_counters]
    flat = []
    for it in items:
        if it[0] == "stmt":
            flat.extend(("stmt", x) for x in flatten_seq([it[1]]))
        elif it[0] == "main":
            flat.append(("main", flatten_seq(it[1])))
        else:
            flat.append(it)
    items = flat
    lcd_order = [it[1][2] for it in items if it[0] == "stmt" and it[1][0] == "decl" and it[1][1] == "Lcd"]
    prog = {"augmented": True, "items": items, "marks": b.marks, "inputs": b.inputs, "lcd_user_row": b.lcd_user_row,
            "lcd_anim_rows": b.lcd_anim_rows, "lcd_order": lcd_order, "devs": b.devs, "cls": cls,
            "sentinels": sentinels, "starts": starts}
    prog["src"] = render(prog, rng)
    return prog


# ----------------------------------------------------------------------------------------------
# special classes: names first bound inside a compound statement of the prologue, and `break` behind
# else / try / except lines
# ----------------------------------------------------------------------------------------------
PROM_FORMS = ["if", "ifelse", "ifelse_one", "for", "while", "try", "except", "try_both", "for_if", "ifelse_two"]
SPECIAL_CLASSES = ["prom_" + f for f in PROM_FORMS] + ["prom_mix", "prom_mix", "brk_reject", "brk_reject", "brk_legal", "brk_legal", "brk_top"]
BRK_WRAPPERS = ["if", "then_else", "else", "try", "except"]
LOOP_WRAPPERS = ["for", "while"]


def gen_special(rng, cls, force=None, quiet=False):
    """quiet: the prologue neither reads nor re-assigns the block-bound names after their block; the main loop re-assigns each
    by a plain `x = x + k` before printing it (the shape in which a name that lost its global declaration still compiles)"""
    b = Builder(rng)
    mon = "mon"
    b.used_names.add(mon)
    b.devs[mon] = ("Serial", [], "setup")
    items = [("stmt", ("decl", "Serial", mon, [], None, {}))]
    flag = "flag"
    pre = [("set", flag, ("const", rng.randint(0, 1))), ("set", "g0", ("const", rng.randint(-2, 5)))]
    counters = []
    starts, sentinels = [], []

    def fm():
        return b.free_mark(mon, False)

    def new_counter():
        wc = f"wc{len(counters)}"
        counters.append(wc)
        return wc

    def wrap(kind, inner, ld_name=None):
        """inner statements behind one more header line"""
        if kind == "if":
            return [("if", flag, inner)]
        if kind == "then_else":
            return [("if", flag, inner, [fm()])]
        if kind == "else":
            return [("if", flag, [fm()], inner)]
        if kind == "try":
            return [("try", inner, [fm()])]
        if kind == "except":
            return [("try", [fm()], inner)]
        if kind == "for":
            return [("for", rng.randint(1, 3), inner)]
        if kind == "while":
            wc = new_counter()
            return [("set", wc, ("const", rng.randint(1, 2))), ("while", wc, [("set", wc, ("add", wc, -1))] + inner)]
        raise ValueError(kind)

    body = []
    promoted = []
    if cls.startswith("prom_"):
        forms = [cls[5:]] if cls != "prom_mix" else [rng.choice(PROM_FORMS) for _ in range(rng.randint(2, 3))]
        if force:
            forms = list(force)
        for fi, form in enumerate(forms):
            v = ["step", "total", "acc", "lvl", "w_q", "Kp"][fi % 6] + (str(fi) if rng.random() < 0.5 else "")
            if promoted and form not in ("except", "ifelse_two") and rng.random() < 0.25:
                v = promoted[-1]          # a second block of the prologue binds the same name again
            c1, c2 = rng.randint(1, 9), rng.randint(10, 19)
            bind = ("set", v, ("const", c1)) if rng.random() < 0.6 else ("set", v, ("add", "g0", c1))
            extra = [fm()] if rng.random() < 0.5 else []
            if form == "if":
                pre += [("set", flag, ("const", 1)), ("if", flag, extra + [bind])]
            elif form == "ifelse":
                pre += [("if", flag, [bind] + extra, [("set", v, ("const", c2))])]
            elif form == "ifelse_one":
                # bound in one branch only; the flag is set so that this branch is the one that runs
                k = rng.randint(0, 1)
                pre += [("set", flag, ("const", k)), ("if", flag, [bind] if k else extra + [fm()], extra + [fm()] if k else [bind])]
            elif form == "ifelse_two":
                v2 = v + "_b"
                pre += [("if", flag, [bind, ("set", v2, ("const", c1))], [("set", v, ("const", c2)), ("set", v2, ("add", v, 1))])]
                promoted.append(v2)
            elif form == "for":
                pre += [("for", rng.randint(1, 4), extra + [bind])]
            elif form == "for_if":
                # two levels below depth 0 (hoisted twice: the inner default-initialised declaration is dropped by the outer rewrite)
                pre += [("set", flag, ("const", 1)), ("for", rng.randint(1, 2), [("if", flag, [bind])] + extra)]
            elif form == "while":
                wc = new_counter()
                pre += [("set", wc, ("const", rng.randint(1, 3))), ("while", wc, [("set", wc, ("add", wc, -1))] + extra + [bind])]
            elif form == "try":
                pre += [("try", [bind] + extra, [fm()])]
            elif form == "except":
                # bound by the handler only: never bound at run time, never read afterwards (only its declaration is observable)
                pre += [("try", extra + [fm()], [bind])]
                if rng.random() < 0.5:
                    pre.append(fm())
                continue
            elif form == "try_both":
                pre += [("try", [bind] + extra, [("set", v, ("const", c2))])]
            if v not in promoted:
                promoted.append(v)
            if rng.random() < 0.3 and not quiet:
                pre.append(("show", mon, v))
            if rng.random() < 0.12 and not quiet:
                pre.append(("set", v, ("add", v, 1)))        # a depth-0 re-assignment later in the prologue
            if rng.random() < 0.4:
                pre.append(fm())
        start = b.mark(mon, "ser")
        starts.append(start[1])
        body.append(start)
        rest = []
        for v in promoted:
            r = rng.random() if not quiet else 0.0     # quiet: plain re-assignment first, then the value is printed
            if r < 0.6:
                rest.append(("seq", [("set", v, ("add", v, rng.randint(1, 3))), ("show", mon, v)]))
            elif r < 0.75:
                rest.append(("seq", [("show", mon, v), ("set", v, ("add", rng.choice(promoted), rng.randint(1, 3)))]))
            elif r < 0.85:
                rest.append(("seq", [("if", flag, [("set", v, ("add", v, 2))], [("set", v, ("add", v, 1))]), ("show", mon, v)]))
            else:
                rest.append(("show", mon, v))
        for _ in range(rng.randint(0, 2)):
            rest.append(fm())
        rng.shuffle(rest)
        body += rest
    else:
        # `break` behind 1..3 header lines
        depth = rng.randint(1, 3)
        chain = [rng.choice(BRK_WRAPPERS) for _ in range(depth)]
        if force:
            chain = list(force)
        if cls == "brk_legal":
            chain.insert(rng.randint(0, len(chain) - 1) if len(chain) > 1 and rng.random() < 0.7 else 0, rng.choice(LOOP_WRAPPERS))
        inner = [fm(), ("break",)] if rng.random() < 0.5 else [("break",), fm()]
        for kind in reversed(chain):
            inner = wrap(kind, inner)
            if rng.random() < 0.3:
                inner = [fm()] + inner
        if cls == "brk_top":
            pre += inner
            inner = []
        start = b.mark(mon, "ser")
        starts.append(start[1])
        body.append(start)
        body += inner
        if rng.random() < 0.5:
            body += [("set", "g0", ("add", "g0", 1)), ("show", mon, "g0")]
    end = b.mark(mon, "ser")
    body.append(end)
    sentinels.append(end[1])
    pre = [("set", wc, ("const", 0)) for wc in counters] + pre
    items += [("stmt", x) for x in flatten_seq(pre)]
    items.append(("main", flatten_seq(body)))
    prog = {"augmented": not quiet, "items": items, "marks": b.marks, "inputs": b.inputs, "lcd_user_row": {}, "lcd_anim_rows": {},
            "lcd_order": [], "devs": b.devs, "cls": cls, "sentinels": sentinels, "starts": starts, "promoted": promoted}
    prog["src"] = render(prog, rng)
    return prog



# ----------------------------------------------------------------------------------------------
# break placement matrix (text level, no model): every chain of header lines the parser has a code path for
# ----------------------------------------------------------------------------------------------
MX_PLAIN = ["if", "then_else", "else", "elif", "elif_else", "then_elif", "try", "except", "except_typed", "except_as", "except_second", "try_two"]
MX_LOOPS = ["for", "while", "while_true"]


def mx_wrap(kind, inner, uid):
    ind = ["    " + ln for ln in inner]
    w = [f'    mon.write("f{uid}")']
    if kind == "if":
        return ["if flag:"] + ind
    if kind == "then_else":
        return ["if flag:"] + ind + ["else:"] + w
    if kind == "else":
        return ["if flag:"] + w + ["else:"] + ind
    if kind == "elif":
        return ["if flag:"] + w + ["elif g0:"] + ind
    if kind == "then_elif":
        return ["if flag:"] + ind + ["elif g0:"] + w + ["else:"] + w
    if kind == "elif_else":
        return ["if flag:"] + w + ["elif g0:"] + w + ["else:"] + ind
    if kind == "try":
        return ["try:"] + ind + ["except:"] + w
    if kind == "try_two":
        return ["try:"] + ind + ["except ValueError:"] + w + ["except:"] + w
    if kind == "except":
        return ["try:"] + w + ["except:"] + ind
    if kind == "except_typed":
        return ["try:"] + w + ["except Exception:"] + ind
    if kind == "except_as":
        return ["try:"] + w + ["except ValueError as err:"] + ind
    if kind == "except_second":
        return ["try:"] + w + ["except ValueError:"] + w + ["except Exception:"] + ind
    if kind == "for":
        return [f"for _k{uid} in range(2):"] + ind
    if kind == "while":
        return ["while g0:"] + ind
    if kind == "while_true":
        return ["while True:"] + ind
    raise ValueError(kind)


def mx_script(chain, where):
    inner = ['mon.write("b0")', "break"]
    for i, kind in enumerate(reversed(chain)):
        inner = mx_wrap(kind, inner, i)
    head = ["mon = SerialMonitor(9600)", "flag = 1", "g0 = 2"]
    if where == "main":
        lines = head + ["while True:", '    mon.write("s")'] + ["    " + ln for ln in inner] + ['    mon.write("e")']
    elif chain and chain[0] == "while_true":
        lines = head + inner            # the chain's column-0 `while True:` is the main loop: nothing may follow it
    else:
        lines = head + inner + ["while True:", '    mon.write("s")']
    return HEADER + "\n".join(lines) + "\n"


def ir_breaks_outside_loops(nodes, in_loop=False):
    """BreakStmt nodes of a dumped IR list that no WhileLoop / ForRangeLoop node encloses"""
    n = 0
    for x in nodes:
        if not isinstance(x, dict):
            continue
        c = x.get("_")
        if c == "BreakStmt":
            n += 0 if in_loop else 1
            continue
        inner = in_loop or c in ("WhileLoop", "ForRangeLoop")
        for k, v in x.items():
            if isinstance(v, list):
                n += ir_breaks_outside_loops(v, inner)
    return n


def break_matrix(ctx, stats, thorough):
    rng = ctx.rng
    kinds = MX_PLAIN + MX_LOOPS
    chains = [[a] for a in kinds] + [[a, c] for a in kinds for c in kinds]
    triples = [[a, c, d] for a in kinds for c in kinds for d in kinds]
    chains += triples if thorough else rng.sample(triples, 150)
    cases = [(ch, where) for ch in chains for where in (("main", "top") if len(ch) < 3 or thorough else ("main",))]
    srcs = [mx_script(ch, where) for ch, where in cases]
    res = []
    for i in range(0, len(srcs), 400):
        res += C.run_impl("c05_impl.py", {"sources": srcs[i:i + 400], "timeout": 20, "emit": False}, timeout=600)
    dist = {"must_reject": 0, "legal": 0, "rejected": 0, "accepted": 0}
    for (ch, where), src, r in zip(cases, srcs, res):
        # a column-0 `while True:` IS the main loop (chain written at the top level starting with while_true)
        legal = any(k in MX_LOOPS for k in (ch[1:] if where == "top" and ch[0] == "while_true" else ch))
        dist["legal" if legal else "must_reject"] += 1
        dist["accepted" if r["ok"] else "rejected"] += 1
        if not legal:
            if r["ok"] or r["exc"] != "ValueError":
                ctx.fail("a `break` that would leave the main loop / is outside any loop was not rejected with ValueError (header chain: %s, %s)" % (" > ".join(ch), where),
                         {"src": src}, "ValueError", "accepted" if r["ok"] else r["exc"], key="break-accepted")
        else:
            if not r["ok"]:
                ctx.disagree("parse() rejected a `break` of an inner for / while loop (header chain: %s, %s)" % (" > ".join(ch), where), src, "accepted", r.get("exc"))
            else:
                n = ir_breaks_outside_loops(r["loop"]) + ir_breaks_outside_loops(r["setup"])
                if n:
                    ctx.fail("Program IR holds a BreakStmt that no inner loop node encloses (it would be emitted at loop() / setup() level)",
                             {"src": src}, 0, n, key="break-accepted")
    stats["break_matrix"] = dict(dist, chains=len(chains), scripts=len(cases))
    return len(cases)



# ----------------------------------------------------------------------------------------------
# persistence templates (text level, no model): shapes outside the abstract program language whose values must carry over
# from the prologue into the passes and from pass to pass exactly as under CPython
# ----------------------------------------------------------------------------------------------
PERSIST_TEMPLATES = {
    "elif_bound": "mode = {a}\nif mode == 1:\n    step = {c1}\nelif mode == 2:\n    step = {c2}\nelse:\n    step = {c3}\n"
                  "while True:\n    step = step + {k}\n    mon.write(step)\n",
    "helper_reads_global": "mode = {a}\nif mode == 1:\n    step = {c1}\nelse:\n    step = {c2}\ndef show():\n    mon.write(step)\n"
                           "while True:\n    step = step + {k}\n    show()\n",
    "for_var_value": "for i in range({n}):\n    last = i * 2\nmon.write(last)\nwhile True:\n    last = last + {k}\n    mon.write(last)\n",
    "while_cond": "n = {n}\nwhile n > 0:\n    n -= 1\n    acc = n + {c1}\nwhile True:\n    acc = acc + {k}\n    n = n + 1\n    mon.write(acc)\n    mon.write(n)\n",
    "augmented": "flag = {a}\nif flag > 0:\n    total = {c1}\n    step = {k}\nelse:\n    total = {c2}\n    step = {k}\n"
                 "while True:\n    total += step\n    step = step + 1\n    mon.write(total)\n",
    "nested_try_in_if": "flag = {a}\nif flag > 0:\n    try:\n        lvl = {c1}\n    except:\n        lvl = {c2}\nelse:\n    lvl = {c3}\n"
                        "while True:\n    lvl = lvl + {k}\n    mon.write(lvl)\n",
    "helper_after_for": "for j in range({n}):\n    base = {c1}\ndef bump():\n    mon.write(base + 1)\nwhile True:\n    base = base + {k}\n    bump()\n    mon.write(base)\n",
    # names FIRST bound inside `while True:` (sketch globals since the repair of F-C05-looplocal-reinit)
    "loop_first_direct": "n = 0\nwhile True:\n    if n > 0:\n        mon.write(last)\n    last = n * {k} + {c1}\n    n = n + 1\n",
    "loop_first_tuple": "n = 0\nwhile True:\n    if n > 0:\n        mon.write(a + b)\n        mon.write(b)\n    a, b = n + {c1}, n * {k}\n    n = n + 1\n",
    "loop_first_tuple_mixed": "n = 0\nb = {c2}\nwhile True:\n    if n > 0:\n        mon.write(a - b)\n    a, b = b + {c1}, n * {k}\n    n = n + 1\n",
    "loop_first_elif": "n = 0\nwhile True:\n    if n == 0:\n        z = {c1}\n    elif n == 1:\n        z = z + {c2}\n    else:\n        z = z + {k}\n    n = n + 1\n    mon.write(z)\n",
    "loop_first_in_for": "n = 0\nwhile True:\n    for i in range({n}):\n        if n == 0:\n            s = {c1}\n        s = s + i\n    n = n + 1\n    mon.write(s)\n",
    "loop_first_augmented": "n = 0\nwhile True:\n    if n == 0:\n        total = {c1}\n    total += {k}\n    n += 1\n    mon.write(total)\n",
    "loop_first_helper_reads": "n = 0\ndef show():\n    mon.write(cnt)\nwhile True:\n    if n == 0:\n        cnt = {c1}\n    cnt = cnt + {k}\n    n = n + 1\n    show()\n",
    "loop_first_try": "n = 0\nwhile True:\n    try:\n        if n == 0:\n            lvl = {c1}\n    except:\n        lvl = {c2}\n    lvl = lvl + {k}\n    n = n + 1\n    mon.write(lvl)\n",
    "loop_first_if_for": "n = 0\nwhile True:\n    if n < 2:\n        for i in range(1 - n):\n            z = {c1}\n    n = n + 1\n    mon.write(z)\n",
    "loop_first_try_while": "n = 0\nwhile True:\n    try:\n        k = 1 - n\n        while k > 0:\n            z = {c1}\n            k = k - 1\n    except:\n        mon.write(\"m9\")\n    n = n + 1\n    mon.write(z)\n",
    "setup_if_for": "for r in range(2):\n    if r < 2:\n        for i in range(1 - r):\n            z = {c1}\n    mon.write(z)\nwhile True:\n    z = z + {k}\n    mon.write(z)\n",
    # a name hoisted out of a loop that is itself inside a loop of the prologue (repair of F-C01-hoisted-decl-reinit)
    "setup_double_hoist": "w = 0\nwhile w < 2:\n    for k in range(1 - w):\n        z = {c1}\n    w = w + 1\n    mon.write(z)\nwhile True:\n    z = z + {k}\n    mon.write(z)\n",
}

# anything after the main loop is unreachable in Python: parse() must reject it (or, if it ever accepts it again, the firmware
# must still show CPython's trace)
AFTER_MAIN_TEMPLATES = {
    "statement": "mon.write(\"m1\")\nwhile True:\n    mon.write(\"m2\")\nmon.write(\"m3\")\n",
    "assignment": "g = {c1}\nwhile True:\n    mon.write(g)\ng = {c2}\n",
    "second_main_loop": "while True:\n    mon.write(\"m2\")\nwhile True:\n    mon.write(\"m3\")\n",
    "second_main_loop_after_comment": "while True:\n    mon.write(\"m2\")\n# done\n\nwhile True:  # again\n    mon.write(\"m3\")\n",
    "def_after": "g = {c1}\nwhile True:\n    mon.write(g)\ndef late():\n    mon.write(\"m9\")\n",
    "if_after": "g = {c1}\nwhile True:\n    mon.write(g)\nif g > 0:\n    mon.write(\"m3\")\n",
    "for_after": "while True:\n    mon.write(\"m2\")\nfor i in range(2):\n    mon.write(i)\n",
    "device_after": "while True:\n    mon.write(\"m2\")\nled = Led(7)\nled.on()\n",
    "sleep_after": "while True:\n    mon.write(\"m2\")\n    sleep({c2})\nsleep({c1})\n",
    "only_comments_after": "while True:\n    mon.write(\"m2\")\n# the end\n\n    # indented comment\n",
}


def persistence_templates(ctx, stats, thorough):
    rng = ctx.rng
    cases = []
    for name, t in PERSIST_TEMPLATES.items():
        for _ in range(10 if thorough else 2):
            cases.append((name, HEADER + "mon = SerialMonitor(9600)\n" + t.format(
                a=rng.randint(0, 3), c1=rng.randint(1, 9), c2=rng.randint(10, 19), c3=rng.randint(20, 29), k=rng.randint(1, 4), n=rng.randint(1, 4))))
    ts = fw.transpile_many([src for _, src in cases])
    jobs, idx = [], {}
    for i, t in enumerate(ts):
        if t["ok"]:
            idx[i] = len(jobs)
            jobs.append({"cpp": t["cpp"], "input": "", "loops": NMAX})
    outs = fw.run_sketches(jobs)
    pys = fw.pyrun_many([{"src": src, "input": "", "loops": NMAX} for _, src in cases])
    n_ok = 0
    for i, ((name, src), t, po) in enumerate(zip(cases, ts, pys)):
        if not t["ok"]:
            ctx.disagree(f"persistence template {name}: parse()/emit() rejected the script", src, "accepted", t.get("exc"))
            continue
        o = outs[idx[i]]
        if not o["compiled"] or o["rc"] != 0:
            ctx.disagree(f"persistence template {name}: the sketch did not compile / run under the mock", src, None, (o["compile_log"] or o["stderr"])[-400:])
            continue
        if po["exc"] is not None:
            ctx.disagree(f"persistence template {name}: CPython raised (template bug)", src, None, po["exc"])
            continue
        f_obs, p_obs = _generic_obs(o["events"], False), _generic_obs(po["events"], True)
        if f_obs != p_obs:
            ctx.fail(f"firmware and CPython differ on the printed values (template {name}: a name bound inside a block of the prologue, N passes = {NMAX}, every prefix compared)",
                     {"src": src, "input": ""}, {"cpython": p_obs}, {"firmware": f_obs}, key="trace-vs-python")
        else:
            n_ok += 1
    stats["persistence_templates"] = {"scripts": len(cases), "same_as_cpython": n_ok, "templates": sorted(PERSIST_TEMPLATES)}
    return len(cases) + after_main_templates(ctx, stats)


def after_main_templates(ctx, stats):
    rng = ctx.rng
    cases = [(name, HEADER + "mon = SerialMonitor(9600)\n" + t.format(c1=rng.randint(1, 9), c2=rng.randint(10, 19)))
             for name, t in AFTER_MAIN_TEMPLATES.items()]
    ts = fw.transpile_many([src for _, src in cases])
    dist = {"rejected_ValueError": 0, "accepted": 0}
    for (name, src), t in zip(cases, ts):
        unreachable = name != "only_comments_after"
        if not t["ok"]:
            if t["exc"] != "ValueError" or not unreachable:
                ctx.disagree(f"after-main-loop template {name}: parse() raised {t['exc']}", src, "ValueError" if unreachable else "accepted", t.get("exc"))
            else:
                dist["rejected_ValueError"] += 1
            continue
        dist["accepted"] += 1
        bad = program_witness_failure({"src": src})
        if bad is not None:
            ctx.fail(f"statements written after the main loop (template {name}; unreachable in Python) are accepted and change what the firmware does: {bad[0]}",
                     {"src": src, "input": ""}, bad[1], bad[2], key="after-main-loop")
        elif unreachable:
            ctx.disagree(f"after-main-loop template {name}: accepted (the model says parse() rejects it)", src, "ValueError", "accepted")
    stats["after_main_templates"] = dict(dist, templates=sorted(AFTER_MAIN_TEMPLATES))
    return len(cases)



def stmt_kind_count(progs):
    out = {}
    for p in progs:
        for st in all_stmts(p):
            k = st[0] + ("_else" if st[0] == "if" and len(st) > 3 and st[3] else "")
            out[k] = out.get(k, 0) + 1
    return out


def input_script(prog):
    lines = [f"dr {p} " + " ".join(str(v) for v in vs) for p, vs in sorted(prog["inputs"].items())]
    for name, (kind, pins, _w) in prog["devs"].items():
        if kind == "Pot":
            lines.append(f"ar {pins[0]} 5 6 7")
        if kind == "Ultra":
            lines.append(f"pi {pins[1]} 1000 1200")
    return "\n".join(lines) + "\n"


# ----------------------------------------------------------------------------------------------
# canonical forms: IR
# ----------------------------------------------------------------------------------------------
DECL_CLASSES = {"LedDecl", "RGBLedDecl", "ServoDecl", "DCMotorDecl", "ButtonDecl", "PotentiometerDecl",
                "UltrasonicDecl", "BuzzerDecl", "LCDDecl", "SerialMonitorDecl"}


def canon_model_ir(nodes, prog):
    out = []
    for n in nodes:
        t = n[0]
        if t == 0:
            form = prog["marks"].get(n[1])
            if form in ("ser", "sleep", "core", "pm13", "hand"):
                out.append(["m", n[1]])
            else:
                dev = next(s[2] for s in all_stmts(prog) if s[0] == "mark" and s[1] == n[1])
                out.append(["use", dev])
        elif t == 1:
            out.append(["decl", C.wstr(n[1])])
        elif t == 2:
            out.append(["vd", C.wstr(n[1])])
        elif t == 3:
            out.append(["va", C.wstr(n[1])])
        elif t == 4:
            out.append(["show", C.wstr(n[1])])
        elif t == 5:
            out.append(["anim", C.wstr(n[1])])
        elif t == 6:
            out.append(["break"])
        elif t == 7:
            out.append(["if", C.wstr(n[1]), canon_model_ir(n[2], prog), canon_model_ir(n[3], prog)])
        elif t == 8:
            out.append(["for", n[1], canon_model_ir(n[2], prog)])
        elif t == 11:
            out.append(["while", C.wstr(n[1]), canon_model_ir(n[2], prog)])
        elif t == 12:
            out.append(["try", canon_model_ir(n[1], prog), canon_model_ir(n[2], prog)])
        elif t == 9:
            out.append(["poll", C.wstr(n[1])])
        elif t == 10:
            out.append(["tick", C.wstr(n[1])])
    return out


def canon_real_ir(nodes, prog):
    out = []
    pot_by_pin = {pot_pin_text(p[0]): n.rstrip("#") for n, (k, p, _w) in prog["devs"].items() if k == "Pot"}
    pm_id = next((i for i, f in prog["marks"].items() if f == "pm13"), None)
    for n in nodes:
        c = n["_"]
        if c in DECL_CLASSES:
            out.append(["decl", n["name"]])
        elif c == "SerialWrite":
            v = n["value"]
            m = re.fullmatch(r'"m(\d+)"', v)
            if m:
                out.append(["m", int(m.group(1))])
            elif re.fullmatch(r"[A-Za-z_]\w*", v):
                out.append(["show", v])
            elif "analogRead(" in v:
                pin = re.search(r"analogRead\((A\d)\)", v)
                out.append(["use", pot_by_pin.get(pin.group(1) if pin else None, v)])
            elif "__redu_ultrasonic_measure_" in v:
                out.append(["use", re.search(r"__redu_ultrasonic_measure_(\w+)\(\)", v).group(1)])
            else:
                out.append(["?serial", v])
        elif c == "Sleep":
            out.append(["m", int(n["ms"]) - SLEEP_BASE] if isinstance(n["ms"], int) else ["?sleep", n["ms"]])
        elif c == "ExprStmt":
            e = n["expr"]
            m = re.fullmatch(rf"analogWrite\({CORE_PIN}, (\d+)\)", e)
            if m:
                out.append(["m", int(m.group(1))])
            elif e == f"pinMode({CORE_PIN}, OUTPUT)":
                out.append(["m", pm_id])
            else:
                out.append(["?expr", e])
        elif c == "VarDecl":
            out.append(["vd", n["name"]] if not n["global_scope"] else ["?globaldecl", n["name"]])
        elif c == "VarAssign":
            out.append(["va", n["name"]])
        elif c == "LCDAnimate":
            out.append(["anim", n["name"]])
        elif c == "BreakStmt":
            out.append(["break"])
        elif c == "IfStatement":
            if len(n["branches"]) == 1:
                out.append(["if", n["branches"][0]["condition"], canon_real_ir(n["branches"][0]["body"], prog),
                            canon_real_ir(n["else_body"], prog)])
            else:
                out.append(["?if", len(n["branches"])])
        elif c == "WhileLoop":
            out.append(["while", n["condition"], canon_real_ir(n["body"], prog)])
        elif c == "TryStatement":
            if len(n["handlers"]) == 1:
                out.append(["try", canon_real_ir(n["try_body"], prog), canon_real_ir(n["handlers"][0]["body"], prog)])
            else:
                out.append(["?try", len(n["handlers"])])
        elif c == "ForRangeLoop":
            out.append(["for", n["count"], canon_real_ir(n["body"], prog)])
        elif c == "ButtonPoll":
            out.append(["poll", n["name"]])
        elif c == "LCDTick":
            out.append(["tick", n["name"]])
        elif "name" in n:
            out.append(["use", n["name"]])
        else:
            out.append(["?" + c])
    return out


# ----------------------------------------------------------------------------------------------
# canonical forms: traces.  Abstract events are tuples mirroring coq/Lang/Emit.v ev:
#   ("mark", id) ("val", v) ("cfg", res, mode) ("use", res, w) ("poll", pin) ("tick", lcd) ("hand", id)
#   ("huse", res, w) ("delay", ms);   res = ("pin", p) | ("ser",) | ("servo", p) | ("lcd", name)
# ----------------------------------------------------------------------------------------------

def enc_res(r):
    if r[0] == "pin":
        return [0, r[1]]
    if r[0] == "ser":
        return [1]
    if r[0] == "servo":
        return [2, r[1]]
    return [3, r[1]]


def enc_ev(e):
    t = e[0]
    if t == "mark":
        return [0, e[1]]
    if t == "val":
        return [1, "v", e[1]]
    if t == "cfg":
        return [2, enc_res(e[1]), e[2]]
    if t == "use":
        return [3, enc_res(e[1]), bool(e[2])]
    if t == "poll":
        return [4, e[1]]
    if t == "tick":
        return [5, e[1]]
    if t == "hand":
        return [6, e[1]]
    if t == "huse":
        return [7, enc_res(e[1]), bool(e[2])]
    if t == "delay":
        return [0, -1000000 - e[1]]          # an unexplained delay: a user-class event for the monitors
    raise ValueError(e)


def dec_res(r):
    if r[0] == 0:
        return ("pin", r[1])
    if r[0] == 1:
        return ("ser",)
    if r[0] == 2:
        return ("servo", r[1])
    return ("lcd", C.wstr(r[1]))


def dec_ev(e):
    t = e[0]
    if t == 0:
        return ("mark", e[1])
    if t == 1:
        return ("val", e[2])
    if t == 2:
        return ("cfg", dec_res(e[1]), e[2])
    if t == 3:
        return ("use", dec_res(e[1]), bool(e[2]))
    if t == 4:
        return ("poll", e[1])
    if t == 5:
        return ("tick", C.wstr(e[1]))
    if t == 6:
        return ("hand", e[1])
    return ("huse", dec_res(e[1]), bool(e[2]))


def abstract_phase(events, prog, lcd_ids, polled_pins, in_loop):
    """real mock events of one phase -> abstract events"""
    out = []
    anim = {(lcd, row) for lcd, rows in prog["lcd_anim_rows"].items() for row in rows}
    pm_id = next((i for i, f in prog["marks"].items() if f == "pm13"), None)
    i, n = 0, len(events)
    while i < n:
        p = events[i].split(" ")
        k = p[0]
        if k == "PM":
            pin, mode = int(p[1]), int(p[2])
            out.append(("cfg", ("pin", pin), mode))
            if pin == CORE_PIN and pm_id is not None:
                out.append(("mark", pm_id))
        elif k == "SB":
            out.append(("cfg", ("ser",), 0))
        elif k == "SVA":
            out.append(("cfg", ("servo", int(p[1])), 0))
        elif k == "LB":
            out.append(("cfg", ("lcd", lcd_ids.get(int(p[1]), "?" + p[1])), 0))
        elif k in ("DW", "T", "NT"):
            out.append(("use", ("pin", int(p[1])), True))
        elif k == "AW":
            out.append(("use", ("pin", int(p[1])), True))
            if int(p[1]) == CORE_PIN:
                out.append(("mark", int(p[2])))
        elif k == "DR":
            pin = int(p[1])
            out.append(("poll", pin) if in_loop and pin in polled_pins else ("use", ("pin", pin), False))
        elif k in ("AR", "PI"):
            out.append(("use", ("pin", int(p[1])), False))
        elif k in ("S", "SP"):
            text = events[i][len(k) + 1:]
            m = re.fullmatch(r"m(\d+)", text)
            if m and prog["marks"].get(int(m.group(1))) == "hand":
                out.append(("huse", ("ser",), True))
                out.append(("hand", int(m.group(1))))
            else:
                out.append(("use", ("ser",), True))
                if m:
                    out.append(("mark", int(m.group(1))))
                elif re.fullmatch(r"-?\d+", text) and abs(int(text)) < VAL_LIMIT:
                    out.append(("val", int(text)))
        elif k in ("SVW", "SVU"):
            out.append(("use", ("servo", int(p[1])), True))
        elif k == "LSC":
            lid, row = int(p[1]), int(p[3])
            name = lcd_ids.get(lid, "?" + p[1])
            if in_loop and (name, row) in anim:
                # one animation frame = clear row (LSC + cells) then window (LSC + cells)
                j = i + 1
                while j < n and events[j].startswith(f"LW {lid} "):
                    j += 1
                if j < n and events[j] == events[i]:
                    j += 1
                    while j < n and events[j].startswith(f"LW {lid} "):
                        j += 1
                    out.append(("tick", name))
                    i = j
                    continue
            out.append(("use", ("lcd", name), True))
        elif k in ("LW", "LCLR", "LCG", "LDISP", "LBL", "LHOME"):
            out.append(("use", ("lcd", lcd_ids.get(int(p[1]), "?" + p[1])), True))
        elif k == "D":
            ms = int(p[1])
            out.append(("mark", ms - SLEEP_BASE) if prog["marks"].get(ms - SLEEP_BASE) == "sleep" else ("delay", ms))
        i += 1
    return out


def abstract_trace(events, prog, polled_pins):
    pre, setup, loops = fw.split_phases(events)
    lcd_ids = {}
    for e in pre:
        if e.startswith("LNEW "):
            k = int(e.split()[1])
            lcd_ids[k] = prog["lcd_order"][len(lcd_ids)] if len(lcd_ids) < len(prog["lcd_order"]) else f"?{k}"
    return (abstract_phase(setup, prog, lcd_ids, polled_pins, False),
            [abstract_phase(l, prog, lcd_ids, polled_pins, True) for l in loops])


def project(evs, prog, keep_cfg):
    """what model and firmware are compared on"""
    out = []
    pm_id = next((i for i, f in prog["marks"].items() if f == "pm13"), None)
    for e in evs:
        if e[0] == "mark":
            if prog["marks"].get(e[1]) in ("ser", "sleep", "core", "pm13"):
                out.append(e)
        elif e[0] in ("val", "poll", "tick", "hand"):
            out.append(e)
        elif e[0] == "cfg" and keep_cfg:
            if e[1] == ("pin", CORE_PIN) and pm_id is not None:
                continue
            out.append(e)
    return out


def user_obs(evs, prog):
    return [e for e in evs if (e[0] == "mark" and prog["marks"].get(e[1]) in ("ser", "sleep", "core", "pm13")) or e[0] == "val"]


def py_project(events, prog):
    """CPython reference events -> (setup obs, [pass obs])"""
    _pre, setup, loops = fw.split_phases(events)
    pm_id = next((i for i, f in prog["marks"].items() if f == "pm13"), None)

    def conv(evs):
        out = []
        for e in evs:
            p = e.split(" ")
            if p[0] == "S":
                text = e[2:].split("\t")[0]
                m = re.fullmatch(r"m(\d+)", text)
                if m:
                    out.append(("mark", int(m.group(1))))
                elif re.fullmatch(r"-?\d+", text) and abs(int(text)) < VAL_LIMIT:
                    out.append(("val", int(text)))
            elif p[0] == "D" and p[1].isdigit() and prog["marks"].get(int(p[1]) - SLEEP_BASE) == "sleep":
                out.append(("mark", int(p[1]) - SLEEP_BASE))
            elif p[0] == "AW" and int(p[1]) == CORE_PIN:
                out.append(("mark", int(p[2])))
            elif p[0] == "PM" and int(p[1]) == CORE_PIN and pm_id is not None:
                out.append(("mark", pm_id))
        return out
    return conv(setup), [conv(l) for l in loops]


# ----------------------------------------------------------------------------------------------
# the monitors, re-implemented independently of the Gallina text
# ----------------------------------------------------------------------------------------------

def py_cbu(trace):
    cfg = set()
    for e in trace:
        if e[0] == "cfg":
            cfg.add((e[1], e[2]))
            continue
        need = None
        if e[0] in ("use", "huse"):
            need = (e[1], e[2])
        elif e[0] == "poll":
            need = (("pin", e[1]), False)
        elif e[0] == "tick":
            need = (("lcd", e[1]), True)
        if need is None:
            continue
        r, w = need
        if r[0] == "pin":
            ok = (r, 1) in cfg if w else ((r, 0) in cfg or (r, 2) in cfg)
        else:
            ok = any(c[0] == r for c in cfg)
        if not ok:
            return False, e
    return True, None


def py_one_mode(trace):
    modes = {}
    for e in trace:
        if e[0] == "cfg" and e[1][0] == "pin":
            if modes.setdefault(e[1][1], e[2]) != e[2]:
                return False, e
    return True, None


def py_hk_ok(pins, ticks, t):
    i = 0
    for p in pins:
        if i >= len(t) or t[i] != ("poll", p):
            return False
        i += 1
        while i < len(t) and t[i][0] in ("hand", "huse"):
            i += 1
    for l in ticks:
        if i >= len(t) or t[i] != ("tick", l):
            return False
        i += 1
    return all(e[0] not in ("poll", "tick", "hand", "huse") for e in t[i:])


# ----------------------------------------------------------------------------------------------
# one batch of programs through every engine
# ----------------------------------------------------------------------------------------------
NMAX = 3


def guard_of(flags):
    return {"transl_ok": bool(flags[0]), "breaks_ok": bool(flags[1]), "well_placed": bool(flags[2]),
            "one_main_last": bool(flags[3]), "well_placed_unique": bool(flags[4])}


def check_batch(ctx, progs, stats, known_mode=False):
    """runs every engine on progs; returns per-program records (used by the known-finding replay)"""
    srcs = [p["src"] for p in progs]
    real = C.run_impl("c05_impl.py", {"sources": srcs, "timeout": 20}, timeout=20 * len(srcs) + 60)
    have_model = ctx.exe is not None
    m_ir = ctx.model([[0, enc_items(p["items"])] for p in progs]) if have_model else [None] * len(progs)
    m_ex = ctx.model([[1, enc_inputs(p["inputs"]), NMAX, enc_items(p["items"])] for p in progs]) if have_model else [None] * len(progs)
    records = []
    jobs, job_of = [], {}
    for i, (p, r) in enumerate(zip(progs, real)):
        rec = {"prog": p, "real": r, "guard": None, "fails": []}
        records.append(rec)
        mi, me = m_ir[i], m_ex[i]
        if mi is not None and (mi[0] != 0 or me[0] != 0):
            ctx.disagree("model could not decode the case", p["src"], [mi, me], None)
            continue
        if me is not None:
            rec["guard"] = guard_of(me[7])
            if rec["guard"]["well_placed_unique"]:
                stats["unique_guard"] = stats.get("unique_guard", 0) + 1
                if rec["guard"]["transl_ok"] and not rec["guard"]["well_placed"]:
                    ctx.disagree("guard monotonicity: the unique-names guard of the first version holds but the weakened guard does not",
                                 p["src"], rec["guard"], None)
            elif rec["guard"]["well_placed"]:
                stats["only_new_guard"] = stats.get("only_new_guard", 0) + 1
        stats["verdicts"][("accepted" if r["ok"] else r["exc"])] = stats["verdicts"].get(("accepted" if r["ok"] else r["exc"]), 0) + 1
        # ---- break guard: parse() verdict
        if must_reject(p):
            stats["must_reject"] = stats.get("must_reject", 0) + 1
            if r["ok"] or r["exc"] != "ValueError":
                rec["fails"].append("break")
                if not known_mode:
                    ctx.fail("a `break` that would leave the main loop / is outside any loop was not rejected with ValueError",
                             {"src": p["src"]}, "ValueError", "accepted" if r["ok"] else r["exc"], key="break-accepted")
        elif after_main(p):
            # unreachable statements after the main loop: a clean rejection (ValueError) - or, if such a script is accepted,
            # it goes through every engine below like any accepted script (the firmware must still show CPython's trace)
            stats["after_main_loop"] = stats.get("after_main_loop", 0) + 1
            if not r["ok"]:
                if r["exc"] != "ValueError" and not known_mode:
                    ctx.disagree("a script with statements after the main loop was rejected with another exception than ValueError", p["src"], "ValueError", r["exc"])
                elif r["exc"] == "ValueError":
                    stats["after_main_loop_rejected"] = stats.get("after_main_loop_rejected", 0) + 1
        elif not r["ok"]:
            if r["exc"] == "ValueError" and mi is not None and not mi[1]:
                pass
            elif not known_mode:
                ctx.disagree("parse()/emit() rejected a generated script the model accepts", p["src"], mi and mi[1], r)
            continue
        if mi is not None and bool(mi[1]) != bool(r["ok"]) and not known_mode:
            ctx.disagree("acceptance (break guard, nothing after the main loop): model transl_ok vs parse() verdict", p["src"], bool(mi[1]), r.get("exc", "accepted"))
        if not r["ok"]:
            continue
        # ---- no BreakStmt of the IR may sit outside every inner loop node (oracle on the real Program, no guard)
        nb = ir_breaks_outside_loops(r["loop"]) + ir_breaks_outside_loops(r["setup"])
        if nb:
            rec["fails"].append("break")
            if not known_mode:
                ctx.fail("Program IR holds a BreakStmt that no inner loop node encloses (it would be emitted at loop() / setup() level)",
                         {"src": p["src"]}, 0, nb, key="break-accepted")
        # ---- correspondence (a): IR placement
        if mi is not None:
            ms, ml = canon_model_ir(mi[2], p), canon_model_ir(mi[3], p)
            rs, rl = canon_real_ir(r["setup"], p), canon_real_ir(r["loop"], p)
            if ms != rs:
                ctx.disagree("setup_body: model ir_setup vs real parse()", p["src"], ms, rs)
            if ml != rl:
                ctx.disagree("loop_body (polls, ticks, statements): model ir_loop vs real parse()", p["src"], ml, rl)
            mg = [C.wstr(x) for x in mi[4]]
            rg = [g[0] for g in r["globals"]]
            if mg != rg:
                ctx.disagree("global declarations: model globals_of vs Program.global_decls", p["src"], mg, rg)
            stats["ir_nodes"] += len(rs) + len(rl)
        job_of[i] = len(jobs)
        jobs.append({"cpp": r["cpp"], "input": input_script(p), "loops": NMAX})
    outs = fw.run_sketches(jobs)
    pyjobs, pyjob_of = [], {}
    for i, rec in enumerate(records):
        if i not in job_of:
            continue
        p, o = rec["prog"], outs[job_of[i]]
        rec["fw"] = o
        if not o["compiled"] or o["rc"] != 0:
            # compilability is C06's property; here it only means the trace engines have nothing to look at
            stats["not_compiled"] += 1
            g = rec["guard"]
            if g and g["transl_ok"] and not known_mode:
                ctx.disagree("generated script inside the guard did not compile/run under the mock", p["src"], None,
                             (o["compile_log"] or o["stderr"])[-600:])
            continue
        stats["sketches"] += 1
        me = m_ex[i]
        polled = set(me[8]) if me is not None else set()
        setup_a, passes_a = abstract_trace(o["events"], p, polled)
        rec["abs"] = (setup_a, passes_a)
        if len(passes_a) != NMAX:
            ctx.disagree("firmware trace does not have the requested passes", p["src"], NMAX, len(passes_a))
            continue
        # ---- correspondence (b): model exec vs firmware
        if me is not None:
            m_setup = [dec_ev(e) for e in me[1]]
            m_passes = [[dec_ev(e) for e in t] for t in me[2]]
            c_undef = bool(me[3])
            if not c_undef:
                a, b_ = project(m_setup, p, True), project(setup_a, p, True)
                if a != b_:
                    ctx.disagree("setup() trace (markers, values, configuration order): model exec vs firmware", p["src"], a, b_)
                for k in range(NMAX):
                    a, b_ = project(m_passes[k], p, True), project(passes_a[k], p, True)
                    if a != b_:
                        ctx.disagree(f"loop() pass {k} trace (polls, ticks, handler output, markers, values): model exec vs firmware", p["src"], a, b_)
                        break
                def touched(evs):
                    return sorted({(e[1], bool(e[2])) for e in evs if e[0] in ("use", "huse") and e[1][0] in ("pin", "servo")
                                   and e[1] != ("pin", CORE_PIN)})
                a, b_ = touched(m_setup), touched(setup_a)
                if a != b_:
                    ctx.disagree("setup(): pins / servos commanded (which declaration a command resolves to): model exec vs firmware", p["src"], a, b_)
                for k in range(NMAX):
                    a, b_ = touched(m_passes[k]), touched(passes_a[k])
                    if a != b_:
                        ctx.disagree(f"loop() pass {k}: pins / servos commanded (which declaration a command resolves to): model exec vs firmware", p["src"], a, b_)
                        break
                stats["trace_events"] += len(setup_a) + sum(len(t) for t in passes_a)
            else:
                stats["c_undef"] += 1
        pyjob_of[i] = len(pyjobs)
        pyjobs.append({"src": p["src"], "input": input_script(p), "loops": NMAX})
    pyouts = fw.pyrun_many(pyjobs) if pyjobs else []
    # ---- monitors on the real traces (extracted + Python)
    mon_cases, mon_idx = [], []
    for i, rec in enumerate(records):
        if "abs" not in rec:
            continue
        me = m_ex[i]
        pins = list(me[8]) if me is not None else []
        ticks = [C.wstr(x) for x in me[9]] if me is not None else []
        rec["pins"], rec["ticks"] = pins, ticks
        setup_a, passes_a = rec["abs"]
        mon_cases.append([2, pins, ticks, [enc_ev(e) for e in setup_a], [[enc_ev(e) for e in t] for t in passes_a]])
        mon_idx.append(i)
    mon_out = ctx.model(mon_cases) if (have_model and mon_cases) else []
    for j, i in enumerate(mon_idx):
        rec = records[i]
        p = rec["prog"]
        setup_a, passes_a = rec["abs"]
        whole = setup_a + [e for t in passes_a for e in t]
        ok_cbu, bad_cbu = py_cbu(whole)
        ok_one, bad_one = py_one_mode(whole)
        hk = [py_hk_ok(rec["pins"], rec["ticks"], t) for t in passes_a]
        hk_setup = all(e[0] not in ("poll", "tick", "hand", "huse") for e in setup_a)
        no_delay = all(hk_prefix_clean(t, p) for t in passes_a)
        if mon_out:
            mo = mon_out[j]
            got = (bool(mo[1]), bool(mo[2]), [bool(x) for x in mo[3]], bool(mo[4]))
            if mo[0] != 0 or got != (ok_cbu, ok_one, hk, hk_setup):
                ctx.disagree("extracted monitors (cbu, one_mode, hk_ok) vs their Python re-implementation on a real trace",
                             p["src"], mo, [ok_cbu, ok_one, hk, hk_setup])
        g = rec["guard"] or {"transl_ok": True, "breaks_ok": True, "well_placed": True, "one_main_last": True}
        stats["monitor_runs"] += 1
        if g["well_placed"] or known_mode:
            stats["in_guard_placement"] += 1
            if not ok_cbu:
                rec["fails"].append("cbu")
                if not known_mode:
                    ctx.fail("a pin/peripheral is commanded before it is configured", {"src": p["src"], "input": input_script(p)},
                             "every DW/AW/tone/DR/AR/Servo/LCD/Serial event preceded by its PM/SB/SVA/LB", {"first_bad_event": bad_cbu, "setup": setup_a[:60]}, key="use-before-config")
            if not ok_one:
                rec["fails"].append("one_mode")
                if not known_mode:
                    ctx.fail("a pin is configured to two different modes", {"src": p["src"]}, "one mode per pin", {"event": bad_one}, key="two-modes")
        if not all(hk) or not hk_setup or not no_delay:
            rec["fails"].append("hk")
            if not known_mode:
                k = hk.index(False) if False in hk else 0
                ctx.fail("housekeeping (button polls / LCD ticks) is not exactly once at the head of every pass, or delays",
                         {"src": p["src"], "input": input_script(p)},
                         {"polls": rec["pins"], "ticks": rec["ticks"]}, {"pass": k, "events": passes_a[k][:40], "setup_hk_free": hk_setup, "no_delay": no_delay},
                         key="housekeeping")
        # ---- a DC motor is driven to a safe stop before anything else touches its pins
        if g["well_placed"]:
            bad = motor_first_writes(rec["fw"]["events"], p)
            if bad:
                rec["fails"].append("motor")
                if not known_mode:
                    ctx.fail("a DCMotor pin is written with a non-zero level before the motor was driven to a safe stop",
                             {"src": p["src"]}, "first DW/AW on every motor pin writes 0 (in setup())", bad, key="motor-safe-stop")
            stats["motor_pins_checked"] = stats.get("motor_pins_checked", 0) + sum(3 for d in p["devs"].values() if d[0] == "Motor")
        # ---- no pass is ever cut short
        if p["sentinels"]:
            for k, t in enumerate(passes_a):
                marks = [e[1] for e in t if e[0] == "mark"]
                if any(marks.count(s) != 1 for s in p["sentinels"]) or (marks and marks[-1] != p["sentinels"][-1]):
                    rec["fails"].append("cut")
                    if not known_mode:
                        ctx.fail("a loop() pass did not run to its last statement exactly once", {"src": p["src"]}, p["sentinels"], marks, key="pass-cut-short")
                    break
        # ---- CPython reference, N = 0..3
        if i in pyjob_of:
            po = pyouts[pyjob_of[i]]
            rec["py"] = po
            # every script parse() accepted is compared with CPython, unless the run leaves Python's defined behaviour:
            # the model's reference run reads a name that has no value (CPython: NameError) - then nothing is demanded
            me = m_ex[i]
            py_undefined = me is not None and bool(me[6])
            inside = not py_undefined
            if py_undefined:
                stats["python_reads_unbound_name"] = stats.get("python_reads_unbound_name", 0) + 1
            if inside and loop_first_names(p):
                stats["inside_with_loop_locals"] = stats.get("inside_with_loop_locals", 0) + 1
            if inside and p.get("promoted"):
                stats["inside_with_block_bound_names"] = stats.get("inside_with_block_bound_names", 0) + 1
            if po["exc"] is not None:
                stats["py_exc"] += 1
                if inside and not known_mode:
                    ctx.disagree("CPython raised on a generated script whose reference run in the model reads no unbound name (generator bug)", p["src"], None, po["exc"])
                continue
            ps, pl = py_project(po["events"], p)
            fs, fl = user_obs(setup_a, p), [user_obs(t, p) for t in passes_a]
            while len(pl) < NMAX:
                pl.append([])
            diff = None
            if fs != ps:
                diff = ("setup", ps, fs)
            else:
                for k in range(NMAX):
                    if fl[k] != pl[k]:
                        diff = (f"pass {k}", pl[k], fl[k])
                        break
            rec["py_diff"] = diff
            if inside:
                stats["in_guard_python"] += 1
                # model's own reference run must agree with CPython as well (for the programs the model accepts)
                if me is not None and not bool(me[6]) and g["transl_ok"]:
                    mps = user_obs([dec_ev(e) for e in me[4]], p)
                    mpl = [user_obs([dec_ev(e) for e in t], p) for t in me[5]]
                    while len(mpl) < NMAX:
                        mpl.append([])
                    if mps != ps or mpl != pl:
                        ctx.disagree("reference semantics: model py_exec vs CPython", p["src"], [mps, mpl], [ps, pl])
                if diff is not None:
                    rec["fails"].append("python")
                    if not known_mode:
                        ctx.fail(f"firmware and CPython differ on the markers/values of {diff[0]} (N passes = {NMAX}; every prefix N=0..{NMAX} is compared)",
                                 {"src": p["src"], "input": input_script(p)}, {"cpython": diff[1]}, {"firmware": diff[2]}, key="trace-vs-python")
            else:
                stats["outside_guard_python"] += 1
    return records


def motor_first_writes(events, prog):
    """[(motor, pin, first write event)] for motor pins whose first DW/AW is not a 0-write inside setup()"""
    first, phase = {}, "pre"
    for e in events:
        q = e.split(" ")
        if q[0] == "M":
            phase = "setup" if q[1] == "setup" else ("loop" if q[1] == "loop" else phase)
        elif q[0] in ("DW", "AW") and int(q[1]) not in first:
            first[int(q[1])] = (e, phase)
    bad = []
    owners = {}
    for name, (kind, pins, _w) in prog["devs"].items():
        for pin in pins:
            owners[pin] = owners.get(pin, 0) + 1
    for name, (kind, pins, _w) in prog["devs"].items():
        if kind != "Motor":
            continue
        for pin in pins:
            if owners.get(pin, 0) > 1:
                continue          # a pin another declaration also names: what the first write must be is not determined by the motor alone
            if pin in first and (int(first[pin][0].split(" ")[2]) != 0 or first[pin][1] != "setup"):
                bad.append([name, pin, first[pin][0], first[pin][1]])
            elif pin not in first:
                bad.append([name, pin, "never written", ""])
    return bad


def hk_prefix_clean(t, prog):
    """everything before the first user statement of the pass is housekeeping: no delay, no user event"""
    if not prog.get("starts"):
        return True
    start = ("mark", prog["starts"][0])
    if start not in t:
        return True            # reported by the pass-cut-short monitor
    pre = t[:t.index(start)]
    if pre and pre[-1] == ("use", ("ser",), True):
        pre = pre[:-1]
    return all(e[0] in ("poll", "tick", "hand", "huse") for e in pre)


def load_findings(ctx):
    """-> (open findings, fixed entries).  known_findings.d/C05.json (this work package's own file) takes precedence over
    the merged known_findings.json, which ./check manifest assembles from it"""
    import json
    items = {f["id"]: f for f in ctx.findings}
    own = C.VERIF / "known_findings.d" / "C05.json"
    if own.exists():
        for e in json.loads(own.read_text()):
            if e.get("property") == "C05":
                items[e["id"]] = e
    return ([f for f in items.values() if f.get("kind") != "fixed"], [f for f in items.values() if f.get("kind") == "fixed"])


def lexical_witness_failure(w):
    """The witness of a defect of the lexical layer (not in the Gallina model) on the real code.  Decided first on the real
    parse() result - never on wall-clock time: the statements of the `while True:` body must be the user nodes of loop_body
    and must not be in setup_body - and, only when that holds (so setup() returns), on the firmware's markers / values
    against CPython's for N = 0..3.  -> None when the property holds on the witness, else (what, expected, observed)"""
    marks = {int(k): v for k, v in w.get("marks", {}).items()}
    r = C.run_impl("c05_impl.py", {"sources": [w["src"]], "timeout": 20}, timeout=80)[0]
    if not r["ok"]:
        return ("parse()/emit() rejected the script", "accepted", r.get("exc"))
    head, tail = w["src"].split("while True", 1)
    body_marks = sorted(i for i in marks if f'"m{i}"' in tail)
    pre_marks = sorted(i for i in marks if f'"m{i}"' in head)
    dummy = {"devs": {}, "marks": marks}
    in_loop = [n[1] for n in canon_real_ir(r["loop"], dummy) if n[0] == "m"]
    in_setup = [n[1] for n in canon_real_ir(r["setup"], dummy) if n[0] == "m"]
    if in_loop != body_marks or in_setup != pre_marks:
        return ("the body of the main loop is not what parse() puts into loop_body (or the prologue not what it puts into setup_body)",
                {"setup_body": pre_marks, "loop_body": body_marks}, {"setup_body": in_setup, "loop_body": in_loop})
    o = fw.run_sketches([{"cpp": r["cpp"], "input": "", "loops": NMAX}])[0]
    if not o["compiled"] or o["rc"] != 0:
        return ("the firmware did not compile / run to the end of pass %d" % NMAX, "rc 0", (o["compile_log"] or o["stderr"] or str(o["rc"]))[-400:])
    po = fw.pyrun_many([{"src": w["src"], "input": "", "loops": NMAX}])[0]
    if po["exc"] is not None:
        return ("CPython raised on the witness", None, po["exc"])
    f_obs, p_obs = _generic_obs(o["events"], False), _generic_obs(po["events"], True)
    if f_obs != p_obs:
        return ("firmware and CPython differ on the markers of the witness (N = 0..%d by prefix)" % NMAX, {"cpython": p_obs}, {"firmware": f_obs})
    return None


def program_witness_failure(w):
    """The property's own relation on one script (reject-or-preserve): parse() raises ValueError (a clean rejection), or the
    firmware's serial lines / delays / Core writes are CPython's, phase by phase, for N = 0..3 (by prefix).
    -> None when it holds, else (what, expected, observed)"""
    t = fw.transpile_many([w["src"]])[0]
    if not t["ok"]:
        if t["exc"] == "ValueError":
            return None
        return ("parse()/emit() failed with an exception other than ValueError", "accepted or ValueError", t.get("exc"))
    o = fw.run_sketches([{"cpp": t["cpp"], "input": w.get("input", ""), "loops": NMAX}])[0]
    if not o["compiled"] or o["rc"] != 0:
        return ("the firmware did not compile / run to the end of pass %d" % NMAX, "rc 0", (o["compile_log"] or o["stderr"] or str(o["rc"]))[-400:])
    po = fw.pyrun_many([{"src": w["src"], "input": w.get("input", ""), "loops": NMAX}])[0]
    if po["exc"] is not None:
        return ("CPython raised on the witness", None, po["exc"])
    f_obs, p_obs = _generic_obs(o["events"], False), _generic_obs(po["events"], True)
    if f_obs != p_obs:
        return ("firmware and CPython differ on what the script prints (setup, then N = 0..%d passes by prefix)" % NMAX, {"cpython": p_obs}, {"firmware": f_obs})
    return None


def replay_fixed(ctx, f):
    """A repaired defect suppresses nothing: its witness is replayed on the real code and a witness that fails again is a
    property failure (VIOLATION) whose replay is that witness - never a KNOWN-FINDING line."""
    w = f["witness"]
    bad = lexical_witness_failure(w) if w.get("lexical") else program_witness_failure(w)
    if bad is None:
        return "holds"
    ctx.fail(f"the repaired defect {f['id']} is back ({f.get('fixed', 'fixed')}): {bad[0]}",
             {"src": w["src"], "input": "", "fixed_entry": f["id"], "commit": f.get("commit")}, bad[1], bad[2],
             key="main-loop-header" if w.get("lexical") else "fixed-finding-back")
    return "FAILS AGAIN: " + bad[0]


CLASSES = ["plain", "devices", "vars", "nested", "mix", "mix", "nomain", "postloop", "twoloops", "looplocal_top",
           "looplocal_if", "looplocal_for", "setup_inner", "break_nested", "break_main", "break_main_if", "break_top",
           "break_setup_for", "devices", "mix", "looplocal_ok", "looplocal_deep", "looplocal_deep", "looplocal_if",
           "rebind", "rebind_x", "share", "multi", "hk_many", "serial_late", "rebind", "rebind_x", "rebind"]


def run(ctx: C.Ctx):
    rng = ctx.rng
    thorough = ctx.tier == "thorough"
    n_prog = 600 if thorough else 60
    stats = {"verdicts": {}, "ir_nodes": 0, "sketches": 0, "not_compiled": 0, "trace_events": 0, "c_undef": 0,
             "monitor_runs": 0, "in_guard_placement": 0, "in_guard_python": 0, "outside_guard_python": 0, "py_exc": 0}
    def gen(cls, force=None):
        # a script that would need more pins than the board has is drawn again (same seeded stream)
        for _ in range(20):
            try:
                return gen_program(rng, cls, force=force)
            except IndexError:
                continue
        return gen_program(rng, "plain")

    # ---- repaired defects first: their witnesses must hold on the real code (a failing one is a VIOLATION)
    open_findings, fixed_entries = load_findings(ctx)
    fixed_replayed = {f["id"]: replay_fixed(ctx, f) for f in fixed_entries}

    progs = [gen(CLASSES[i % len(CLASSES)]) for i in range(n_prog)]
    # exhaustive over (kind, shape, same/different pins) for a re-bound name of one kind; cross-kind pairs sampled
    forced = []
    for k in HOISTED:
        for shape in ("pre_loop", "pre_pre", "loop_loop"):
            for pins in ("same", "diff"):
                forced.append({"kinds": [k], "shape": shape, "pins": pins, "use": True})
    for k in HOISTED:
        # bound twice before the loop, commanded only after the second binding (and in the loop)
        forced.append({"kinds": [k], "shape": "pre_pre", "pins": "diff", "use": "last"})
    if thorough:
        for k in HOISTED:
            for shape in ("pre_pre_loop", "pre_loop_loop"):
                for pins in ("same", "diff"):
                    forced.append({"kinds": [k], "shape": shape, "pins": pins, "use": False})
        pairs = [(a, c) for a in HOISTED for c in HOISTED if a != c and {a, c} != {"Servo", "Pot"}]
    else:
        pairs = rng.sample([(a, c) for a in HOISTED for c in HOISTED if a != c and {a, c} != {"Servo", "Pot"}], 10)
    for a, c in pairs:
        forced.append({"kinds": [a, c], "shape": rng.choice(["pre_loop", "pre_pre", "loop_loop"]), "pins": "rand", "use": True})
    progs += [gen("rebind", force=f) for f in forced]
    # ---- names bound inside prologue blocks (every form alone, then mixed), breaks behind else / try / except lines
    specials = [("prom_" + f, [f]) for f in PROM_FORMS]
    progs += [gen_special(rng, "prom_" + f, force=[f], quiet=True) for f in PROM_FORMS]
    specials += [(SPECIAL_CLASSES[i % len(SPECIAL_CLASSES)], None) for i in range(170 if thorough else 17)]
    chains = [[a] for a in BRK_WRAPPERS] + [[a, c] for a in BRK_WRAPPERS for c in BRK_WRAPPERS]
    if thorough:
        chains += [[a, c, d] for a in BRK_WRAPPERS for c in BRK_WRAPPERS for d in BRK_WRAPPERS]
    specials += [("brk_reject", ch) for ch in chains]
    specials += [("brk_legal", ch) for ch in (chains if thorough else rng.sample(chains, 8))]
    progs += [gen_special(rng, c, force=f) for c, f in specials]
    cls_count = {}
    for p in progs:
        cls_count[p["cls"]] = cls_count.get(p["cls"], 0) + 1
    records = []
    for i in range(0, len(progs), 100):
        records += check_batch(ctx, progs[i:i + 100], stats)

    n_matrix = break_matrix(ctx, stats, thorough)
    n_matrix += persistence_templates(ctx, stats, thorough)

    # ---- N really is a prefix: run a few sketches with N = 0, 1, 2 and compare with the N = 3 trace
    prefix_checked = 0
    sample = [r for r in records if "abs" in r][: (12 if thorough else 4)]
    jobs = [{"cpp": r["real"]["cpp"], "input": input_script(r["prog"]), "loops": n} for r in sample for n in (0, 1, 2)]
    outs = fw.run_sketches(jobs)
    pys = fw.pyrun_many([{"src": r["prog"]["src"], "input": input_script(r["prog"]), "loops": n} for r in sample for n in (0, 1, 2)])
    for j, r in enumerate(sample):
        full = r["fw"]["events"]
        for n in (0, 1, 2):
            o = outs[j * 3 + n]
            cut = full.index(f"M loop {n}") if f"M loop {n}" in full else len(full) - 1
            if o["events"][:-1] != full[:cut]:
                ctx.disagree("firmware trace for N passes is not a prefix of the trace for 3 passes", r["prog"]["src"], n, None)
            po = pys[j * 3 + n]
            if "py" in r and r["py"]["exc"] is None and po["exc"] is None:
                pfull = r["py"]["events"]
                pcut = pfull.index(f"M loop {n}") if f"M loop {n}" in pfull else len(pfull) - 1
                if po["events"][:-1] != pfull[:pcut]:
                    ctx.disagree("CPython trace for N passes is not a prefix of the trace for 3 passes", r["prog"]["src"], n, None)
            prefix_checked += 1

    # ---- pin expressions: variable pins re-assigned between declarations, judged on the executed firmware
    pin_findings = [f for f in open_findings if f["witness"].get("family") == "pinexpr"]
    open_findings = [f for f in open_findings if f["witness"].get("family") != "pinexpr"]
    n_pin, pin_dist, pin_samples = PX.run_family(ctx, pin_findings)
    # ---- animations started from helper functions: same display as the inline spelling after setup() and every pass
    n_animfn = AF.run_family(ctx, thorough)

    # ---- known findings: replay the listed witnesses on the real code
    for f in open_findings:
        w = f["witness"]
        marks = {int(k): v for k, v in w.get("marks", {}).items()}
        if w.get("lexical"):
            if lexical_witness_failure(w) is not None:
                ctx.known(f"{f['id']}: {f['what']}")
            continue
        devs = {"mon": ("Serial", [], "setup")}
        devs.update({k: (v[0], list(v[1]), v[2]) for k, v in w.get("devs", {}).items()})
        prog = {"src": w["src"], "items": w["items"], "marks": marks,
                "inputs": {int(k): list(v) for k, v in w.get("inputs", {}).items()},
                "lcd_user_row": {}, "lcd_anim_rows": {}, "lcd_order": [], "devs": devs,
                "cls": "witness", "sentinels": w.get("sentinels", []), "starts": []}
        probe_stats = {k: (0 if not isinstance(v, dict) else {}) for k, v in stats.items()}
        rec = check_batch(ctx, [prog], probe_stats, known_mode=True)[0]
        if w.get("monitor") == "cbu":
            # configured-before-use witness: the monitor fails on the real firmware trace (and the model says: outside well_placed)
            if "cbu" in rec.get("fails", []):
                ctx.known(f"{f['id']}: {f['what']}")
                if rec.get("guard") and rec["guard"]["well_placed"]:
                    ctx.disagree("known-finding witness is inside the model's guard", w["src"], rec["guard"], rec["fails"])
        elif rec.get("py_diff") is not None:
            ctx.known(f"{f['id']}: {f['what']}")

    n_inside = stats["in_guard_python"]
    ctx.coverage.update({
        "evaluations": len(progs) + stats["monitor_runs"] + prefix_checked + n_matrix + n_pin + n_animfn,
        "distinct_nontrivial": len({p["src"] for p in progs if any(it[0] == "main" for it in p["items"]) or p["cls"] == "nomain"}),
        "rule": "seeded structured scripts (classes below; nested blocks are if / if-else / for / while / try-except; classes looplocal_*: names first bound inside `while True:` (directly, behind an if, behind two header lines of if / for / while / try in every order) and accumulated from pass to pass; postloop / twoloops: statements / a second `while True:` after the main loop (must be rejected); classes prom_*: names first bound inside an if / else / for / while / try / except block of the prologue and re-assigned by plain assignments in `while True:`; brk_*: `break` behind every chain of if / else / try / except lines up to depth 2 (3 in the thorough tier), with and without an inner for / while; plus the text-level break placement matrix incl. elif / typed and multiple handlers / nested `while True:`); every script goes through real parse() (IR compared node by node with the model), real emit() + g++ + mock core for 3 passes (trace compared with the model's exec; extracted and Python monitors on the real trace; markers/values compared with CPython for every N in 0..3 by prefix, the prefix property itself checked on a sample). non-trivial = distinct script text.  Pin-expression family (coq/Lang/EmitPin.v): straight-line scripts with one or two int globals; Led / RGBLed / Ultrasonic / Buzzer / DCMotor / Button declared before the main loop and (hoisted kinds) at its top with pin arguments `v`, `v + k` or literals; the variable advanced (`v += w`, `v = v + w`, `v = u + 1`, `v = 6`) between declarations, inside the loop, before hoisted declarations; names re-bound to the same text; exhaustive over in-place kinds x {2,3 devices} x {commanded after each declaration, only the last}; real emit() + g++ + mock for 3 passes, numeric pinMode / access events compared with the model's executed trace and, inside the guard, judged by the monitor.",
        "samples": [progs[1]["src"], progs[4]["src"]] + pin_samples,
        "distribution": {"classes": cls_count, "parse_verdicts": stats["verdicts"], "ir_nodes_compared": stats["ir_nodes"],
                         "sketches_run": stats["sketches"], "sketches_not_compiled": stats["not_compiled"],
                         "abstract_trace_events_compared": stats["trace_events"], "model_says_c_undefined": stats["c_undef"],
                         "monitor_runs_on_real_traces": stats["monitor_runs"], "inside_placement_guard": stats["in_guard_placement"],
                         "inside_unique_names_guard_of_v1": stats.get("unique_guard", 0),
                         "inside_placement_guard_only_since_rebinding_is_modelled": stats.get("only_new_guard", 0),
                         "compared_with_cpython_inside_guard": n_inside, "outside_guard_not_compared": stats["outside_guard_python"],
                         "cpython_exceptions": stats["py_exc"], "prefix_runs": prefix_checked,
                         "motor_pins_checked_for_safe_stop": stats.get("motor_pins_checked", 0),
                         "compared_with_cpython_having_names_first_bound_inside_the_main_loop": stats.get("inside_with_loop_locals", 0),
                         "reference_run_reads_an_unbound_name_not_compared": stats.get("python_reads_unbound_name", 0),
                         "scripts_with_statements_after_the_main_loop": stats.get("after_main_loop", 0),
                         "of_which_rejected_with_ValueError": stats.get("after_main_loop_rejected", 0),
                         "after_main_loop_templates": stats.get("after_main_templates", {}),
                         "compared_with_cpython_having_names_bound_inside_prologue_blocks": stats.get("inside_with_block_bound_names", 0),
                         "scripts_that_must_be_rejected_for_a_break": stats.get("must_reject", 0),
                         "break_placement_matrix": stats.get("break_matrix", {}),
                         "persistence_templates": stats.get("persistence_templates", {}),
                         "statement_kinds": stmt_kind_count(progs),
                         "scripts_with_comments": sum(1 for p in progs if p.get("comments", (0, 0)) != (0, 0)),
                         "main_loop_headers_with_trailing_comment": sum(p.get("comments", (0, 0))[0] for p in progs),
                         "comment_only_lines": sum(p.get("comments", (0, 0))[1] for p in progs),
                         "fixed_entries_replayed_first": fixed_replayed,
                         "pin_expression_family": pin_dist,
                         "animation_from_function_spellings_compared_with_inline": n_animfn,
                         "device_kinds_setup": sorted({d[0] for p in progs for d in p["devs"].values() if d[2] == "setup"}),
                         "device_kinds_loop": sorted({d[0] for p in progs for d in p["devs"].values() if d[2] == "loop"})},
        "exhaustive": False,
        "guard": "oracle vs CPython: every generated script that parse() accepts and whose reference run reads no unbound name (CPython would raise NameError: outside the property) - no guard on variables (names first assigned inside `while True:`, directly or behind one or two header lines, and names hoisted twice in the prologue are generated on purpose: classes looplocal_*, setup_inner, prom_for_if, persistence templates loop_first_* and setup_double_hoist); a script with anything after the main loop must be rejected with ValueError (classes postloop, twoloops, after-main-loop templates) and is compared with CPython like any other script if it is ever accepted again; configure-before-use monitors: model says well_placed (devices declared by top-level statements, loop-top declarations only of the hoisted kinds, Buzzer/LCD/SerialMonitor names bound once, a device name bound several times only with one main loop as last item, one mode per pin, and the static resolution check: with emit()'s bindings and dedup keys at each point of the text every statement / poll / tick / handler only touches pins configured by the hoisted block or an earlier in-place configuration). Outside: F-C05-button-rebound-unconfigured, F-C05-ultrasonic-rebound-early-measure. F-C05-looplocal-reinit, F-C05-postloop-in-setup and F-C05-second-main-loop-appended are kind=fixed: they exclude nothing, their witnesses are replayed first on every run (reject-or-preserve on the witness script) and a failing one is a VIOLATION. Comments are inside the guard since /repo 3df520b (F-C05-main-header-comment is kind=fixed: it excludes nothing, generated scripts carry trailing comments on the main-loop header and comment-only lines at any column, its witness is replayed first on every run). The break guard, housekeeping (hk_ok), no-pass-cut-short and motor safe-stop oracles have no guard.  Pin-expression family: the numeric-pin monitor judges a script iff the model's `pins_tracked` holds (static tracking over the emitted straight line: a pin text counts as configured only while no variable it mentions has been assigned since the pinMode that evaluated it ran; a request whose emit() key (device name, pin text, role) is already in the set configures nothing).  Outside: F-C05-pinvar-rebound-same-text, F-C05-pinvar-command-reads-late, F-C05-pinvar-hoisted-reads-early, F-C05-pinvar-looptop-reads-early (witnesses replayed every run; scripts outside the guard are still compared with the model event by event).",
        "unmodelled": ["devices declared inside nested blocks (outside the property's quantifier)",
                       "pin expressions: the model (EmitPin.v) is straight-line (no nested blocks around variable-pin declarations), expressions are literals, `v`, `v + k` over int globals; Servo / LCD / Potentiometer pins stay literal (a Potentiometer pin must be a literal for parse(); a Servo object is attached once per name and its writes go to the object, so attach-before-write cannot depend on the pin value); which numeric pin Python's object would drive (value at declaration time) is not compared - only that every pin the firmware touches was configured first; within one block of accesses between two pinMode events the model and the firmware are compared as sets of (pin, direction)",
                       "re-binding of a Buzzer / LCD / SerialMonitor name (not of the hoisted set; names kept unique by the guard)",
                       "which COMMAND the parser emits for a method shared by two classes when a name was bound to both (`on`/`off` of a name that was ever an RGBLed are parsed as RGBLed commands and drive the old RGB pins - configured, so not a C05 matter; a behaviour-preservation defect): likewise `read` of a name that was ever a Servo is the Servo getter; generated re-binding scripts use methods only one class has (toggle, set_color, write, set_speed, measure_distance; `read` only when the name is never a Servo)",
                       "a re-bound Servo name keeps driving the pin of its FIRST declaration (one Servo object per name, attached once) and a re-bound Ultrasonic name always measures on the pins of its LAST declaration: modelled as is (the commanded pins are configured, configure-before-use holds on the trace); that the commands reach the wrong pin is a behaviour-preservation defect outside this property's statement",
                       "the lexical layer (comments, header recognition) is not in the Gallina model: the model sees the abstract program; half of the generated scripts are rendered with a trailing comment on the `while True:` header (several spacings, comment texts containing quotes, colons and header look-alikes) and comment-only lines at columns 0..16 before / between / after the statements of every block, so the real parser's handling of them is inside both engines (IR placement and traces are compared with the model of the comment-free program, and with CPython, which ignores comments); trailing comments on other lines are not generated",
                       "the order in which the emitted ButtonPoll stores __redu_button_value_<b> and calls the on_click handler (changed by /repo 97f26e6) is not observable in this model's event vocabulary (is_pressed() reads a cached sample and is no pin access; generated handlers only print markers): that clause is C15's",
                       "the value a DCMotor is stopped with / a Servo is first written with (the model has 'a write'; the harness checks on the real trace that the first write on every motor pin is a 0-write inside setup())",
                       "tuple assignment, elif chains, augmented assignment and helper functions reading a global first bound inside the main loop are not in the Gallina statement language: they are in the text-level persistence templates (firmware vs CPython)",
                       "`elif` chains, several `except` clauses, typed handlers (`except E as e:`), a nested `while True:`: not in the Gallina model; they are in the text-level break placement matrix (parse() verdict and BreakStmt placement in the real Program for every chain of header lines up to depth 2, depth 3 sampled / exhaustive in the thorough tier)",
                       "`except` handlers never run (nothing in the generated fragment raises, in CPython as in C++): the model has them for the break guard, for promotion and for the IR only; exception semantics themselves are outside C05",
                       "a nested `while x:` is modelled with 64 iterations of fuel (a run that needs more sets the outside-the-model flag; generated loops count down from <= 3)",
                       "`continue` (C01/C07), functions other than marker-only button handlers, functions reading globals; lcd.animate call sites inside helper functions are not in the Gallina model (C18's DLCDInject.v has them): text-level oracle c05_animfn.py (display after setup() and after each of 8 passes equals the inline spelling's, two animations per script, styles scroll / typewriter / blink, one or two helper functions in either definition order)",
                       "LCD / Buzzer / SerialMonitor declared inside `while True:` (not hoisted kinds; outside the quantifier)",
                       "expression layer (C01-C03): only int literals and `x + literal` are used", "timing: animations use speed_ms=0 so that every tick is observable",
                       "order of several names promoted out of one block (set iteration order, C10): generated blocks introduce at most one name"],
        "trusted_base": C.COMMON_TRUSTED + [
            "mock Arduino core mock/*.h, mock/mock_core.cpp (definition of 'device'), g++ -std=gnu++17 -O0",
            "harness/impl/pyrun_impl.py + CPython 3.12 (definition of 'what Python does'; `while True:` cut after N passes)",
            "harness/props/c05.py: script renderer (abstract program -> Python text), IR canonicaliser, trace abstraction (mock events -> abstract events, animation frame = one tick), Python copies of the monitors (cross-checked against the extracted ones on every trace)",
            "harness/impl/c05_impl.py (calls parse()/emit(), dumps the Program dataclasses generically)",
            "N in {0,1,2}: by prefix of the N=3 run (firmware and CPython are deterministic given the scripted inputs; checked on a sample each run)"],
    })
    ctx.assumptions += ["the mock core's event order is the device's order of effects", "scripted digitalRead levels stand for the button history",
                        "C int does not overflow on the generated values (|v| < 1000)"]


# ----------------------------------------------------------------------------------------------
# ./check replay <file>: re-run the recorded script on the real transpiler, the firmware and CPython
# ----------------------------------------------------------------------------------------------

def _generic_obs(events, python):
    """per phase: Serial lines, sleeps and Core analog writes (what a user can tell apart)"""
    _pre, setup, loops = fw.split_phases(events)

    def conv(evs):
        out = []
        for e in evs:
            q = e.split(" ")
            if q[0] == "S":
                text = e[2:].split("\t")[0] if python else e[2:]
                if not (re.fullmatch(r"-?\d+(\.\d+)?", text) and abs(float(text)) >= VAL_LIMIT / 1000 and "." in text):
                    out.append("S " + text)
            elif q[0] == "D":
                out.append(e)
            elif q[0] == "AW" and int(q[1]) == CORE_PIN:
                out.append(e)
        return out
    return [conv(setup)] + [conv(l) for l in loops]


def replay(data):
    case = data.get("case") or {}
    if isinstance(case, dict) and case.get("family") in ("pinexpr", "pinexpr-servo"):
        return PX.replay(case)
    if isinstance(case, dict) and case.get("family") == "animfn":
        return AF.replay(case)
    src = case.get("src") if isinstance(case, dict) else (case if isinstance(case, str) else None)
    if not src:
        print("replay: no script in this file (proof failure: see the fields above)")
        return 0
    key = data.get("key", "")
    inp = case.get("input", "") if isinstance(case, dict) else ""
    t = fw.transpile_many([src])[0]
    print("parse()/emit():", "accepted" if t["ok"] else f"{t['exc']}: {t.get('msg', '')[:200]}")
    if key == "main-loop-header":
        bad = lexical_witness_failure({"src": src, "marks": {str(i): "ser" for i in map(int, re.findall(r'"m(\d+)"', src))}})
        print("REPRODUCED [main-loop-header]: %s\n   expected: %s\n   observed: %s" % bad if bad else "replay: the witness holds now")
        return 1 if bad else 0
    if key == "break-accepted":
        print("REPRODUCED [break-accepted]" if t["ok"] else "replay: the script is rejected now")
        return 1 if t["ok"] else 0
    if not t["ok"]:
        print("replay: nothing to run")
        return 0
    o = fw.run_sketches([{"cpp": t["cpp"], "input": inp, "loops": NMAX}])[0]
    if not o["compiled"] or o["rc"] != 0:
        print("firmware did not compile / run:", (o["compile_log"] or o["stderr"] or str(o["rc"]))[-800:])
        return 1
    dummy = {"marks": {}, "lcd_anim_rows": {}, "lcd_order": [], "devs": {}}
    setup_a, passes_a = abstract_trace(o["events"], dummy, set())
    whole = setup_a + [e for p in passes_a for e in p]
    ok_cbu, bad_cbu = py_cbu(whole)
    ok_one, bad_one = py_one_mode(whole)
    print("configured-before-use:", "ok" if ok_cbu else f"FAILS at {bad_cbu}")
    print("one mode per pin:", "ok" if ok_one else f"FAILS at {bad_one}")
    po = fw.pyrun_many([{"src": src, "input": inp, "loops": NMAX}])[0]
    f_obs = _generic_obs(o["events"], False)
    rc = 0 if (ok_cbu and ok_one) else 1
    if po["exc"] is None:
        p_obs = _generic_obs(po["events"], True)
        for k, (a, b_) in enumerate(zip(p_obs + [[]] * 4, f_obs)):
            tag = "setup" if k == 0 else f"pass {k - 1}"
            same = a == b_
            print(f"{tag}: {'same' if same else 'DIFFERENT'}\n   cpython : {a}\n   firmware: {b_}")
            if not same:
                rc = 1
    else:
        print("CPython raised:", po["exc"])
    print("firmware events of setup() and the first pass:")
    for e in o["events"][:80]:
        print("   ", e)
    print("REPRODUCED" if rc else "replay: no difference on this case now")
    return rc
