"""C05, housekeeping clause for animations started from helper functions.

'Housekeeping the transpiler injects (LCD animation ticks) runs exactly once per loop() pass': every started animation must be
advanced by its own tick once per pass.  Starting an animation inline in the prologue or from a helper function called at the
same place is the same Python program, so the display contents after setup() and after every pass must be the same in the
three spellings (both inline / one from a function / each from its own function).  The inline spelling is the one the model
and the hk_ok monitor of c05.py judge; this oracle carries that verdict over to function call sites (emit() numbers the
animation state variables per call site over setup, loop, functions - shared counter).  Text-level, no Gallina model
(C18's DLCDInject.v models the tick injection itself)."""
from __future__ import annotations

from harness import fw

HEAD = ("from Reduino.Displays import LCD\nfrom Reduino.Utils import sleep\n\n"
        "lcd = LCD(i2c_addr=0x27, cols=8, rows=2)\n")
TAIL = "while True:\n    sleep(1)\n"
ANIMS = {
    "scroll0": 'lcd.animate("scroll", 0, "HELLO WORLD", speed_ms=0, loop=True)',
    "scroll1": 'lcd.animate("scroll", 1, "abcdefghijkl", speed_ms=0, loop=True)',
    "type1": 'lcd.animate("typewriter", 1, "READY", speed_ms=0, loop=False)',
    "type0": 'lcd.animate("typewriter", 0, "STATUS", speed_ms=0, loop=True)',
    "blink1": 'lcd.animate("blink", 1, "ALERT", speed_ms=0, loop=True)',
}
PAIRS = [("scroll0", "type1"), ("scroll0", "scroll1"), ("type0", "blink1"), ("type0", "scroll1")]
PASSES = 8


def variants(a, b, third=None):
    A, Bn = ANIMS[a], ANIMS[b]
    v = {"inline": HEAD + A + "\n" + Bn + "\n" + TAIL,
         "one_function": HEAD + "def show_b():\n    " + Bn + "\n\n" + A + "\nshow_b()\n" + TAIL,
         "two_functions": HEAD + "def show_a():\n    " + A + "\n\ndef show_b():\n    " + Bn + "\n\nshow_a()\nshow_b()\n" + TAIL,
         "two_functions_b_first_defined": HEAD + "def show_b():\n    " + Bn + "\n\ndef show_a():\n    " + A + "\n\nshow_a()\nshow_b()\n" + TAIL}
    return v


def lcd_frames(events):
    """the LD dump lines grouped by phase (after setup, after each pass)"""
    frames, cur = [], []
    for e in events:
        if e.startswith("M "):
            if cur:
                frames.append(cur)
            cur = []
        elif e.startswith("LD "):
            cur.append(e)
    if cur:
        frames.append(cur)
    return frames


def run_family(ctx, thorough):
    pairs = PAIRS if thorough else PAIRS[:2]
    cases = [(p, name, src) for p in pairs for name, src in variants(*p).items()]
    ts = fw.transpile_many([c[2] for c in cases])
    jobs, idx = [], []
    for i, t in enumerate(ts):
        if t["ok"]:
            idx.append(i)
            jobs.append({"cpp": t["cpp"], "input": "", "loops": PASSES, "env": {"REDU_LCD_DUMP": "1"}})
    outs = dict(zip(idx, fw.run_sketches(jobs)))
    judged = 0
    for p in pairs:
        ref = None
        for i, (pp, name, src) in enumerate(cases):
            if pp != p:
                continue
            o = outs.get(i)
            if o is None or not o["compiled"] or o["rc"] != 0:
                # functions are outside this property; a spelling parse()/g++ rejects is not judged here (C06)
                continue
            fr = lcd_frames(o["events"])
            if name == "inline":
                ref = fr
                continue
            if ref is None:
                continue
            judged += 1
            if fr != ref:
                k = next((j for j, (x, y) in enumerate(zip(fr, ref)) if x != y), min(len(fr), len(ref)))
                ctx.fail("animation ticks (housekeeping once per pass, each started animation advanced by its own tick): the display "
                         "differs from the inline spelling of the same script when the animations are started from helper functions",
                         {"src": src, "family": "animfn", "inline": variants(*p)["inline"], "passes": PASSES},
                         {"phase": k, "display": ref[k] if k < len(ref) else None},
                         {"phase": k, "display": fr[k] if k < len(fr) else None}, key="animfn-ticks")
    return judged


def replay(case):
    ts = fw.transpile_many([case["inline"], case["src"]])
    if not all(t["ok"] for t in ts):
        print("parse()/emit() rejected one spelling:", [t.get("exc") for t in ts])
        return 0
    outs = fw.run_sketches([{"cpp": t["cpp"], "input": "", "loops": case.get("passes", PASSES), "env": {"REDU_LCD_DUMP": "1"}} for t in ts])
    a, b = (lcd_frames(o["events"]) for o in outs)
    print(case["src"])
    for k, (x, y) in enumerate(zip(a, b)):
        print(("setup " if k == 0 else f"pass {k - 1}"), "same" if x == y else "DIFFERENT", "\n   inline   :", x, "\n   functions:", y)
    print("REPRODUCED" if a != b else "replay: no difference on this case now")
    return 1 if a != b else 0
