"""C05, pin-EXPRESSION family: devices whose pin argument is a variable / `var + k`, re-assigned between declarations.

Model: coq/Lang/EmitPin.v (wire cases 3 and 4 of coq/Wire/C05W.v).  Every generated straight-line script goes through the
real parse()+emit(), g++ and the mock core for NP passes; the executed trace (numeric pins) is
  * compared with the model's executed trace (emit()'s keys) - correspondence, inside and outside the guard;
  * judged by the configured-before-use monitor (extracted + Python copy) when the model says the script is inside the
    guard `pins_tracked` - property oracle (concrete replay).
Scripts outside the guard are the listed findings (F-C05-pinvar-*); their witnesses are replayed on every run.
"""
from __future__ import annotations

from harness import common as C
from harness import fw

NP = 3
VARS = ["pin", "base", "q"]
QK = {"Led": 0, "RGB": 1, "Ultra": 2, "Buzzer": 3, "Motor": 4, "Button": 5}
NPINS = {"Led": 1, "RGB": 3, "Ultra": 2, "Buzzer": 1, "Motor": 3, "Button": 1}
CLS = {"Led": "Led", "RGB": "RGBLed", "Ultra": "Ultrasonic", "Buzzer": "Buzzer", "Motor": "DCMotor", "Button": "Button"}
PREFIX = {"Led": "led", "RGB": "rgb", "Ultra": "us", "Buzzer": "bz", "Motor": "mot", "Button": "btn"}
INPLACE = ["Led", "RGB", "Ultra"]                    # prologue: configured at the declaration
HOISTED_PRE = ["Buzzer", "Motor", "Button"]          # prologue: configured at the top of setup()
LOOPTOP = ["Led", "RGB", "Ultra", "Motor", "Button"]  # kinds the emitter hoists from the top of `while True:`

HEADER = ("from Reduino.Actuators import Led, RGBLed, Buzzer, DCMotor\n"
          "from Reduino.Sensors import Ultrasonic, Button\n"
          "from Reduino.Communication import SerialMonitor\n"
          "mon = SerialMonitor(9600)\n")


# ------------------------------------------------------------------------------------------ abstract programs
def pe_text(e):
    if e[0] == "lit":
        return str(e[1])
    if e[0] == "var":
        return VARS[e[1]]
    return f"{VARS[e[1]]} + {e[2]}"


def enc_pe(e):
    return [0, e[1]] if e[0] == "lit" else ([1, e[1]] if e[0] == "var" else [2, e[1], e[2]])


def dev_name(kind, idx):
    return f"{PREFIX[kind]}{idx:02d}"


def dev_id(kind, idx):
    """numbers of the model: unique over kinds; among Buttons the order of the numbers is the sorted order of the names"""
    return QK[kind] * 100 + idx


def enc_stmt(s):
    if s[0] == "set":
        return [0, s[1], enc_pe(s[2])]
    if s[0] == "decl":
        return [1, QK[s[1]], dev_id(s[1], s[2]), [enc_pe(e) for e in s[3]]]
    return [2, dev_id(s[1], s[2])]


def render_stmt(s, ind, style):
    if s[0] == "set":
        x, e = VARS[s[1]], s[2]
        if e[0] == "add" and e[1] == s[1] and style % 2 == 0:
            return f"{ind}{x} += {e[2]}"
        return f"{ind}{x} = {pe_text(e)}"
    if s[0] == "decl":
        return f"{ind}{dev_name(s[1], s[2])} = {CLS[s[1]]}({', '.join(pe_text(e) for e in s[3])})"
    kind, nm = s[1], dev_name(s[1], s[2])
    if kind == "Led":
        return f"{ind}{nm}.toggle()"
    if kind == "RGB":
        return f"{ind}{nm}.set_color(1, 2, 3)"
    if kind == "Ultra":
        return f"{ind}mon.write({nm}.measure_distance())"
    if kind == "Buzzer":
        return f"{ind}{nm}.play_tone(440, 0.001)"
    if kind == "Motor":
        return f"{ind}{nm}.stop()"
    raise ValueError(kind)


def render(prog):
    lines = [HEADER.rstrip("\n")]
    for i, s in enumerate(prog["pre"]):
        lines.append(render_stmt(s, "", prog.get("style", 0) + i))
    lines.append("while True:")
    body = [render_stmt(s, "    ", prog.get("style", 0) + i) for i, s in enumerate(prog["loop"])]
    lines += body if body else ["    mon.write(0)"]
    return "\n".join(lines) + "\n"


def model_case(prog, n=NP):
    return [3, n, [enc_stmt(s) for s in prog["pre"]], [enc_stmt(s) for s in prog["loop"]]]


def dec_trace(w):
    return [("c", e[1], e[2]) if e[0] == 0 else ("u", e[1], bool(e[2])) for e in w]


# ------------------------------------------------------------------------------------------ real traces
def abstract_events(events):
    """mock events -> numeric-pin configuration / use events"""
    out = []
    for ev in events:
        q = ev.split(" ")
        if q[0] == "PM":
            out.append(("c", int(q[1]), int(q[2])))
        elif q[0] in ("DW", "AW", "T", "NT"):
            out.append(("u", int(q[1]), True))
        elif q[0] in ("DR", "PI", "AR"):
            out.append(("u", int(q[1]), False))
    return out


def canon(trace):
    """configuration events in order; between two of them the SET of (pin, direction) touched"""
    out, cur = [], set()
    for e in trace:
        if e[0] == "c":
            if cur:
                out.append(("u", sorted(cur)))
                cur = set()
            out.append(e)
        else:
            cur.add((e[1], e[2]))
    if cur:
        out.append(("u", sorted(cur)))
    return out


def compat(m, w):
    return m == 1 if w else m in (0, 2)


def py_cbu(trace):
    cfg = set()
    for i, e in enumerate(trace):
        if e[0] == "c":
            cfg.add((e[1], e[2]))
        elif not any(p == e[1] and compat(m, e[2]) for p, m in cfg):
            return False, (i, e)
    return True, None


def enc_trace(trace):
    return [[0, e[1], e[2]] if e[0] == "c" else [1, e[1], bool(e[2])] for e in trace]


# ------------------------------------------------------------------------------------------ generators
class B:
    """builder of one straight-line program"""

    def __init__(self, rng):
        self.rng = rng
        self.pre, self.loop = [], []
        self.count = {k: 0 for k in QK}
        self.val = {}          # the harness's own tracking of variable values, to keep pins on the board

    def new(self, kind):
        self.count[kind] += 1
        return self.count[kind]

    def set(self, where, x, e):
        where.append(("set", x, e))

    def decl(self, where, kind, idx, pins):
        where.append(("decl", kind, idx, pins))

    def cmd(self, where, kind, idx):
        if kind != "Button":
            where.append(("cmd", kind, idx))

    def prog(self, cls):
        p = {"pre": self.pre, "loop": self.loop, "cls": cls, "style": self.rng.randrange(4)}
        p["src"] = render(p)
        return p


def pins_from(x, n, off=0):
    return [("var", x) if off + i == 0 else ("add", x, off + i) for i in range(n)]


def gen_advance(rng, kinds, cmd_each=True, copies=None):
    """pin = a; d1 = K(pin..); [d1.cmd()]; pin += w; d2 = K(pin..); ...; the loop commands the last device only"""
    b = B(rng)
    x = rng.randrange(2)
    b.set(b.pre, x, ("lit", rng.choice([2, 3, 4])))
    last = None
    for j, k in enumerate(kinds):
        if j:
            b.set(b.pre, x, ("add", x, NPINS[kinds[j - 1]] + rng.choice([0, 0, 1])))
        idx = b.new(k)
        b.decl(b.pre, k, idx, pins_from(x, NPINS[k]))
        if cmd_each or j == len(kinds) - 1:
            b.cmd(b.pre, k, idx)
        last = (k, idx)
    b.cmd(b.loop, *last)
    return b.prog("advance")


def gen_arith(rng, kinds):
    """base = a; devices on base + k for distinct k, base never re-assigned: every kind, before the loop and at its top"""
    b = B(rng)
    x = rng.randrange(2)
    b.set(b.pre, x, ("lit", rng.choice([2, 3])))
    off, devs = 0, []
    for k in kinds:
        at_loop = k in LOOPTOP and rng.random() < 0.35
        idx = b.new(k)
        b.decl(b.loop if at_loop else b.pre, k, idx, pins_from(x, NPINS[k], off))
        off += NPINS[k]
        devs.append((k, idx, at_loop))
        if not at_loop and rng.random() < 0.6:
            b.cmd(b.pre, k, idx)
    for k, idx, _ in devs:
        b.cmd(b.loop, k, idx)
    return b.prog("arith")


def gen_rebind(rng, kind, form):
    """one NAME bound twice before the loop to different pin texts (offset / other variable / literal), the variable not
    re-assigned in between: every declaration needs its own pinMode although the name is the same"""
    b = B(rng)
    n = NPINS[kind]
    b.set(b.pre, 0, ("lit", rng.choice([2, 3])))
    b.set(b.pre, 1, ("lit", rng.choice([9, 10])))
    idx = b.new(kind)
    b.decl(b.pre, kind, idx, pins_from(0, n))
    if rng.random() < 0.5:
        b.cmd(b.pre, kind, idx)
    second = {"offset": pins_from(0, n, n), "other": pins_from(1, n), "literal": [("lit", 15 + i) for i in range(n)]}[form]
    b.decl(b.pre, kind, idx, second)
    b.cmd(b.pre, kind, idx)
    b.cmd(b.loop, kind, idx)
    return b.prog("rebind_text")


def gen_defect(rng, form, kind):
    """the listed classes outside the guard (correspondence only; never judged by the oracle)"""
    b = B(rng)
    x = 0
    n = NPINS[kind]
    b.set(b.pre, x, ("lit", 3))
    idx = b.new(kind)
    if form == "same_name":                  # d = K(pin); pin += w; d = K(pin); d.cmd()
        b.decl(b.pre, kind, idx, pins_from(x, n))
        b.set(b.pre, x, ("add", x, n))
        b.decl(b.pre, kind, idx, pins_from(x, n))
        b.cmd(b.pre, kind, idx)
    elif form == "capture":                  # d = K(pin); pin += w; d.cmd()
        b.decl(b.pre, kind, idx, pins_from(x, n))
        b.set(b.pre, x, ("add", x, n))
        b.cmd(b.pre, kind, idx)
    elif form == "hoisted":                  # pin += w; d = K(pin)   (K configured at the top of setup())
        b.set(b.pre, x, ("add", x, n))
        b.decl(b.pre, kind, idx, pins_from(x, n))
        b.cmd(b.pre, kind, idx)
    elif form == "looptop":                  # pin += w; while True: d = K(pin); d.cmd()
        b.set(b.pre, x, ("add", x, n))
        b.decl(b.loop, kind, idx, pins_from(x, n))
    b.cmd(b.loop, kind, idx)
    return b.prog("defect_" + form)


def gen_random(rng):
    """random straight-line mix: two variables, assignments from each other, re-bound names, loop-top declarations,
    assignments inside the loop"""
    b = B(rng)
    b.set(b.pre, 0, ("lit", rng.choice([2, 3, 4])))
    if True:
        b.set(b.pre, 1, rng.choice([("lit", rng.choice([8, 9])), ("add", 0, rng.choice([4, 5])), ("var", 0)]))
    have_q = rng.random() < 0.3
    nvars = 2
    live = []
    for _ in range(rng.randrange(3, 9)):
        r = rng.random()
        if r < 0.25:
            x = rng.randrange(nvars)
            b.set(b.pre, x, rng.choice([("add", x, rng.choice([1, 2, 3])), ("add", 1 - x, 1), ("lit", rng.choice([5, 6, 10]))]))
        elif r < 0.7 or not live:
            k = rng.choice(list(QK))
            if live and rng.random() < 0.2:
                same = [d for d in live if d[0] == k]
                idx = rng.choice(same)[1] if same else b.new(k)
            else:
                idx = b.new(k)
            x = rng.randrange(nvars)
            pins = pins_from(x, NPINS[k], rng.choice([0, 0, 1, 3])) if rng.random() < 0.85 else \
                [("lit", 14 + i) for i in range(NPINS[k])]
            b.decl(b.pre, k, idx, pins)
            live.append((k, idx))
        else:
            b.cmd(b.pre, *rng.choice(live))
    for _ in range(rng.randrange(0, 3)):
        k = rng.choice(LOOPTOP)
        idx = b.new(k)
        x = rng.randrange(nvars)
        b.decl(b.loop, k, idx, pins_from(x, NPINS[k], rng.choice([0, 6, 9])))
        live.append((k, idx))
    for _ in range(rng.randrange(1, 4)):
        if live and rng.random() < 0.8:
            b.cmd(b.loop, *rng.choice(live))
        elif have_q or rng.random() < 0.3:
            x = rng.randrange(nvars)
            b.set(b.loop, x, ("add", x, 1))
    if not b.loop and live:
        b.cmd(b.loop, *live[-1])
    return b.prog("random")


def generate(rng, thorough):
    progs = []
    # the seeded shape and its neighbours, exhaustively over the in-place kinds: two and three devices on one advancing
    # variable, commanded right after each declaration / only the last one
    for k in INPLACE:
        for n in (2, 3):
            for each in (True, False):
                progs.append(gen_advance(rng, [k] * n, cmd_each=each))
    for a in INPLACE:
        for c in INPLACE:
            if a != c:
                progs.append(gen_advance(rng, [a, c], cmd_each=True))
    for _ in range(40 if thorough else 4):
        progs.append(gen_advance(rng, [rng.choice(INPLACE) for _ in range(rng.randrange(2, 5))], cmd_each=rng.random() < 0.6))
    for k in ["Led", "RGB", "Motor", "Buzzer"]:      # (an Ultrasonic / Button name bound twice: listed findings of the literal-pin model)
        for form in ("offset", "other", "literal"):
            progs.append(gen_rebind(rng, k, form))
    for k in QK:
        progs.append(gen_arith(rng, [k, k]))
    for _ in range(40 if thorough else 4):
        progs.append(gen_arith(rng, [rng.choice(list(QK)) for _ in range(rng.randrange(2, 5))]))
    for k in ["Led", "RGB", "Motor", "Buzzer"]:
        progs.append(gen_defect(rng, "same_name", k))
    for k in ["Led", "RGB", "Ultra", "Motor", "Buzzer"]:
        progs.append(gen_defect(rng, "capture", k))
    for k in HOISTED_PRE:
        progs.append(gen_defect(rng, "hoisted", k))
    for k in LOOPTOP:
        progs.append(gen_defect(rng, "looptop", k))
    for _ in range(200 if thorough else 18):
        progs.append(gen_random(rng))
    return progs


# ------------------------------------------------------------------------------------------ Servo (oracle only)
SERVO_HEADER = "from Reduino.Actuators import Servo\n"


def gen_servo(rng, form):
    """Servo objects on a variable pin: one Servo object per NAME, attached once in the hoisted block; the oracle is on the
    object: every write of the executed firmware goes to an attached object (the mock reports pin -1 for an unattached one)
    and every Servo name is attached exactly once.  Not in the Gallina model (the resource is the object, not the pin)."""
    a = rng.choice([3, 5, 9])
    n = rng.choice([2, 3])
    lines = [SERVO_HEADER.rstrip("\n"), f"pin = {a}"]
    names = []
    where_loop = form == "looptop"
    body = []
    for j in range(n):
        nm = f"sv{j + 1:02d}"
        names.append(nm)
        arg = "pin" if form in ("advance", "looptop", "same_text") else f"pin + {j}"
        tgt = body if where_loop else lines
        ind = "    " if where_loop else ""
        tgt.append(f"{ind}{nm} = Servo({arg})")
        if rng.random() < 0.7 or j == n - 1:
            tgt.append(f"{ind}{nm}.write({rng.choice([10, 45, 90])})")
        if form == "advance" and j < n - 1:
            lines.append(rng.choice(["pin += 1", "pin = pin + 1"]))
    lines.append("while True:")
    body.append(f"    {names[-1]}.write({rng.choice([20, 120])})")
    body.append(f"    {names[0]}.write(30)")
    return {"src": "\n".join(lines + body) + "\n", "names": names, "cls": "servo_" + form}


def servo_family(ctx, thorough):
    rng = ctx.rng
    progs = [gen_servo(rng, f) for f in ("advance", "arith", "same_text", "looptop") for _ in range(6 if thorough else 2)]
    ts = fw.transpile_many([p["src"] for p in progs])
    jobs, idx = [], []
    for i, (p, t) in enumerate(zip(progs, ts)):
        if not t["ok"]:
            ctx.disagree("pin expressions: parse()/emit() rejected a generated Servo script", p["src"], "accepted", t.get("exc"))
            continue
        idx.append(i)
        jobs.append({"cpp": t["cpp"], "input": "", "loops": NP})
    judged = 0
    for i, o in zip(idx, fw.run_sketches(jobs)):
        p = progs[i]
        if not o["compiled"] or o["rc"] != 0:
            ctx.disagree("pin expressions: emitted Servo sketch does not compile / run", p["src"], None, (o["compile_log"] or o["stderr"])[-600:])
            continue
        ok, bad = servo_cbu(o["events"], len(p["names"]))
        judged += 1
        if not ok:
            ctx.fail("Servo attach-before-write (executed firmware): a Servo object is written before it was attached / a Servo name is not attached exactly once",
                     {"src": p["src"], "family": "pinexpr-servo", "servos": len(p["names"])},
                     "every SVW/SVU on an attached object; one attach per Servo name", bad, key="pinexpr-servo-attach")
    return judged


def gen_backlight(rng):
    """parallel LCD whose backlight pin is `base + k`, base never re-assigned (pinMode hoisted to the top of setup())"""
    a, k = rng.choice([4, 6]), rng.choice([2, 3, 5])
    arg = rng.choice([f"base + {k}", "base"])
    src = ("from Reduino.Displays import LCD\n" f"base = {a}\n"
           f"lcd = LCD(rs=12, en=11, d4=5, d5=4, d6=3, d7=2, cols=16, rows=2, backlight_pin={arg})\n"
           f"lcd.brightness({rng.choice([10, 100, 200])})\nwhile True:\n    lcd.brightness(50)\n")
    return {"src": src, "cls": "lcd_backlight"}


def backlight_family(ctx, thorough):
    progs = [gen_backlight(ctx.rng) for _ in range(6 if thorough else 2)]
    ts = fw.transpile_many([p["src"] for p in progs])
    ok_i = [i for i, t in enumerate(ts) if t["ok"]]
    judged = 0
    for i, o in zip(ok_i, fw.run_sketches([{"cpp": ts[i]["cpp"], "input": "", "loops": NP} for i in ok_i])):
        if not o["compiled"] or o["rc"] != 0:
            continue
        real = abstract_events(o["events"])
        ok, bad = py_cbu(real)
        judged += 1
        if not ok or not any(e[0] == "u" for e in real):
            ctx.fail("configured-before-use (executed firmware, numeric pins): LCD backlight pin written without an earlier pinMode for it",
                     {"src": progs[i]["src"], "family": "pinexpr"}, "analogWrite(p) preceded by pinMode(p, OUTPUT)",
                     {"first_unconfigured_access": list(bad[1]) if bad else None, "trace": [list(e) for e in real[:20]]}, key="pinexpr-cbu")
    return judged


def servo_cbu(events, n_names):
    attached, n_att = set(), 0
    for e in events:
        q = e.split(" ")
        if q[0] == "SVA":
            attached.add(int(q[1]))
            n_att += 1
        elif q[0] in ("SVW", "SVU") and int(q[1]) not in attached:
            return False, {"write_on_unattached_object": e}
    if n_att != n_names:
        return False, {"attach_events": n_att, "servo_names": n_names}
    return True, None


# ------------------------------------------------------------------------------------------ engines
def evaluate(ctx, progs, stats, judge=True):
    """-> per program {"inside", "model", "real", "cbu_real"}; reports disagreements / failures unless judge is False"""
    srcs = [p["src"] for p in progs]
    ts = fw.transpile_many(srcs)
    have_model = ctx.exe is not None
    ms = ctx.model([model_case(p) for p in progs]) if have_model else [None] * len(progs)
    jobs, job_of = [], {}
    recs = []
    for i, (p, t) in enumerate(zip(progs, ts)):
        rec = {"prog": p, "inside": None, "ok": t["ok"]}
        recs.append(rec)
        if ms[i] is not None:
            if ms[i][0] != 0:
                ctx.disagree("pin expressions: model could not decode the case", p["src"], ms[i], None)
                continue
            rec["model"] = dec_trace(ms[i][1])
            rec["inside"] = bool(ms[i][2])
            rec["model_cbu"] = bool(ms[i][3])
            rec["model_textkey"] = dec_trace(ms[i][4])
            if rec["inside"] and not rec["model_cbu"]:
                ctx.disagree("pin expressions: model inside the guard but its own trace fails the monitor (theorem violated?)", p["src"], ms[i], None)
        if not t["ok"]:
            stats["rejected"] = stats.get("rejected", 0) + 1
            if judge:
                ctx.disagree("pin expressions: parse()/emit() rejected a generated straight-line script", p["src"], "accepted", t.get("exc"))
            continue
        job_of[i] = len(jobs)
        jobs.append({"cpp": t["cpp"], "input": "", "loops": NP})
    outs = fw.run_sketches(jobs)
    stats["sketches"] = stats.get("sketches", 0) + len(jobs)
    mon_cases, mon_idx = [], []
    for i, rec in enumerate(recs):
        if i not in job_of:
            continue
        o = outs[job_of[i]]
        p = rec["prog"]
        if not o["compiled"] or o["rc"] != 0:
            stats["not_compiled"] = stats.get("not_compiled", 0) + 1
            if judge:
                ctx.disagree("pin expressions: emitted sketch does not compile / run", p["src"], None, (o["compile_log"] or o["stderr"])[-600:])
            continue
        real = abstract_events(o["events"])
        rec["real"] = real
        ok, bad = py_cbu(real)
        rec["cbu_real"], rec["bad"] = ok, bad
        stats["events"] = stats.get("events", 0) + len(real)
        mon_cases.append([4, enc_trace(real)])
        mon_idx.append(i)
        if not judge:
            continue
        if "model" in rec and canon(rec["model"]) != canon(real):
            ctx.disagree("pin expressions: executed firmware trace (pinMode / pin accesses with numeric pins) vs model", p["src"],
                         canon(rec["model"]), canon(real))
        if rec["inside"]:
            stats["inside"] = stats.get("inside", 0) + 1
            if not ok:
                ctx.fail("configured-before-use (executed firmware, numeric pins): a pin is accessed without an earlier pinMode for it",
                         {"src": p["src"], "family": "pinexpr", "pre": p["pre"], "loop": p["loop"]},
                         "every DW/AW/tone/DR/pulseIn on pin p preceded by a fitting pinMode(p, ...)",
                         {"first_unconfigured_access": list(bad[1]), "at_event": bad[0],
                          "trace": [list(e) for e in real[:40]]}, key="pinexpr-cbu")
        elif rec["inside"] is False:
            stats["outside"] = stats.get("outside", 0) + 1
    if have_model and mon_cases:
        mm = ctx.model(mon_cases)
        for i, m in zip(mon_idx, mm):
            stats["monitor_runs"] = stats.get("monitor_runs", 0) + 1
            if m[0] != 0 or bool(m[1]) != recs[i]["cbu_real"]:
                ctx.disagree("pin expressions: extracted monitor vs its Python copy on a real trace", recs[i]["prog"]["src"], m, recs[i]["cbu_real"])
    return recs


def run_family(ctx, findings):
    """-> (number of evaluations, distribution dict)"""
    thorough = ctx.tier == "thorough"
    stats = {}
    progs = generate(ctx.rng, thorough)
    recs = evaluate(ctx, progs, stats)
    cls = {}
    for p in progs:
        cls[p["cls"]] = cls.get(p["cls"], 0) + 1
    kinds_pre, kinds_loop = {}, {}
    for p in progs:
        for s in p["pre"]:
            if s[0] == "decl":
                kinds_pre[s[1]] = kinds_pre.get(s[1], 0) + 1
        for s in p["loop"]:
            if s[0] == "decl":
                kinds_loop[s[1]] = kinds_loop.get(s[1], 0) + 1
    # ---- the text-only keying of the model must differ from emit()'s on some generated script inside the guard
    #      (otherwise the generators would not exercise the name component of the key)
    name_matters = sum(1 for r in recs if r.get("inside") and "model" in r and canon(r["model"]) != canon(r["model_textkey"]))
    if ctx.exe is not None and name_matters == 0:
        ctx.disagree("pin expressions: no generated script inside the guard distinguishes emit()'s keys from text-only keys", None, None, None)
    # ---- listed findings of this family: replay the witnesses
    for f in findings:
        w = f["witness"]
        prog = {"pre": [_tup(s) for s in w["pre"]], "loop": [_tup(s) for s in w["loop"]], "cls": "witness", "style": 1}
        prog["src"] = w["src"]
        if render(prog) != w["src"]:
            ctx.disagree("pin expressions: witness text and witness program differ", w["src"], render(prog), None)
        rec = evaluate(ctx, [prog], {}, judge=False)[0]
        if rec.get("cbu_real") is False:
            ctx.known(f"{f['id']}: {f['what']}")
            if rec.get("inside"):
                ctx.disagree("pin expressions: known-finding witness is inside the model's guard", w["src"], None, None)
            if "model" in rec and canon(rec["model"]) != canon(rec["real"]):
                ctx.disagree("pin expressions: model does not reproduce the known-finding witness trace", w["src"], canon(rec["model"]), canon(rec["real"]))
    n_servo = servo_family(ctx, thorough)
    n_bl = backlight_family(ctx, thorough)
    dist = {"lcd_backlight_scripts_judged (variable backlight pin, never re-assigned)": n_bl,
            "servo_scripts_judged_on_the_object (attach once per name, every write on an attached object)": n_servo,
            "classes": cls, "sketches_run": stats.get("sketches", 0), "sketches_not_compiled": stats.get("not_compiled", 0),
            "rejected_by_parse": stats.get("rejected", 0), "numeric_pin_events_compared": stats.get("events", 0),
            "inside_guard_judged_by_the_monitor": stats.get("inside", 0), "outside_guard_correspondence_only": stats.get("outside", 0),
            "inside_guard_where_text_only_keys_would_differ": name_matters,
            "declarations_before_the_loop": kinds_pre, "declarations_at_loop_top": kinds_loop,
            "extracted_monitor_runs_on_real_traces": stats.get("monitor_runs", 0)}
    return len(progs) + n_servo + n_bl + stats.get("monitor_runs", 0), dist, [progs[0]["src"], progs[-1]["src"]]


def _tup(s):
    if s[0] == "set":
        return ("set", s[1], tuple(s[2]))
    if s[0] == "decl":
        return ("decl", s[1], s[2], [tuple(e) for e in s[3]])
    return ("cmd", s[1], s[2])


def replay(case):
    """./check replay: run the recorded script, print the numeric-pin trace and the monitor verdict"""
    t = fw.transpile_many([case["src"]])[0]
    if not t["ok"]:
        print("parse()/emit():", t.get("exc"), t.get("msg", "")[:200])
        return 0
    o = fw.run_sketches([{"cpp": t["cpp"], "input": "", "loops": NP}])[0]
    if not o["compiled"] or o["rc"] != 0:
        print("firmware did not compile / run:", (o["compile_log"] or o["stderr"])[-600:])
        return 1
    if case.get("family") == "pinexpr-servo":
        ok, bad = servo_cbu(o["events"], case["servos"])
        print(case["src"])
        print("servo events:", " ".join("[" + e + "]" for e in o["events"] if e.startswith("SV")))
        print("REPRODUCED: %s" % bad if not ok else "replay: no difference on this case now")
        return 0 if ok else 1
    real = abstract_events(o["events"])
    ok, bad = py_cbu(real)
    print(case["src"])
    print("numeric-pin trace:", " ".join(("pinMode(%d,%d)" % (e[1], e[2])) if e[0] == "c" else ("%s(%d)" % ("write" if e[2] else "read", e[1])) for e in real[:60]))
    print("configured-before-use:", "ok" if ok else f"FAILS at event {bad[0]}: {bad[1]}")
    print("REPRODUCED" if not ok else "replay: no difference on this case now")
    return 0 if ok else 1
