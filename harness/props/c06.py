"""C06 - accepted scripts always yield well-formed, compilable Arduino C++."""
from __future__ import annotations

import json
import re
from collections import Counter

from harness import common as C
from harness import fw
from harness import c06_gen as G
from harness import c06_sections as S
from harness import c06_pairs as PR
from harness import c06_scope as CS
from harness import c06_comp as CC
from harness import pyast_wire as PW
from harness import progen
from harness import stmt_wire as SW

META = {
    "id": "C06",
    "technique": "Coq proof (escape = _escape_string_literal - backslash, quote, LF / CR / TAB as letter escapes, every other control character as a three-digit octal escape - round-trips through a model of the g++ string-literal lexer for EVERY string, its image contains no control character, it is injective and agrees with the pre-repair function on strings without control characters, which in turn is shown to fail on a raw line end; the emitter's stitching order - with one prototype per function variant and ultrasonic helper after the globals - is sorted by section kind with one setup and one loop, declared-before-use of file-scope names holds under a guard that lets a function mention any function and any ultrasonic helper, in particular for a function that calls measure_distance() or a function defined further down, and is refuted for the order without prototypes; every assignment in the IR of the statement translator targets a variable visible under C++ block scoping, by induction over the translation incl. promotion and both rewriters, refuted for a setup-local introduced by a mixed tuple assignment; the header stitching includes the headers of every library class it instantiates, for every list of device declarations (Lang/Headers.v); the function-selection loop of parse() emits each (function, signature) once, only existing variants and every variant a recorded call resolves to, and no two definitions share name and C++ parameter list when the labels are those of _cpp_type's table (Lang/FnSelect.v); every device-call template of _emit_block keeps its helper locals in a block of its own, so any sequence of device calls in any block is free of redeclaration, and a whole function body is when the script's own declarations are (Lang/EmitScope.v: scope stack of C++ block scoping, LCD glyph arrays numbered by a counter that only grows); the global lines de-duplicated by text define no name twice when each name is always offered with one initialiser, refuted for a Servo bound twice with different limits (Lang/Globals.v); the table of names the parser refuses to declare - regenerated from the parser on every run - contains every keyword and alternative token of ISO C++17, setup / loop / main, the Arduino core identifiers the emitter writes and every A<digits>, so an accepted script declares none of them (Lang/Reserved.v); the exception classes emit() declares at file scope are exactly the classes some except clause of setup / loop / a function body names at any depth, each once, and the qualified name of the catch header is the declared path (Lang/ExcDecl.v); a list comprehension declares its variable as the parameter of a block of its own - for every right-hand side and every state of the enclosing scopes nothing is redeclared and the enclosing scopes are left as they were - and, over the real save / write int / restore mechanism on the one mutable var_types table, an assignment changes the recorded type of the assigned name only, so that the declarations a sequence of assignments causes are those of lexical scoping, each name once; refuted for a `finally` that pops instead of restoring (Lang/CompScope.v)) + extracted-model correspondence with the real _escape_string_literal / _to_c_expr, with g++'s own lexer, with the section structure read back from the real emitted text, of the scoping verdict with g++, of the include list / library objects with the real text for the device declarations of the real IR, of the selected function variants with Program.functions for the real specialisation tables, and of the blocks and declarations of setup / loop / every user function that the emitter model produces for the real IR with those read back from the real text + the compiler as property oracle: the whole statement catalog (every device method with literal and run-time arguments, every statement that makes the transpiler invent a C++ name) twice in ONE block of every kind of block, reduced by ddmin to a minimal failing sequence; every accepted generated script inside the guard is compiled and linked with g++ against the mock core, every generated literal (printable or with control characters, NUL excepted) is printed by the firmware and compared with the Python value; the images of the real escape are compiled by g++ and read back byte by byte",
    "level_text": "Theorems C06_* (coq/Props/C06.v) hold for all strings / all sketches / all programs of Gallina models (coq/Lang/Escape.v: escape and a lexer of one ordinary C++ string literal incl. line splicing and octal / hexadecimal escapes; coq/Lang/Sections.v: the emitter's stitching order incl. the generated prototypes, with defines/uses per top-level item; coq/Lang/Scope.v: C++ block scoping over the IR of coq/Lang/Transl.v, the model of the statement translator that unit C01_stmt ties to parser.py; coq/Lang/Headers.v: servo/LCD flags, library objects and includes as a fold over the top-level device declarations; coq/Lang/FnSelect.v: the selection loop over variants / recorded call signatures / aliases / primary signature and _cpp_type; coq/Lang/EmitScope.v: per IR node kind the blocks it opens and the names it declares, written from the branches of _emit_block, and the scope stack that decides 'declared twice in one scope'; coq/Lang/Globals.v: de-duplication of global lines by text; coq/Lang/Reserved.v: _check_identifier over the regenerated table; coq/Lang/ExcDecl.v: _exception_classes / _exception_class_decl over the IR tree as _nested_blocks sees it; coq/Lang/CompScope.v: the scope tokens of the lambda a comprehension becomes, and the declaration bookkeeping of single-name assignments over Lang/InferComp.v's model of the var_types bracket, with a lexically scoped reference). The models are run against the real functions and against g++ on generated inputs; the C++ type checker is not modelled - g++ itself decides, on every accepted script of a structured generator (devices x helpers x lists x functions incl. forward calls and measuring functions x control flow x string literals incl. control characters) restricted to the guard of the listed findings.",
    "level_note": "Trusted: Coq kernel, extraction, OCaml driver, g++ 12 -std=gnu++17 and the mock Arduino core as the definition of 'compiles', harness/c06_sections.py (reads top-level items, defined and used names out of the emitted text), harness/c06_gen.py (script generator and the syntactic guard shapes_of). Theorems are about the models; what ties the whole transpiler to the property is the compiler oracle, a search, not a proof.",
    "design_ref": "DESIGN.md section 4 C06",
}

HEAD = ("from Reduino import target\ntarget(\"COM3\")\nfrom Reduino.Communication import SerialMonitor\n"
        "from Reduino.Utils import sleep\nmon = SerialMonitor(9600)\n")


# ------------------------------------------------------------------ helpers
def local_findings(ctx):
    items = {f["id"]: f for f in ctx.findings}
    f = C.VERIF / "known_findings.d" / "C06.json"
    if f.exists():
        for e in json.loads(f.read_text()):
            if e.get("property") == "C06":
                items.setdefault(e["id"], e)
    return list(items.values())


def impl(op, **kw):
    return C.run_impl("c06_impl.py", dict(op=op, **kw), timeout=1800)


def cps(s):
    return [ord(c) for c in s]


def transpile(sources, chunk=150):
    consts, out = None, []
    for k in range(0, len(sources), chunk):
        r = impl("transpile", sources=sources[k:k + chunk], timeout=20)
        consts = r["consts"]
        out += r["results"]
    return consts, out


def unescape_event(e: str) -> bytes:
    out = bytearray()
    i = 0
    while i < len(e):
        if e[i] == "\\" and i + 1 < len(e) and e[i + 1] == "\\":
            out.append(0x5C)
            i += 2
        elif e[i] == "\\" and i + 3 < len(e) and e[i + 1] == "x":
            out.append(int(e[i + 2:i + 4], 16))
            i += 4
        else:
            out += e[i].encode("utf-8")
            i += 1
    return bytes(out)


def err_key(log: str) -> str:
    errs = re.findall(r"error: (.*)", log)
    if not errs:
        return "compile:" + log.strip().splitlines()[-1][:80] if log.strip() else "compile:?"
    k = re.sub(r"‘[^’]*’", "‘…’", errs[0])
    return "compile:" + k[:90]


def in_guard_string(s: str) -> bool:
    """every string: the guard of F-C06-line-end-in-literal (str.isprintable) is gone with the repair of the escape"""
    return True


def device_value_ok(s: str) -> bool:
    """the device-value oracle of part C needs a value a C string can carry (no NUL: const char* / String(const char*) end there -
    the literal itself is right, see parts A and B) that is UTF-8 encodable"""
    try:
        s.encode("utf-8")
    except UnicodeEncodeError:
        return False
    return "\x00" not in s


def serial_lines(data: bytes):
    """what the mock's Serial makes of a byte stream: split at LF, one CR before the LF dropped (mock_core.cpp HardwareSerial::write)"""
    out = []
    for ln in data.split(b"\n")[:-1]:
        out.append(ln[:-1] if ln.endswith(b"\r") else ln)
    return out


# ------------------------------------------------------------------ A. escape / _to_c_expr
CONTROL_POOL = ["\n", "\r", "\t", "a\nb", "a\rb", "a\r\nb", "\\\n", "a\\\nb", "\n\"", "\"\n", "x\ty", "\x01", "\x7f", "\x0b\x0c", "line1\nline2\nline3", "\\\r", "\\\r\n", "\u2028", "\x85"]


def gen_strings(rng, n):
    out = list(G.SPECIAL_STRINGS)
    # exhaustive short strings over the boundary alphabet (control characters included since the repair of the escape)
    alpha = ["\\", "\"", "'", "?", "a", "/", "n", "0", "x", "%", "é", " ", "\n", "\r", "\t", "\x00", "\x01", "\x1f", "\x7f", "7", "8"]
    out += alpha
    out += [a + b for a in alpha for b in alpha]
    tri = ["\\", "\"", "?", "n", "é", "\n", "\x01", "1"]
    out += [a + b + c for a in tri for b in tri for c in tri]
    # every code point below 256 alone and in front of a character an unclosed numeric escape would absorb / that closes a literal
    for c in range(256):
        out.append(chr(c))
        for nxt in ("0", "7", "8", "a", "f", "\\", "\"", "\n"):
            out.append(chr(c) + nxt)
    base = len(out)
    k = 0
    while len(out) < base + n:
        k += 1
        out.append(G.gen_printable(rng, rng.choice([3, 8, 12, 30])) if k % 2 else G.gen_any_string(rng, rng.choice([3, 8, 12, 30])))
    return out


def part_escape(ctx, dist, samples):
    rng = ctx.rng
    thorough = ctx.tier == "thorough"
    strs = gen_strings(rng, 4000 if thorough else 900)
    ctl = list(CONTROL_POOL)
    for _ in range(400 if thorough else 80):
        s = list(G.gen_printable(rng, 8))
        for _ in range(rng.randint(1, 2)):
            s.insert(rng.randint(0, len(s)), rng.choice(["\n", "\r", "\t", "\\\n", "\x00", "\x1b"]))
        ctl.append("".join(s))
    allstr = strs + ctl
    got = impl("escape", strings=[cps(s) for s in allstr])
    n_eval = 0
    nontriv = set()
    m_esc = [None] * len(allstr)
    if ctx.exe:
        mo = ctx.model([[0, s] for s in allstr])
        for k, (s, m, g) in enumerate(zip(allstr, mo, got)):
            n_eval += 1
            if m[0] != 0 or m[1] != g:
                ctx.disagree("escape: model vs _escape_string_literal", {"string": s, "codepoints": cps(s)}, m, g)
            else:
                m_esc[k] = C.wstr(m[1])
            if g != cps(s):
                nontriv.add(s)
        # the model's own round trip (theorem C06_escape_roundtrip_partial, executed): inside the guard it must hold
        rests = [rng.choice(["", ";", ");\n  x = \"y\";", "\\", "\n"]) for _ in allstr]
        mr = ctx.model([[2, s, r] for s, r in zip(allstr, rests)])
        for s, r, m in zip(allstr, rests, mr):
            n_eval += 1
            no_le = "\n" not in s and "\r" not in s
            dist["model_roundtrip:" + ("holds" if m == [0, 1] else "fails") + (":no-line-end" if no_le else ":line-end")] += 1
            if m != [0, 1]:
                ctx.disagree("model round trip fails (contradicts theorem C06_escape_roundtrip: extraction or wire bug)", {"string": s, "rest": r}, m, None)
    # property oracle on the implementation: lex the REAL escaped text with the model lexer
    guard_idx = [k for k, s in enumerate(allstr) if in_guard_string(s)]
    if ctx.exe:
        lit = ["\"" + "".join(chr(c) for c in got[k]) + "\";" for k in guard_idx]
        ml = ctx.model([[1, t] for t in lit])
        for k, m in zip(guard_idx, ml):
            n_eval += 1
            s = allstr[k]
            if m[0] != 0 or C.wstr(m[1]) != s or C.wstr(m[2]) != ";":
                ctx.fail("the C++ literal produced by _escape_string_literal does not denote the Python string",
                         {"string": s, "codepoints": cps(s), "emitted_literal": lit[guard_idx.index(k)]},
                         {"content": s, "rest": ";"}, m, key="escape-lex")
    # the three call sites of the escape inside the expression translator
    exprs, want = [], []
    for k in guard_idx:
        s = allstr[k]
        e = m_esc[k] if m_esc[k] is not None else "".join(chr(c) for c in got[k])
        exprs.append(repr(s)); want.append(("const", s, f'"{e}"'))
        if s:
            exprs.append(G.fstring_literal(rng, [("s", s)])); want.append(("fstring-plain", s, f'"{e}"'))
            if k % 3 == 0:
                exprs.append(G.fstring_literal(rng, [("e", "xv"), ("s", s)])); want.append(("fstring-tail", s, f'(String(xv) + "{e}")'))
                exprs.append(G.fstring_literal(rng, [("s", s), ("e", "xv")])); want.append(("fstring-head", s, f'(String("{e}") + String(xv))'))
    gotc = impl("to_c", exprs=[cps(x) for x in exprs])
    for x, (site, s, w), g in zip(exprs, want, gotc):
        n_eval += 1
        dist["to_c:" + site] += 1
        if g is None:
            dist["to_c:raised"] += 1
            continue
        gs = "".join(chr(c) for c in g)
        if gs != w:
            ctx.disagree(f"_to_c_expr ({site}): emitted text differs from quote + model escape + quote", {"expr": x, "string": s}, w, gs)
    dist["strings:printable"] = sum(1 for s in allstr if s.isprintable())
    dist["strings:with-control-char"] = sum(1 for s in allstr if any(ord(c) < 32 or ord(c) == 127 for c in s))
    dist["strings:with-line-end"] = sum(1 for s in allstr if "\n" in s or "\r" in s)
    dist["strings:needing-escape"] = len(nontriv)
    samples += [{"string": allstr[5], "escaped": "".join(chr(c) for c in got[5])}]
    escaped = {s: "".join(chr(c) for c in g) for s, g in zip(allstr, got)}
    return n_eval, len(nontriv), allstr, escaped


# ------------------------------------------------------------------ B. the lexer model vs g++
SIMPLE = ["\\n", "\\t", "\\\\", "\\\"", "\\'", "\\?", "\\a", "\\b", "\\f", "\\r", "\\v"]
OCT = ["\\0", "\\7", "\\12", "\\101", "\\377", "\\1", "\\60", "\\141"]
HEX = ["\\x41", "\\x7f", "\\x9", "\\x0a", "\\xff", "\\x5C"]
HEX_LOW = ["\\x41", "\\x7f", "\\x9", "\\x0a", "\\x5C"]
OCT_LOW = ["\\0", "\\7", "\\12", "\\101", "\\1", "\\60", "\\141"]
PLAIN = [c for c in G.ASCII_PRINTABLE if c not in "\"\\"]


def gen_raw_literal(rng, ascii_only):
    """-> raw text of a C++ string literal body (between the quotes)"""
    n = rng.randint(0, 9)
    out = []
    for _ in range(n):
        q = rng.random()
        if q < 0.35:
            out.append(rng.choice(PLAIN))
        elif q < 0.5:
            out.append(rng.choice(SIMPLE))
        elif q < 0.6:
            out.append(rng.choice(OCT if ascii_only else OCT_LOW))
        elif q < 0.7:
            # in a non-ASCII body a hex escape is always closed by a non-hex character, so that it cannot grow to a value
            # >= 0x80 (one byte in g++, but indistinguishable from a verbatim character in the model's code-point list)
            out.append(rng.choice(HEX if ascii_only else HEX_LOW) + rng.choice(["", " ", "g", "-"] if ascii_only else [" ", "g", "-"]))
        elif q < 0.78:
            out.append(rng.choice(["??/", "??=", "??(", "?\\?", "??/n"]))
        elif q < 0.84:
            out.append(rng.choice(["\\\n", "\\\r\n"]))
        elif q < 0.9 and not ascii_only:
            out.append(rng.choice(G.UNICODE_POOL))
        else:
            out.append(rng.choice(["%d", "%%", "/*", "//", "a", "0", "7", "x4", "\\\\n"]))
    return "".join(out)


def part_lexer(ctx, dist, escaped):
    """escaped: {string: the text the REAL _escape_string_literal produced for it} (part A)"""
    if not ctx.exe:
        return 0
    rng = ctx.rng
    thorough = ctx.tier == "thorough"
    n = 1200 if thorough else 240
    bodies = []
    origin = {}
    for k in range(n):
        ascii_only = k % 2 == 0
        bodies.append((gen_raw_literal(rng, ascii_only), ascii_only))
    # images of the REAL escape: the special strings, every string with a control character or a line end (sampled), each code
    # point below 256 in front of a digit - g++ itself must read the literal back as the UTF-8 bytes of the Python string
    pool = [s for s in escaped if device_value_ok(s.replace("\x00", ""))]
    ctl = [s for s in pool if any(ord(c) < 32 or ord(c) == 127 for c in s)]
    rng.shuffle(ctl)
    chosen = list(G.SPECIAL_STRINGS[:40] if not thorough else G.SPECIAL_STRINGS) + [chr(c) + "7" for c in range(256)] + ctl[:(3000 if thorough else 500)]
    for s in chosen:
        if s in escaped:
            origin[len(bodies)] = s
            bodies.append((escaped[s], s.isascii()))
    dist["lexer:images of the real escape compiled by g++"] = len(origin)
    rests = [rng.choice([";", "; // \"", ";\n"]) for _ in bodies]
    mo = ctx.model([[1, "\"" + b + "\"" + r] for (b, _), r in zip(bodies, rests)])
    ok = [(k, m) for k, m in enumerate(mo) if m[0] == 0]
    dist["lexer:model-accepts"] = len(ok)
    dist["lexer:model-none"] = len(mo) - len(ok)
    per = 150
    jobs, groups = [], []
    for g0 in range(0, len(ok), per):
        grp = ok[g0:g0 + per]
        lines = ["#include <Arduino.h>", "#include <cstdio>",
                 "static void __dump(int k, const char *p, size_t n) { printf(\"X %d\", k); for (size_t i = 0; i < n; i++) printf(\" %d\", (unsigned char)p[i]); printf(\"\\n\"); }"]
        for k, _ in grp:
            lines.append(f"static const char L{k}[] = \"{bodies[k][0]}\";")
        lines.append("void setup() {")
        for k, _ in grp:
            lines.append(f"  __dump({k}, L{k}, sizeof(L{k}) - 1);")
        lines += ["}", "void loop() {}", ""]
        jobs.append({"cpp": "\n".join(lines), "loops": 0})
        groups.append(grp)
    # a few literals the model rejects because of a raw line end: g++ must reject them too
    le = [("a\nb", "raw LF"), ("a\rb", "raw CR"), ("\n", "only LF"), ("a\\\"\nb", "LF after an escaped quote")]
    for body, _ in le:
        jobs.append({"cpp": f"#include <Arduino.h>\nstatic const char L0[] = \"{body}\";\nvoid setup() {{}}\nvoid loop() {{}}\n", "compile_only": True})
    res = fw.run_sketches(jobs)
    n_eval = 0
    for grp, r in zip(groups, res):
        if not r["compiled"]:
            ctx.disagree("lexer model accepts a literal that g++ rejects (one of this translation unit)", {"log": r["compile_log"][-800:]}, "lexes", "g++ error")
            continue
        got = {}
        for e in r["events"]:
            if e.startswith("X "):
                p = e.split()
                got[int(p[1])] = [int(x) for x in p[2:]]
        for k, m in grp:
            n_eval += 1
            body, ascii_only = bodies[k]
            ascii_only = body.isascii()
            content = m[1]
            want = list(content) if ascii_only else None
            if not ascii_only:
                try:
                    want = list("".join(chr(c) for c in content).encode("utf-8"))
                except (UnicodeEncodeError, ValueError):
                    continue
            if k in origin:
                s = origin[k]
                if got.get(k) != list(s.encode("utf-8")):
                    ctx.fail("the C++ literal produced by _escape_string_literal is read by g++ as another string",
                             {"string": s, "codepoints": cps(s), "emitted_literal": "\"" + body + "\""},
                             list(s.encode("utf-8")), got.get(k), key="escape-g++")
            if got.get(k) != want or C.wstr(m[2]) != rests[k]:
                ctx.disagree("C++ string-literal lexer: model vs g++ (bytes of the literal)", {"literal_body": body, "codepoints": cps(body)}, want, got.get(k))
    for (body, why), r in zip(le, res[len(groups):]):
        n_eval += 1
        m = ctx.model([[1, "\"" + body + "\";"]])[0]
        dist["lexer:line-end-literals"] += 1
        if (m[0] == 0) != bool(r["compiled"]):
            ctx.disagree(f"C++ lexer on a literal with a line end ({why}): model vs g++", {"literal_body": body}, m, "compiles" if r["compiled"] else "g++ error")
    return n_eval


# ------------------------------------------------------------------ C. printable literals end to end
CONTEXTS = ["write", "var", "list", "arg", "fstr", "concat", "aug", "ret", "ternary", "cmp", "lcd"]


def literal_script(rng, items):
    """items: [(case id, string, context)] -> script printing each value after a marker line"""
    pre, body = [], []
    pre.append("def show(t: str):\n    mon.write(t)")
    pre.append("kx = 7")
    if any(cx == "lcd" for _, _, cx in items):
        pre.append("from Reduino.Displays import LCD\npanel = LCD(i2c_addr=0x27)")
    for cid, s, cx in items:
        lit = G.py_literal(rng, s)
        body.append(f'mon.write("@@c06case {cid}")')
        if cx == "write":
            body.append(f"mon.write({lit})")
        elif cx == "var":
            body += [f"sv{cid} = {lit}", f"mon.write(sv{cid})"]
        elif cx == "list":
            body += [f"sl{cid} = [{lit}, \"zz\"]", f"mon.write(sl{cid}[0])"]
        elif cx == "arg":
            body.append(f"show({lit})")
        elif cx == "fstr":
            body.append("mon.write(" + G.fstring_literal(rng, [("e", "kx"), ("s", s)]) + ")")
        elif cx == "concat":
            body += [f"sc{cid} = \"<\"", f"sc{cid} = sc{cid} + {lit}", f"mon.write(sc{cid})"]
        elif cx == "aug":
            body += [f"sa{cid} = \"<\"", f"sa{cid} += {lit}", f"mon.write(sa{cid})"]
        elif cx == "ret":                  # the literal is the return value of a helper
            pre.append(f"def give{cid}():\n    return {lit}")
            body.append(f"mon.write(give{cid}())")
        elif cx == "ternary":              # an arm of a conditional expression
            body.append(f"mon.write({lit} if kx > 3 else \"no\")")
        elif cx == "cmp":                  # compared with a variable holding the same value (a second spelling of the literal)
            body += [f"sq{cid} = {lit}", f"if sq{cid} == {G.py_literal(rng, s)}:", "    mon.write(\"same\")", "else:", "    mon.write(\"differs\")"]
        elif cx == "lcd":                  # text argument of a display call (compiled and run; the serial line only marks the case)
            body += [f"panel.line(0, {lit})", f"panel.message({lit}, bottom={lit})", f"panel.progress(1, kx, label={lit})", f"mon.write({lit})"]
    return HEAD + "\n".join(pre) + "\n" + "\n".join(body) + "\nmon.write(\"##end\")\nwhile True:\n    sleep(1000)\n"


def expected_line(s, cx):
    return {"fstr": "7" + s, "concat": "<" + s, "aug": "<" + s, "cmp": "same"}.get(cx, s)


def part_literals(ctx, dist, strings):
    rng = ctx.rng
    thorough = ctx.tier == "thorough"
    pool = [s for s in strings if device_value_ok(s)]
    ctl_pool = [s for s in pool if not s.isprintable()]
    n = 1500 if thorough else 260
    # half of the random picks are strings with control characters (the region the repaired escape finding used to exclude)
    chosen = list(G.SPECIAL_STRINGS) + [s for s in CONTROL_POOL if device_value_ok(s)] + \
        [rng.choice(ctl_pool if (k % 2 and ctl_pool) else pool) for k in range(n)]
    items = [(k, s, "write" if k < len(G.SPECIAL_STRINGS) else rng.choice(CONTEXTS)) for k, s in enumerate(chosen)]
    per = 25
    batches = [items[k:k + per] for k in range(0, len(items), per)]
    n_eval = 0
    work = batches
    rounds = 0
    dropped = []
    while work and rounds < 6:
        rounds += 1
        srcs = [literal_script(rng, b) for b in work]
        _, tr = transpile(srcs)
        acc = [(b, s, r) for b, s, r in zip(work, srcs, tr) if r["ok"]]
        nxt = []
        for b, s, r in zip(work, srcs, tr):
            if not r["ok"]:
                if len(b) == 1:
                    dist["literal:rejected-script:" + r["exc"]] += 1
                else:                                     # bisect so that the other strings are still tested
                    nxt += [b[:len(b) // 2], b[len(b) // 2:]]
        runs = fw.run_sketches([{"cpp": r["cpp"], "loops": 0} for _, _, r in acc])
        for (b, s, r), x in zip(acc, runs):
            if not x["compiled"]:
                if len(b) == 1:
                    cid, sv, cx = b[0]
                    ctx.fail("script with one string literal is accepted but does not compile",
                             {"script": s, "string": sv, "codepoints": cps(sv), "context": cx, "errors": re.findall(r"error: .*", x["compile_log"])[:4]},
                             "compiles", "g++ error", key="literal-" + err_key(x["compile_log"]))
                else:
                    nxt += [b[:len(b) // 2], b[len(b) // 2:]]
                continue
            cases = fw.split_cases(x["events"], marker="S @@c06case ")
            for cid, sv, cx in b:
                ev = cases.get(str(cid))
                lines = [e for e in (ev or []) if e.startswith("S ") or e == "S"]
                if lines and lines[-1] == "S ##end":            # the end marker of the batch, printed after the last case
                    lines = lines[:-1]
                if ev is None or not lines:
                    dist["literal:no-output(line dropped by the parser)"] += 1
                    dropped.append({"string": sv, "context": cx})
                    continue
                n_eval += 1
                dist["literal:context:" + cx] += 1
                dist["literal:" + ("printable" if sv.isprintable() else "with control character" + (" (line end)" if "\n" in sv or "\r" in sv else ""))] += 1
                # the value followed by println's CR LF, as the mock's Serial cuts it into lines
                gotl = [unescape_event(e[2:]) for e in lines]
                wantl = serial_lines(expected_line(sv, cx).encode("utf-8") + b"\r\n")
                if gotl != wantl:
                    ctx.fail("a string literal reaches the device as a different string",
                             {"script": literal_script(rng, [(cid, sv, cx)]), "string": sv, "codepoints": cps(sv), "context": cx},
                             [list(x) for x in wantl], [list(x) for x in gotl], key="literal-value:" + cx)
        work = nxt
    if dropped:
        ctx.coverage.setdefault("notes", {})["literal cases without output"] = dropped[:10]
    return n_eval


# ------------------------------------------------------------------ D. generated scripts: the compiler is the oracle
IMP = "from Reduino import target\ntarget(\"COM3\")\nfrom Reduino.Actuators import Led\nfrom Reduino.Utils import sleep\n"
EDGE_SCRIPTS = [                      # empty setup(), empty loop(), both, nothing but globals
    IMP + "while True:\n    sleep(1000)\n",
    IMP + "led = Led(13)\nled.on()\n",
    IMP + "x = 1\n",
    "from Reduino import target\ntarget(\"COM3\")\n",
    IMP + "x = 1\ny = 2.5\nname = \"n\"\nwhile True:\n    x = x + 1\n",
    IMP + "led = Led(13)\nwhile True:\n    led.toggle()\n    sleep(250)\n",
    # formerly outside the guard (F-C06-for-over-list, fixed): a for statement over a list - at the top level, in the main
    # loop, in a function, over a literal; rejected by the transpiler now (an accepted one would not compile: `v` undeclared)
    IMP + "vals = [1, 2, 3]\ntot = 0\nfor v in vals:\n    tot = tot + v\nwhile True:\n    sleep(tot)\n",
    IMP + "vals = [1, 2, 3]\ntot = 0\nwhile True:\n    for v in vals:\n        tot = tot + v\n    sleep(100)\n",
    IMP + "vals = [1, 2, 3]\ndef total():\n    tot = 0\n    for v in vals:\n        tot = tot + v\n    return tot\nwhile True:\n    sleep(total())\n",
    IMP + "tot = 0\nfor v in [4, 5]:\n    tot = tot + v\nwhile True:\n    sleep(tot)\n",
]


def boundary_scripts():
    """smallest scripts of the classes the section on library headers / function selection is about (they come first, so that a
    failure of one of these classes is reported on a script of a few lines):
    every non-empty combination of the three library classes in every rotation of the declaration order (one of them with the
    Servo hoisted from the loop head), and every polymorphic-helper shape of c06_gen with both argument classes at top level"""
    import itertools
    imp = ("from Reduino import target\ntarget(\"COM3\")\nfrom Reduino.Actuators import Servo\nfrom Reduino.Displays import LCD\n"
           "from Reduino.Communication import SerialMonitor\nfrom Reduino.Utils import sleep\n")
    decl = {"S": 'arm = Servo(9)', "P": 'panel = LCD(rs=12, en=11, d4=5, d5=4, d6=3, d7=2)', "I": 'backpack = LCD(i2c_addr=0x27, cols=20, rows=4)'}
    use = {"S": 'arm.write(90)', "P": 'panel.write(0, 0, "p")', "I": 'backpack.write(0, 1, "i")'}
    out = []
    for r in (1, 2, 3):
        for combo in itertools.combinations("SPI", r):
            for rot in range(r):
                order = combo[rot:] + combo[:rot]
                pre = [decl[k] for k in order]
                out.append((imp + "\n".join(pre + [use[k] for k in order if k != "S"]) + "\nwhile True:\n" +
                            "".join(f"    {use[k]}\n" for k in order if k == "S") + "    sleep(500)\n", {"boundary: library classes " + "".join(order): 1}))
            if "S" in combo:
                pre = [decl[k] for k in combo if k != "S"]
                out.append((imp + "\n".join(pre + [use[k] for k in combo if k != "S"]) + "\nwhile True:\n    " + decl["S"] + "\n    " + use["S"] + "\n    sleep(500)\n",
                            {"boundary: library classes, Servo hoisted " + "".join(combo): 1}))
    out.append((imp + decl["P"] + "\nlcd2 = LCD(rs=7, en=8, d4=22, d5=23, d6=24, d7=25, rw=6)\n" + decl["I"] + "\nbp2 = LCD(i2c_addr=0x3F)\narm = Servo(9)\narm2 = Servo(10)\nwhile True:\n    sleep(500)\n",
                {"boundary: two objects of each library class": 1}))
    head = imp + "mon = SerialMonitor(9600)\n"
    tail = "while True:\n    sleep(100)\n"
    helpers = {
        "rebind int,float": "def half(x):\n    x = x / 2.0\n    return x\na = half(3)\nb = half(2.5)\n",
        "rebind float,int": "def half(x):\n    x = x / 2.0\n    return x\na = half(2.5)\nb = half(3)\n",
        "rebind int,float,int": "def half(x):\n    x = x * 0.5\n    return x\na = half(3)\nb = half(2.5)\nc = half(4)\n",
        "rebind in loop": "def half(x):\n    x = x / 2.0\n    return x\na = half(3)\n" + "while True:\n    b = half(2.5)\n    mon.write(b)\n    sleep(100)\n",
        "rebind2": "def mix(a, b):\n    a = a / 4.0\n    return a + b\nu = mix(1, 2)\nv = mix(1.5, 2)\n",
        "overload int,String": "def twice(x):\n    return x + x\na = twice(3)\nb = twice(\"ab\")\n",
        "overload String,float": "def twice(x):\n    return x + x\nb = twice(\"ab\")\na = twice(2.5)\n",
        "via": "def half(x):\n    x = x / 2.0\n    return x\ndef as_int(y: int):\n    return half(y)\ndef as_float(z: float):\n    return half(z)\na = as_int(3)\nb = as_float(2.5)\n",
        "same signature twice": "def inc(n):\n    n = n + 1\n    return n * 2\na = inc(3)\nb = inc(4)\n",
        "never called": "def unused(x):\n    return x + 1\ndef unused2(s: str, t: float):\n    return s\n",
        "called from a function only": "def inner(y):\n    return y * 2\ndef outer(z):\n    return inner(z) + 1\na = outer(4)\n",
    }
    for k, body in helpers.items():
        out.append((head + body + (tail if "while True" not in body else ""), {"boundary: helper " + k: 1}))
    # the two shapes the prototypes repair (F-C06-fn-uses-ultrasonic, F-C06-fn-forward-call), smallest scripts first
    uimp = imp + "from Reduino.Sensors import Ultrasonic\nmon = SerialMonitor(9600)\n"
    ultra = {
        "returns the distance": "u = Ultrasonic(7, 8)\ndef far():\n    d = u.measure_distance()\n    return d\n" + "while True:\n    mon.write(far())\n    sleep(100)\n",
        "in a condition": "u = Ultrasonic(7, 8)\ndef near():\n    if u.measure_distance() < 20.0:\n        return True\n    return False\n" + "while True:\n    mon.write(near())\n    sleep(100)\n",
        "two sensors, two functions": "front = Ultrasonic(7, 8)\nback = Ultrasonic(9, 10)\ndef gap():\n    return front.measure_distance() - back.measure_distance()\ndef ahead():\n    return front.measure_distance()\n"
                                      + "g0 = gap()\nwhile True:\n    mon.write(ahead())\n    mon.write(gap())\n    sleep(100)\n",
        "only the function measures": "u = Ultrasonic(7, 8)\ndef ping():\n    mon.write(u.measure_distance())\nping()\nwhile True:\n    sleep(100)\n",
        "function and loop measure": "u = Ultrasonic(7, 8)\ndef ping():\n    return u.measure_distance() / 2.0\nwhile True:\n    mon.write(ping() + u.measure_distance())\n    sleep(100)\n",
        "called by a function above it": "u = Ultrasonic(7, 8)\ndef twice():\n    return ping() * 2.0\ndef ping():\n    return u.measure_distance()\nwhile True:\n    mon.write(twice())\n    sleep(100)\n",
        "sensor declared at the top of the loop": "def ping():\n    return u.measure_distance()\nwhile True:\n    u = Ultrasonic(7, 8)\n    mon.write(ping())\n    sleep(100)\n",
    }
    for k, body in ultra.items():
        out.append((uimp + body, {"boundary: function uses ultrasonic, " + k: 1}))
    fwd = {
        "int result": "def f():\n    return g() + 1\ndef g():\n    return 2\n" + "while True:\n    mon.write(f())\n    sleep(100)\n",
        "argument, float caller": "def f(k: int):\n    return g(k) + 0.5\ndef g(z: int):\n    return z * 2\n" + "while True:\n    mon.write(f(3))\n    sleep(100)\n",
        "bare statement": "def f():\n    show(3)\ndef show(n: int):\n    mon.write(n)\nf()\n" + tail,
        "in a condition": "def f(v: int):\n    if big(v) > 0:\n        return 1\n    return 0\ndef big(w: int):\n    return w // 10\nr = f(20)\n" + tail,
        "mutual recursion": "def even(n: int):\n    if n == 0:\n        return 1\n    return odd(n - 1)\ndef odd(n: int):\n    if n == 0:\n        return 0\n    return even(n - 1)\n" + "while True:\n    mon.write(even(4))\n    sleep(100)\n",
        "chain of three": "def a1():\n    return b1() + 1\ndef b1():\n    return c1() + 1\ndef c1():\n    return 1\nv = a1()\n" + tail,
        "two callers of one later function": "def p1():\n    return later(1)\ndef p2():\n    return later(2) * 2\ndef later(k: int):\n    return k + 1\nv = p1() + p2()\n" + tail,
        "called forward and backward": "def first():\n    return second() + 1\ndef second():\n    return 2\ndef third():\n    return first() + second()\nv = third()\n" + tail,
    }
    for k, body in fwd.items():
        out.append((head + body, {"boundary: forward call, " + k: 1}))
    # device names bound twice (inside the guard of F-C06-rebound-device-globals: Servo / Buzzer with the same limits): twice before
    # the loop with the same / with other pins, and once before the loop and once more at the top of the loop body
    dimp = ("from Reduino import target\ntarget(\"COM3\")\nfrom Reduino.Actuators import Servo, Buzzer, Led, RGBLed, DCMotor\n"
            "from Reduino.Sensors import Button, Potentiometer, Ultrasonic\nfrom Reduino.Displays import LCD\nfrom Reduino.Utils import sleep\n")
    first = ['led = Led(13)', 'rgb = RGBLed(9, 10, 11)', 'bz = Buzzer(8)', 'm = DCMotor(4, 5, 6)', 'b = Button(2)', 'p = Potentiometer("A0")',
             'u = Ultrasonic(3, 7)', 'arm = Servo(44, min_angle=10)', 'lcd = LCD(i2c_addr=0x27)']
    other = ['led = Led(12)', 'rgb = RGBLed(3, 5, 6)', 'bz = Buzzer(7)', 'm = DCMotor(22, 23, 24)', 'b = Button(25)', 'p = Potentiometer("A1")',
             'u = Ultrasonic(26, 27)', 'arm = Servo(45, min_angle=10)', 'lcd = LCD(i2c_addr=0x3F)']
    use = ["led.on()", "rgb.on()", "bz.beep()", "m.invert()", "arm.write(20)", "lcd.clear()", "sleep(100)"]
    loop = "while True:\n" + "".join("    " + u + "\n" for u in use)
    out.append((dimp + "\n".join(x for pair in zip(first, first) for x in pair) + "\n" + loop, {"boundary: every device name bound twice, same arguments": 1}))
    out.append((dimp + "\n".join(x for pair in zip(first, other) for x in pair) + "\n" + loop, {"boundary: every device name bound twice, other pins": 1}))
    hoist = [x for x in first if x.split(" = ")[1].split("(")[0] in ("Led", "RGBLed", "DCMotor", "Button", "Potentiometer", "Ultrasonic", "Servo")]
    out.append((dimp + "\n".join(first) + "\nwhile True:\n" + "".join("    " + x + "\n" for x in hoist) + "".join("    " + u + "\n" for u in use),
                {"boundary: hoistable device names bound before the loop AND at the top of the loop body": 1}))
    out += repaired_boundary_scripts(head, tail)
    return out


RESERVED_SITES = {
    "assignment at the top": "{N} = 3\nwhile True:\n    mon.write({N})\n    sleep(100)\n",
    "first assignment in the main loop": "while True:\n    {N} = 3\n    mon.write({N})\n    sleep(100)\n",
    "tuple assignment": "a, {N} = 1, 2\nwhile True:\n    mon.write(a)\n    sleep(100)\n",
    "for variable": "for {N} in range(3):\n    sleep(1)\nwhile True:\n    sleep(100)\n",
    "for variable in the main loop": "while True:\n    for {N} in range(2):\n        sleep(1)\n    sleep(100)\n",
    "function name": "def {N}(x: int):\n    return x + 1\nv = {N}(2)\nwhile True:\n    mon.write(v)\n    sleep(100)\n",
    "parameter": "def f(k: int, {N}: int):\n    return {N} + k\nv = f(2, 3)\nwhile True:\n    mon.write(v)\n    sleep(100)\n",
    "local of a function": "def f(x: int):\n    {N} = x + 1\n    return {N}\nv = f(2)\nwhile True:\n    mon.write(v)\n    sleep(100)\n",
    "first assignment inside if": "x = 3\nif x > 2:\n    {N} = 4\nwhile True:\n    sleep(100)\n",
    "first assignment inside try": "x = 3\ntry:\n    {N} = 4\nexcept:\n    x = 5\nwhile True:\n    sleep(100)\n",
    "comprehension variable": "vals = [{N} * 2 for {N} in range(3)]\nwhile True:\n    mon.write(len(vals))\n    sleep(100)\n",
    "except target": "x = 1\ntry:\n    x = 2\nexcept ValueError as {N}:\n    x = 3\nwhile True:\n    mon.write(x)\n    sleep(100)\n",
    "exception class": "x = 1\ntry:\n    x = 2\nexcept {N}:\n    x = 3\nwhile True:\n    mon.write(x)\n    sleep(100)\n",
    "dotted exception class": "x = 1\ntry:\n    x = 2\nexcept errors.{N}:\n    x = 3\nwhile True:\n    mon.write(x)\n    sleep(100)\n",
}
# names next to the reserved ones: they are ordinary identifiers, the sketches must compile
NEAR_RESERVED = ["double2", "Loop", "class_", "int_", "new1", "A0x", "delay_ms", "Setup", "high", "string", "serial", "floats", "a0", "B0", "main_loop"]


def repaired_boundary_scripts(head, tail):
    """the regions the guards of F-C06-literal-concat, F-C06-named-except and F-C06-cpp-keyword-identifier excluded until their repair,
    smallest scripts first"""
    import keyword
    out = []
    t = 't = analog_read("A0") > 300\n'
    concat = {
        "two literals": 'm = "a" + "b"\nwhile True:\n    mon.write(m)\n    sleep(100)\n',
        "choice + literal": t + 'mon.write(("a" if t else "b") + "c")\n' + tail,
        "literal + choice": t + 'mon.write("x" + ("a" if t else "b"))\n' + tail,
        "choice + choice": t + 'm = ("a" if t else "b") + ("c" if not t else "d")\nmon.write(m)\n' + tail,
        "nested choice": t + 'm = ("a" if t else ("b" if not t else "c")) + "d"\nmon.write(m)\n' + tail,
        "chain to the left": 'mon.write("x" + "y" + "z")\n' + tail,
        "chain to the right": 'mon.write("x" + ("y" + "z"))\n' + tail,
        "f-string without fields": 'mon.write(f"lit" + "z")\nmon.write("z" + f"lit")\n' + tail,
        "next to a String": 's = str(3)\nmon.write(("a" + "b") + s)\nmon.write(s + ("a" + "b"))\n' + tail,
        "empty literals": 'm = "" + ""\nmon.write(m)\n' + tail,
        "augmented": 'm = "a"\nm += "b" + "c"\nmon.write(m)\n' + tail,
        "in the main loop": 'while True:\n    m = "a" + "b"\n    mon.write(m)\n    sleep(100)\n',
        "in a function": 'def tag():\n    return "a" + "b"\nwhile True:\n    mon.write(tag())\n    sleep(100)\n',
        "argument of len and str": 'mon.write(len("a" + "b"))\nmon.write(str("a" + "b"))\n' + tail,
        "in a list": 'names = ["a" + "b", "c"]\nmon.write(names[0])\n' + tail,
        "int of a choice": t + 'mon.write(int("12" if t else "13"))\n' + tail,
        "float of a choice": t + 'mon.write(float("1.5" if t else "2.5"))\n' + tail,
        "int of a nested choice": t + 'n = int("1" if t else ("2" if not t else "3"))\nmon.write(n)\n' + tail,
        "int of an f-string without fields": 'mon.write(int(f"12"))\n' + tail,
        "int of a concatenation": 'mon.write(int("1" + "2"))\n' + tail,
    }
    for k, body in concat.items():
        out.append((head + body, {"boundary: literal concatenation, " + k: 1}))
    handlers = {
        "named": "except ValueError:\n", "named with a target": "except ValueError as err:\n", "Exception": "except Exception:\n",
        "dotted": "except errors.Timeout:\n", "dotted with a target": "except pkg.sub.Failure as err:\n",
    }
    for k, h in handlers.items():
        out.append((head + "x = 3\ntry:\n    x = 4\n" + h + "    x = 5\n" + "while True:\n    mon.write(x)\n    sleep(100)\n", {"boundary: except handler " + k + ", setup": 1}))
        out.append((head + "while True:\n    x = 3\n    try:\n        x = 4\n    " + h + "        x = 5\n    mon.write(x)\n    sleep(100)\n", {"boundary: except handler " + k + ", main loop": 1}))
        out.append((head + "def f(x: int):\n    try:\n        x = x + 1\n    " + h + "        x = 0\n    return x\nv = f(2)\n" + tail, {"boundary: except handler " + k + ", function": 1}))
    out.append((head + "x = 3\ntry:\n    x = 4\nexcept ValueError:\n    x = 5\nexcept KeyError as err:\n    x = 6\nexcept errors.Timeout:\n    x = 7\nexcept errors.Busy:\n    x = 8\nexcept:\n    x = 9\n" + tail,
                {"boundary: five handlers, two classes of one package": 1}))
    out.append((head + "def f(x: int):\n    try:\n        x = x + 1\n    except ValueError:\n        x = 0\n    return x\nv = 0\ntry:\n    v = f(2)\nexcept ValueError as err:\n    v = 1\n"
                + "while True:\n    try:\n        v = f(v)\n    except ValueError:\n        v = 2\n    for i in range(2):\n        try:\n            v = v + 1\n        except TypeError:\n            v = 3\n    sleep(100)\n",
                {"boundary: one exception class named in setup, loop, a function and a nested block": 1}))
    names = sorted(n for n in G.REJECTED_NAMES if not keyword.iskeyword(n))
    sites = list(RESERVED_SITES.items())
    for i, n in enumerate(names):                       # every reserved name at one site (rotating) ...
        k, body = sites[i % len(sites)]
        out.append((head + body.format(N=n), {"boundary: reserved name, " + k: 1}))
    for n in ["double", "int", "new", "loop", "setup", "delay", "HIGH", "A0", "String", "min", "register", "union"]:   # ... and some at every site
        for k, body in sites:
            out.append((head + body.format(N=n), {"boundary: reserved name, " + k: 1}))
    for i, n in enumerate(NEAR_RESERVED):                 # ordinary identifiers next to them
        for k, body in [sites[(i * 5) % len(sites)]]:
            out.append((head + body.format(N=n), {"boundary: name next to a reserved one, " + k: 1}))
    return out


def gen_scripts(rng, n):
    out = []
    kinds = G.ALL_KINDS
    for k in range(n):
        opts = {}
        if k % 4 == 0:          # make sure every device kind and every hoistable kind is forced regularly
            opts["force_kinds"] = [kinds[(k // 4) % len(kinds)]]
            # where the devices stand before the main loop: first / alternating with the globals / below the functions that drive them
            opts["layout"] = ["default", "interleave", "fns_before_devices"][(k // 4) % 3]
        if k % 4 == 1:
            opts["force_hoist"] = [G.HOISTABLE[(k // 4) % len(G.HOISTABLE)]]
            if (k // 4) % 2 == 0:   # several functions written in reverse order: every call among them is a forward call; with an
                opts["forward"] = True      # Ultrasonic, so that function bodies can measure
                opts["force_kinds"] = ["Ultrasonic"]
        if k % 4 == 2:          # several instances per device kind, kinds interleaved, a hoistable kind both before and in the loop;
            j = k // 4          # in rotation: both LCD interfaces in one sketch / only I2C / only parallel LCDs / whatever comes
            opts["multi"] = True
            opts["p_hoist"] = 0.5
            if j % 4 == 0:
                opts["lcd_both"] = True
            elif j % 4 in (1, 2):
                opts["force_kinds"] = ["LCD"]
                opts["lcd_only"] = ["i2c", "parallel"][j % 4 - 1]
            if j % 2:
                opts["force_hoist"] = [G.HOISTABLE[(j // 2) % len(G.HOISTABLE)]]
        if k % 4 == 3:          # helpers with un-annotated parameters called with several argument types
            j = k // 4
            opts["poly"] = 1 + j % 2
            opts["poly_kinds"] = [G.POLY_KINDS[j % len(G.POLY_KINDS)], G.POLY_KINDS[(j * 5 + 3) % len(G.POLY_KINDS)]]
        src, feats = G.gen_script(rng, opts)
        out.append((src, feats))
    return out


def analyse_sections(ctx, src, r, consts, compiled, dist, expect_guard=True):
    """section structure of the real text vs the model (op 3).  -> model output or None"""
    try:
        items = S.read_sketch(r["cpp"], consts, r["functions"])
    except S.SplitError as e:
        if compiled is not None and compiled["compiled"]:
            ctx.disagree(f"emitted text does not have the modelled top-level structure: {e}", {"script": src}, "header, includes, helpers, globals, functions, ultrasonic helpers, setup, loop", str(e))
        return None, None
    kinds = [it["kind"] for it in items]
    n_setup, n_loop = kinds.count("setup"), kinds.count("loop")
    if n_setup != 1 or n_loop != 1:
        ctx.fail("emitted sketch does not contain exactly one setup() and one loop()", {"script": src}, {"setup": 1, "loop": 1}, {"setup": n_setup, "loop": n_loop}, key="setup-loop-count")
        return items, None
    case, ids = S.encode_case(items)
    if not ctx.exe:
        return items, None
    m = ctx.model([case])[0]
    if m[0] != 0:
        ctx.disagree("model could not decode the section case", {"script": src}, m, case)
        return items, None
    m_kinds, m_wf, m_guard, m_und, m_protos = m[1], m[2], m[3], m[4], m[5]
    real_ranks = [S.RANK[k] for k in kinds]
    if m_kinds != real_ranks:
        ctx.disagree("order of top-level sections: model (stitch) vs emitted text", {"script": src, "items": [(it["kind"], it["name"]) for it in items]}, m_kinds, real_ranks)
    names = {v: k for k, v in ids.items()}
    # the prototypes: one per function definition / ultrasonic helper, in that order, declaring its name
    real_protos = [[it["name"]] for it in items if it["kind"] == "proto"]
    model_protos = [[names.get(i, "?") for i in ds] for ds in m_protos]
    dist["sections:prototypes"] += len(real_protos)
    if model_protos != real_protos:
        ctx.disagree("forward declarations: model (one per emitted function variant, then one per ultrasonic helper) vs emitted text",
                     {"script": src}, model_protos, real_protos)
    # and each prototype has the parameter list and return type of its definition (g++ accepts a prototype that declares
    # ANOTHER overload and fails only at a forward call: correspondence, the compiler oracle finds the failing script)
    pending = {}
    for it in items:
        if it["kind"] == "proto":
            pending.setdefault(it["name"], []).append(" ".join(it["ctext"].rstrip().rstrip(";").split()))
        elif it["kind"] in ("function", "ultra"):
            head = " ".join(it["ctext"].split("{")[0].split())
            if head not in pending.get(it["name"], []):
                ctx.disagree("forward declarations: a definition has no prototype with the same return type and parameter list (the model generates the prototype from the definition)",
                             {"script": src, "function": it["name"]}, head + ";", pending.get(it["name"], []))
    und = [(p, names.get(i, "?")) for p, i in m_und]
    dist["sections:wf=" + str(m_wf) + ",guard=" + str(m_guard)] += 1
    if compiled is not None:
        if m_wf == 0 and compiled["compiled"]:
            ctx.disagree("model finds a file-scope name used before its definition, g++ accepts the sketch", {"script": src, "undeclared": und}, "g++ error", "compiles")
        if m_wf == 0 and not compiled["compiled"]:
            if not any(n in compiled["compile_log"] for _, n in und):
                ctx.disagree("g++ fails, but not on the identifier the model names", {"script": src, "undeclared": und}, und, compiled["compile_log"][-500:])
    return items, {"wf": m_wf, "guard": m_guard, "undeclared": und}


# ------------------------------------------------------------------ G. library headers and function selection
HDR_CODE = {"Arduino.h": 0, "Servo.h": 1, "LiquidCrystal.h": 2, "Wire.h": 3, "LiquidCrystal_I2C.h": 4}
HDR_NAME = {v: k for k, v in HDR_CODE.items()}
CLASS_KIND = {"Servo": 1, "LiquidCrystal": 2, "LiquidCrystal_I2C": 3}
OWN_HEADER = {1: "Servo.h", 2: "LiquidCrystal.h", 3: "LiquidCrystal_I2C.h"}      # the header that declares the class itself
OBJ_RE = re.compile(r"^(Servo|LiquidCrystal_I2C|LiquidCrystal)[ \t]+(__servo_|__redu_lcd_)(\w+)[ \t]*[;(]", re.M)
LBL = {"int": 0, "float": 1, "bool": 2, "String": 3, "void": 4}
LBL_NAME = {v: k for k, v in LBL.items()}


def enc_lbl(label, other):
    if label in LBL:
        return LBL[label]
    if isinstance(label, str) and label.startswith("list[") and label.endswith("]"):
        return [5, enc_lbl(label[5:-1], other)]
    return [6, other.setdefault(str(label), len(other))]


def dec_lbl(v, other_names):
    if isinstance(v, int):
        return LBL_NAME[v]
    if v[0] == 5:
        return "list[" + dec_lbl(v[1], other_names) + "]"
    return other_names.get(v[1], "?")


def library_facts(cpp, code, consts):
    """(include names in text order with positions, library objects (python name, kind, position) in text order) read from the
    real sketch text; code = the text with literals and comments blanked.  Includes that belong to a helper snippet (<cstring> of
    the len helper) are not part of the header stitching."""
    inside = []
    for key in S.SNIPPET_KEYS:
        if key not in consts:
            continue
        k = cpp.find(consts[key])
        if k >= 0:
            inside.append((k, k + len(consts[key])))
    incs = [(m.group(1), m.start()) for m in re.finditer(r"^#[ \t]*include[ \t]*<([^>]+)>", code, re.M)
            if not any(a <= m.start() < b for a, b in inside)]
    objs = [(m.group(3), CLASS_KIND[m.group(1)], m.start()) for m in OBJ_RE.finditer(code)]
    return incs, objs


def fn_headers(items):
    """(name, tuple of C++ parameter types) of every user function definition found in the emitted text"""
    out = []
    for it in items or []:
        if it["kind"] != "function":
            continue
        head = it["ctext"].split("{")[0]
        m = re.match(r"\s*[\w<>:,\s\*&]*?\b(\w+)\s*\((.*)\)\s*$", head, re.S)
        if not m:
            continue
        ps = []
        for prm in [x.strip() for x in m.group(2).split(",") if x.strip()]:
            ps.append(" ".join(prm.split()[:-1]))
        out.append((m.group(1), tuple(ps)))
    return out


def check_library_and_functions(ctx, batch, dist, consts):
    """batch: [(script, transpile result, items read from the text or None)].  Correspondence of Lang/Headers.v and Lang/FnSelect.v
    with the real parse()/emit(), and the two property clauses evaluated on the real sketch:
    every instantiated library class has its own header included before the object; no function is defined twice."""
    n_eval = 0
    cases, meta = [], []
    for src, r, items in batch:
        code = S.strip_code(r["cpp"])
        incs, objs = library_facts(r["cpp"], code, consts)
        inc_names = [n for n, _ in incs]
        # ---- oracle 1: headers (on the text alone)
        n_eval += 1
        kinds_here = sorted({k for _, k, _ in objs})
        dist["library classes in one sketch:" + ("+".join({1: "Servo", 2: "LiquidCrystal", 3: "LiquidCrystal_I2C"}[k] for k in kinds_here) or "none")] += 1
        if len(objs) > len(kinds_here):
            dist["sketches with two objects of one library class"] += 1
        for name, kind, pos in objs:
            h = OWN_HEADER[kind]
            where = [p for n, p in incs if n == h]
            if not where or min(where) > pos:
                ctx.fail("the sketch instantiates a library class whose header is not included before it",
                         {"script": src, "object": name, "class": {1: "Servo", 2: "LiquidCrystal", 3: "LiquidCrystal_I2C"}[kind]},
                         f"#include <{h}> before the object", {"includes": inc_names}, key="missing-header:" + h)
        # ---- oracle 2: one definition per (name, parameter types)
        n_eval += 1
        seen = Counter((n, tuple(ts)) for n, ts in r["fnsel"]["params"])
        seen_text = Counter(fn_headers(items))
        for cnt, origin in ((seen, "Program.functions"), (seen_text, "emitted text")):
            dup = [k for k, c in cnt.items() if c > 1]
            if dup:
                n, ts = dup[0]
                ctx.fail("a user function is defined twice with one parameter list (C++: redefinition)",
                         {"script": src, "function": n, "parameters": list(ts), "read_from": origin},
                         "each (name, parameter types) defined once", {f"{a}({', '.join(b)})": c for (a, b), c in cnt.items()},
                         key="function-defined-twice")
                break
        # ---- model cases
        if not ctx.exe:
            continue
        ids = {}
        idof = lambda nm: ids.setdefault(nm, len(ids) + 1)
        cases.append([6, [[idof(nm), k] for nm, k in r["decls"]]])
        meta.append(("hdr", src, r, dict(ids), inc_names, objs))
        fs = r["fnsel"]["fns"]
        if fs:
            other = {}
            fids = {}
            fid = lambda nm: fids.setdefault(nm, len(fids) + 1)
            E = lambda sig: [enc_lbl(l, other) for l in sig]
            cases.append([7, [[fid(f["name"]), [E(v) for v in f["variants"]], [E(u) for u in f["used"]],
                               [[E(a), E(c)] for a, c in f["aliases"]], [] if f["primary"] is None else [E(f["primary"])]] for f in fs]])
            meta.append(("fn", src, r, dict(fids), {v: k for k, v in other.items()}, None))
            for f in fs:
                al = {tuple(a): tuple(c) for a, c in f["aliases"]}
                res = [al.get(tuple(u), tuple(u)) for u in f["used"]]
                dist[f"fnsel:recorded call signatures per function={min(len(f['used']), 3)}{'+' if len(f['used']) > 3 else ''}"] += 1
                if len(f["variants"]) > 1:
                    dist["fnsel:function with several variants"] += 1
                if f["aliases"]:
                    dist["fnsel:function with an aliased signature"] += 1
                if len(set(res)) < len(res):
                    dist["fnsel:two recorded signatures resolve to ONE variant"] += 1
                if not f["used"]:
                    dist["fnsel:function without recorded call (primary variant)"] += 1
    if not cases:
        return n_eval
    outs = ctx.model(cases)
    for (what, src, r, ids, aux, objs), o in zip(meta, outs):
        n_eval += 1
        if o[0] != 0:
            ctx.disagree(f"model could not decode the {what} case", {"script": src}, o, None)
            continue
        if what == "hdr":
            names = {v: k for k, v in ids.items()}
            m_incs = [HDR_NAME[c] for c in o[1]]
            m_objs = [(names.get(n, "?"), k) for n, k in o[2]]
            if o[3] != 1:
                ctx.disagree("extracted model contradicts theorem C06_headers_ok (extraction or wire bug)", {"script": src}, 1, o[3])
            if m_incs != aux:
                ctx.disagree("library includes: model (Lang/Headers.v on the device declarations of the real IR) vs the emitted text", {"script": src, "declarations": r["decls"]}, m_incs, aux)
            if m_objs != [(n, k) for n, k, _ in objs]:
                ctx.disagree("library objects among the globals: model (Lang/Headers.v) vs the emitted text", {"script": src, "declarations": r["decls"]}, m_objs, [(n, k) for n, k, _ in objs])
            if o[4] != 1:
                dist["headers:sketch on which the if->elif variant of the model would lose a header"] += 1
        else:
            names = {v: k for k, v in ids.items()}
            m_sel = [[names.get(n, "?"), [dec_lbl(l, aux) for l in sig]] for n, sig in o[1]]
            real = r["fnsel"]["selected"]
            if m_sel != real:
                ctx.disagree("selected function variants: model (Lang/FnSelect.v on the real specialisation tables) vs Program.functions", {"script": src, "tables": r["fnsel"]["fns"]}, m_sel, real)
            if o[2] != 1:
                ctx.disagree("model: two selected variants share name and C++ parameter list (outside theorem C06_fn_no_redefinition_partial: unknown label?)", {"script": src, "tables": r["fnsel"]["fns"]}, 1, o[2])
    return n_eval


def part_scripts(ctx, dist, samples):
    rng = ctx.rng
    thorough = ctx.tier == "thorough"
    n = 2000 if thorough else 160
    scripts = [(x, {"edge script": 1}) for x in EDGE_SCRIPTS] + boundary_scripts() + gen_scripts(rng, n)
    feats = Counter()
    inside = []
    for src, f in scripts:
        sh = G.shapes_of(src)
        if sh:
            for k in sh:
                dist["generated-outside-guard:" + k] += 1
            continue
        inside.append(src)
        feats.update(f)
        for rk, rv in G.repaired_region(src).items():
            dist["repaired-region:scripts with " + rk] += 1
    consts, tr = transpile(inside)
    acc = [(s, r) for s, r in zip(inside, tr) if r["ok"]]
    for s, r in zip(inside, tr):
        if not r["ok"]:
            dist["rejected:" + r["exc"]] += 1
    dist["scripts:generated"] = len(scripts)
    dist["scripts:inside-guard"] = len(inside)
    dist["scripts:accepted"] = len(acc)
    comp = fw.run_sketches([{"cpp": r["cpp"], "compile_only": True} for _, r in acc])
    n_eval = 0
    distinct = set()
    kinds_seen = Counter()
    batch = []
    for (src, r), c in zip(acc, comp):
        n_eval += 1
        if not c["compiled"]:
            ctx.fail("accepted script (documented style, inside the guard of every listed finding) does not compile against the Arduino core",
                     {"script": src, "errors": re.findall(r"error: .*", c["compile_log"])[:5]}, "g++ -std=gnu++17 compiles and links", "g++ error",
                     key=err_key(c["compile_log"]))
        items, m = analyse_sections(ctx, src, r, consts, c, dist)
        batch.append((src, r, items))
        if items:
            n_eval += 1
            sig = tuple(sorted(Counter(it["kind"] for it in items).items()))
            distinct.add(sig + (tuple(r["helpers"]),))
            for it in items:
                kinds_seen[it["kind"]] += 1
            for h in r["helpers"]:
                dist["helper:" + h] += 1
    n_eval += check_library_and_functions(ctx, batch, dist, consts)
    n_eval += check_scopes(ctx, [(src, r, c) for (src, r), c in zip(acc, comp)], dist, consts)
    dist["scripts:compiled"] = sum(1 for c in comp if c["compiled"])
    for k, v in kinds_seen.items():
        dist["items:" + k] = v
    dist["features"] = dict(feats.most_common())
    if acc:
        samples.append({"script": min((s for s, _ in acc), key=len)})
    return n_eval, len(distinct), consts



# ------------------------------------------------------------------ L. binders with a scope of their own that re-use an outer name
def _enc_rhs(targets, elt):
    w = [0, PW.enc_src(elt)]
    for t in reversed(targets):
        w = [1, t, PW.enc_src("3"), w]
    return w


def _comp_verdict(src, expect, r, c):
    """-> None | (key, what, expected, observed)"""
    if not c["compiled"]:
        return ("scoped-binder:compile", "accepted script in which a comprehension / parameter / function-local loop variable re-uses the name of an outer variable does not compile",
                "g++ -std=gnu++17 compiles and links", re.findall(r"error: .*", c["compile_log"])[:4] or "g++ error")
    bad = CC.check_expect(r["cpp"], expect)
    if bad:
        return ("scoped-binder:declared-type", "an identifier is declared with another type than the value it is first assigned (a copy of / the return value of a variable declared earlier, "
                "whose name a comprehension or another binder with a scope of its own re-uses)",
                {n: w for n, w, _ in bad}, {n: g for n, _, g in bad})
    return None


def part_comp(ctx, dist, samples):
    rng = ctx.rng
    thorough = ctx.tier == "thorough"
    # L1: the property's clause on the real artefacts
    if thorough:
        groups = [[sc] for sc in CC.exhaustive_scenarios(rng, None)]
        groups += [[CC.scenario(rng) for _ in range(rng.choice([1, 2, 3]))] for _ in range(260)]
    else:
        ex = CC.exhaustive_scenarios(rng, 2)
        groups = [ex[k:k + 2] for k in range(0, len(ex), 2)]
        groups += [[CC.scenario(rng) for _ in range(rng.choice([2, 3]))] for _ in range(8)]
    built = [CC.build(g) for g in groups]
    for g in groups:
        for sc in g:
            dist[f"L:scenario site={sc['site']}"] += 1
            dist[f"L:scenario outer type={sc['type']}"] += 1
    inside = []
    for g, (src, ex) in zip(groups, built):
        sh = G.shapes_of(src)
        if sh:
            for k in sh:
                dist["L:outside-guard:" + k] += 1
            continue
        inside.append((g, src, ex))
    res = _compile_many([src for _, src, _ in inside])
    n_eval = 0
    for (g, src, ex), (r, c) in zip(inside, res):
        if not r["ok"]:
            dist["L:rejected:" + r["exc"]] += 1
            continue
        n_eval += 1 + len(ex["vars"]) + len(ex["fns"])
        dist["L:scripts compiled and read back"] += 1
        v = _comp_verdict(src, ex, r, c)
        if v is None:
            continue
        # reduce to single scenarios
        shown = False
        if len(g) > 1:
            singles = [CC.build([sc]) for sc in g]
            for sc, (s1, e1), (r1, c1) in zip(g, singles, _compile_many([s for s, _ in singles])):
                if r1["ok"]:
                    v1 = _comp_verdict(s1, e1, r1, c1)
                    if v1:
                        shown = True
                        ctx.fail(v1[1], {"script": s1, "site": sc["site"], "outer_type": sc["type"]}, v1[2], v1[3], key=v1[0] + ":" + sc["site"].split("_")[0])
        if not shown:
            ctx.fail(v[1], {"script": src, "sites": [sc["site"] for sc in g], "outer_types": [sc["type"] for sc in g]}, v[2], v[3], key=v[0])
    if inside:
        samples.append({"script": inside[0][1]})
    # L2: Lang/CompScope.v against the real parse() + emit() on sequences of top-level assignments
    n = 400 if thorough else 90
    progs = [CC.flat_program(rng, rng.randint(2, 7)) for _ in range(n)]
    progs = [p for p in progs if p]
    srcs = [HEAD + "\n".join(CC.flat_source(p)) + "\nwhile True:\n    sleep(100)\n" for p in progs]
    _, tr = transpile(srcs)
    mo = ctx.model([[12, [[x, _enc_rhs(ts, e)] for x, ts, e in p]] for p in progs]) if ctx.exe else [None] * len(progs)
    for p, src, r, m in zip(progs, srcs, tr, mo):
        reuse = sum(1 for x, ts, e in p if ts and any(t in [y for y, _, _ in p] for t in ts))
        dist["L:flat programs with a comprehension over a declared name" if reuse else "L:flat programs without re-use"] += 1
        if m is None:
            continue
        n_eval += 1
        if m[0] != 0:
            ctx.disagree("model could not decode the assignment sequence", {"script": src}, m, p)
            continue
        run, pure, ref, scoped, pop = m[1], m[2], m[3], m[4], m[5]
        if not pure:
            dist["L:flat outside the guard pure_run"] += 1
        if run[0] == 0 or not r["ok"]:
            if (run[0] == 0) != (not r["ok"]):
                ctx.disagree("assignment sequence: accepted by one of model / transpiler only", {"script": src}, "rejected" if run[0] == 0 else "accepted", r.get("exc", "accepted"))
            dist["L:flat rejected"] += 1
            continue
        decls = [(C.wstr(d[0]), C.wstr(d[1])) for d in run[1]]
        real = [(x, CC.declared_types(r["cpp"], x)) for x, _ in decls]
        if any(g != [t] for (_, t), (_, g) in zip(decls, real)):
            ctx.disagree("declared C++ types of a sequence of assignments: Lang/CompScope.v (run) vs the declarations in the emitted text", {"script": src}, decls, real)
        names = []
        for x, _, _ in p:
            if x not in names:
                names.append(x)
        if [x for x, _ in decls] != names:
            ctx.disagree("which names a sequence of assignments declares: model vs assigned names in order", {"script": src}, [x for x, _ in decls], names)
        if pure and (ref[0] != 1 or [(C.wstr(d[0]), C.wstr(d[1])) for d in ref[1]] != decls):
            ctx.disagree("extracted model contradicts C06_declarations_are_lexical_partial", {"script": src}, decls, ref)
        if not scoped:
            ctx.disagree("extracted model contradicts C06_assignments_block_scoped", {"script": src}, "scoped", "redeclaration")
        if pop[0] == 1 and [(C.wstr(d[0]), C.wstr(d[1])) for d in pop[1]] != decls:
            dist["L:flat programs on which a popping finally would declare another type"] += 1
    return n_eval


# ------------------------------------------------------------------ H. every statement shape, and every pair of them, in ONE block
def _compile_many(srcs):
    """-> [(transpile result, compile result or None)]"""
    _, tr = transpile(srcs)
    idx = [k for k, r in enumerate(tr) if r["ok"]]
    comp = dict(zip(idx, fw.run_sketches([{"cpp": tr[k]["cpp"], "compile_only": True} for k in idx])))
    return [(r, comp.get(k)) for k, r in enumerate(tr)]


def part_pairs(ctx, dist, samples):
    """c06_pairs: the whole statement catalog, twice, in one block of every kind of block (setup, loop, function body, every
    arm of if/elif/else, for, while, try, except, nested) - every pair of statement shapes and every shape with itself
    share one C++ scope.  Oracle: g++.  A failing sequence is reduced (ddmin) to a minimal one, which is the replay."""
    rng = ctx.rng
    thorough = ctx.tier == "thorough"
    runs = []
    for cx in PR.CONTEXTS:
        runs.append((cx, PR.sequence(rng, cx, 2)))
    if thorough:
        for rep in range(6):
            for cx in PR.CONTEXTS:
                seq = PR.sequence(rng, cx, 3)
                rng.shuffle(seq)
                runs.append((cx, seq[:rng.randint(20, len(seq))]))
    srcs = [PR.wrap(cx, [l for _, l in seq]) for cx, seq in runs]
    n_eval = 0
    todo = []
    reduced = set()
    for (cx, seq), src in zip(runs, srcs):
        sh = G.shapes_of(src)
        if sh:
            ctx.disagree("catalog sequence is outside the executable guard (generator bug)", {"context": cx, "shapes": sorted(sh)}, "inside", "outside")
            continue
        todo.append((cx, seq, src))
    res = _compile_many([s for _, _, s in todo])
    skeletons = []
    for (cx, seq, src), (r, c) in zip(todo, res):
        dist["pairs:context:" + cx] += 1
        dist["pairs:statements in one block"] += len(seq)
        for lab, _ in seq:
            dist["pairs:shape:" + lab.split(" ")[0]] += 1
        if not r["ok"]:
            # a single catalog statement the transpiler rejects would hide the rest of the sequence: never silently
            ctx.disagree("catalog sequence rejected by the transpiler (every catalog statement is documented style)", {"context": cx, "exc": r["exc"], "msg": r.get("msg", "")[:300]}, "accepted", "rejected")
            continue
        n_eval += len(seq) * (len(seq) - 1) // 2
        skeletons.append((cx, src, r, c))
        if c["compiled"]:
            continue
        key0 = err_key(c["compile_log"])
        if key0 in reduced:               # the same error in another kind of block: reported once, reduced once
            dist["pairs:failing context (same error, not reduced again):" + cx] += 1
            continue
        reduced.add(key0)

        def fails(cands, cx=cx, key0=key0):
            out = _compile_many([PR.wrap(cx, [l for _, l in cand]) for cand in cands])
            return [bool(r2["ok"] and c2 is not None and not c2["compiled"] and err_key(c2["compile_log"]) == key0) for r2, c2 in out]

        small = PR.ddmin(list(seq), fails)
        msrc = PR.wrap(cx, [l for _, l in small])
        (r2, c2), = _compile_many([msrc])
        errs = re.findall(r"error: .*", (c2 or c)["compile_log"])[:4]
        ctx.fail("statements of the documented style that compile one by one do not compile when they stand in the same block",
                 {"script": msrc, "context": cx, "statements": [lab for lab, _ in small], "errors": errs},
                 "g++ -std=gnu++17 compiles and links", "g++ error", key="same-block:" + key0)
    if todo:
        samples.append({"same-block sequence": [lab for lab, _ in todo[0][1]][:12], "context": todo[0][0]})
    return n_eval, skeletons


# ------------------------------------------------------------------ I. one declaration per scope: Lang/EmitScope.v vs the real text vs g++
def check_scopes(ctx, batch, dist, consts):
    """batch: [(script, transpile result, g++ result or None)].
    (a) property oracle on the real text: in no function of the sketch is a name declared twice in one C++ scope
        (blocks read back by harness/c06_scope.py, the rule decided by the extracted Lang.EmitScope.scan);
    (b) that verdict against g++ ('redeclaration of' / 'conflicting declaration' / 'redefinition of' inside a function);
    (c) the emitter model: emit_program on the real IR must give, for setup, loop and every user function, exactly the block
        structure and declared names read from the real text (declaration-free blocks pruned on both sides)."""
    if not ctx.exe:
        return 0
    n_eval = 0
    cases, meta = [], []
    for src, r, comp in batch:
        try:
            items = S.read_sketch(r["cpp"], consts, r["functions"])
            fns = []
            for it in items:
                if it["kind"] in ("setup", "loop", "function", "ultra"):
                    params, toks = CS.read_function(it["ctext"])
                    fns.append((it["kind"], it["name"], params, toks))
        except (S.SplitError, CS.ScopeReadError) as e:
            if comp is None or comp["compiled"]:
                ctx.disagree(f"emitted text cannot be read back into blocks and declarations: {e}", {"script": src}, "readable", str(e))
            continue
        for kind, name, params, toks in fns:
            cases.append([8, params, CS.wire(toks)])
            meta.append(("text", src, r, comp, kind, name, toks))
        ir = r.get("ir") or {}
        if "error" in ir or not ir:
            ctx.disagree("the IR contains a node kind the emitter model does not know", {"script": src}, "known node kinds", ir.get("error"))
            continue
        cases.append([9, ir["lcds"], ir["buttons"], ir["setup"], ir["loop"], [[ps, ns] for _, ps, ns in ir["fns"]]])
        meta.append(("ir", src, r, comp, fns, ir, None))
    outs = ctx.model(cases) if cases else []
    bad_by_src = {}
    for m, o in zip(meta, outs):
        if o[0] != 0:
            ctx.disagree("model could not decode the scope case", {"script": m[1]}, o, None)
            continue
        if m[0] == "text":
            _, src, r, comp, kind, name, toks = m
            n_eval += 1
            dist["scopes:function bodies read"] += 1
            dist["scopes:declarations read"] += sum(1 for t in toks if t[0] == "decl")
            if o[1] != 1:
                bad_by_src.setdefault(src, []).append((name, C.wstr(o[2])))
        else:
            _, src, r, comp, fns, ir, _ = m
            real = {(k, nm): (ps, CS.prune(tk)) for k, nm, ps, tk in fns}
            bodies = [("setup", "setup", o[1]), ("loop", "loop", o[2])] + [("function", nm, b) for (nm, _, _), b in zip(ir["fns"], o[3])]
            for kind, name, b in bodies:
                n_eval += 1
                mt = CS.prune(CS.unwire(b[0], C.wstr))
                rp = real.get((kind, name))
                if rp is None:
                    ctx.disagree("a function of the IR is missing in the emitted text", {"script": src, "function": name}, name, None)
                    continue
                dist["scopes:model vs text bodies"] += 1
                if mt != rp[1]:
                    k = next((i for i, (a, b2) in enumerate(zip(mt, rp[1])) if a != b2), min(len(mt), len(rp[1])))
                    ctx.disagree("blocks and declarations of a function body: emitter model (Lang/EmitScope.v on the real IR) vs the emitted text",
                                 {"script": src, "function": name, "first difference at token": k},
                                 [list(t) for t in mt[max(0, k - 3):k + 4]], [list(t) for t in rp[1][max(0, k - 3):k + 4]])
                if b[2] == 1 and b[1] != 1:
                    ctx.disagree("extracted model contradicts theorem C06_emit_no_redeclaration_partial (extraction or wire bug)", {"script": src, "function": name}, 1, b[1])
                if b[2] != 1:
                    dist["scopes:user declarations of a body not redeclaration-free (outside the theorem's guard)"] += 1
    # (b) the verdict against g++
    for src, r, comp in batch:
        if comp is None:
            continue
        n_eval += 1
        gpp = bool(re.search(r"error: (redeclaration of|conflicting declaration|redefinition of ‘[^’(]*’$)", comp["compile_log"], re.M))
        mine = src in bad_by_src
        if mine and not comp["compiled"]:
            name, dup = bad_by_src[src][0]
            ctx.fail("the emitted sketch declares a name twice in one C++ scope",
                     {"script": src, "function": name, "name": dup, "errors": re.findall(r"error: .*", comp["compile_log"])[:3]},
                     "every identifier declared once per scope", f"{dup} declared twice in {name}()",
                     key="redeclared-in-scope:" + re.sub(r"_\d+$", "_<k>", dup))
        if mine and comp["compiled"]:
            ctx.disagree("scope model finds a name declared twice in one scope, g++ accepts the sketch", {"script": src, "redeclared": bad_by_src[src]}, "g++ error", "compiles")
        if gpp and not mine:
            ctx.disagree("g++ reports a redeclaration inside a function that the scope model does not see", {"script": src, "errors": re.findall(r"error: .*", comp["compile_log"])[:3]}, "redeclaration", "well scoped")
    return n_eval


# ------------------------------------------------------------------ F. user variables: the scoping model vs g++
SCOPE_FEATURES = [(), ("tuple",), ("branch_first",), ("loop_first",), ("tuple", "branch_first", "loop_first"), ("float", "str", "tuple", "branch_first")]


def scope_templates(rng):
    """boundary programs for the scoping model (progen statement trees): tuple assignments that are all-new / mixed / all-old
    at every level, names first bound in branches and loops (promotion), for variables re-used after their loop"""
    C1 = "analog_read(0) > 3"
    out = []
    for a, b in (("a", "b"), ("v1", "v2")):
        k = str(rng.choice([2, 3, 7]))
        out += [
            {"pre": [("assign", a, "1"), ("tuple", [a, b], [k, "3"])], "main": [("assign", b, f"{b} + 1"), ("write", b)]},
            {"pre": [("assign", a, "1"), ("tuple", [a, b], [k, "3"])], "main": [("write", a), ("sleep", "5")]},
            {"pre": [("assign", a, "1"), ("tuple", [b, a], [k, "3"]), ("write", b)], "main": None},
            {"pre": [("tuple", [a, b], ["1", k])], "main": [("swap", a, b), ("write", a)]},
            {"pre": [("tuple", [a, b], ["1", k]), ("tuple", [a, b], [b, a])], "main": [("assign", a, f"{a} + {b}"), ("write", a)]},
            {"pre": [], "main": [("tuple", [a, b], ["1", k]), ("assign", a, b), ("write", a)]},
            {"pre": [("if", [(C1, [("tuple", [a, b], ["1", k])])], [])], "main": [("assign", a, b), ("write", a)]},
            {"pre": [("assign", "n", "2"), ("while", "n > 0", [("tuple", [a, b], ["n", k]), ("aug", "n", "-", "1")])], "main": [("assign", b, f"{a} + 1"), ("write", b)]},
            {"pre": [("for", "i", "3", [("sleep", "1")]), ("aug", "i", "+", "1")], "main": [("sleep", "5")]},
            {"pre": [("for", "i", "3", [("sleep", "1")]), ("assign", "i", k)], "main": [("write", "i")]},
            {"pre": [("for", "i", "3", [("assign", a, "i")])], "main": [("assign", a, f"{a} + 1"), ("write", a)]},
            {"pre": [("assign", "i", "9"), ("for", "i", "3", [("assign", a, "i"), ("aug", "i", "+", "1")]), ("aug", "i", "+", "1")], "main": [("write", "i")]},
            {"pre": [("if", [(C1, [("assign", a, "1")])], [("assign", a, "2")]), ("aug", a, "+", "1")], "main": [("assign", a, f"{a} + 1"), ("write", a)]},
            {"pre": [], "main": [("if", [(C1, [("assign", a, "1")])], []), ("assign", a, "2"), ("aug", a, "+", k), ("write", a)]},
            {"pre": [], "main": [("for", "j", "2", [("assign", b, "j"), ("if", [(C1, [("assign", a, b)])], [])]), ("assign", b, f"{b} + 1"), ("write", b)]},
            {"pre": [], "main": [("if", [(C1, [("for", "j", "2", [("assign", a, "j")])]), ("not (" + C1 + ")", [("assign", a, k)])], [("assign", b, "0")]), ("assign", a, "4"), ("assign", b, a)]},
            {"pre": [("if", [(C1, [("while", C1, [("assign", a, k), ("break",)])])], [])], "main": [("assign", a, f"{a} + 1")]},
        ]
    return out


def part_scope(ctx, dist):
    """Lang/Scope.v on the IR of Lang/Transl.v (the model the theorem C06_transl_scoped_partial is about) against g++ on the
    real emitted text of the same program.  Transl itself is tied to parser.py by unit C01_stmt (IR equality)."""
    if not ctx.exe:
        return 0
    rng = ctx.rng
    n = 600 if ctx.tier == "thorough" else 90
    cases = []
    progs = scope_templates(rng)
    for i in range(n):
        g = progen.Gen(rng, SCOPE_FEATURES[i % len(SCOPE_FEATURES)])
        progs.append(g.program(with_main=rng.random() < 0.85))
    for p in progs:
        if p.get("funcs"):
            continue
        an = SW.Annotator()
        pre = an.stmts(p["pre"])
        main = an.stmts(p["main"]) if p["main"] is not None else None
        if an.ok:
            cases.append((p, an, pre, main))
    if not cases:
        return 0
    impl_ir = C.run_impl("c01_stmt_impl.py", {"cases": [{"src": progen.render(p), "exprs": an.exprs} for p, an, _, _ in cases]})
    wires = [[5, SW.wire_stmts(pre, r["consts"]), [] if main is None else [SW.wire_stmts(main, r["consts"])]]
             for (p, an, pre, main), r in zip(cases, impl_ir["results"])]
    outs = ctx.model(wires)
    srcs = [progen.render(p) for p, _, _, _ in cases]
    _, tr = transpile(srcs)
    idx = [k for k, r in enumerate(tr) if r["ok"]]
    comp = dict(zip(idx, fw.run_sketches([{"cpp": tr[k]["cpp"], "compile_only": True} for k in idx])))
    n_eval = 0
    for k, (o, r) in enumerate(zip(outs, tr)):
        src = srcs[k][len(progen.HEADER):]
        if o[0] != 0:
            ctx.disagree("scope model could not decode the program", src, o, None)
            continue
        if o[1] == 0:
            dist["scope:model-rejects"] += 1
            continue
        _, _, setup_ok, loop_ok, all_ok, no_local = o
        n_eval += 1
        dist[f"scope:setup_ok={setup_ok},loop_ok={loop_ok},with_aug={all_ok},setup_has_no_local={no_local}"] += 1
        # the theorem, executed on the extracted model
        if setup_ok != 1 or (no_local == 1 and loop_ok != 1):
            ctx.disagree("extracted model contradicts theorem C06_transl_scoped_partial (extraction or wire bug)", src, o, None)
        c = comp.get(k)
        if c is None:
            dist["scope:real-parser-rejects"] += 1
            continue
        if (loop_ok == 0 or all_ok == 0) and c["compiled"]:
            ctx.disagree("scope model: an assignment targets a name that is not visible in C++, but g++ accepts the real sketch", src, o, "compiles")
        if not c["compiled"]:
            dist["scope:g++-fails:" + err_key(c["compile_log"])] += 1
            if loop_ok == 0 or all_ok == 0:
                if "was not declared in this scope" not in c["compile_log"]:
                    ctx.disagree("scope model predicts an undeclared assignment target; g++ fails for another reason", src, o, c["compile_log"][-400:])
        else:
            dist["scope:compiled"] += 1
    return n_eval

# ------------------------------------------------------------------ J. reserved identifiers (Lang/Reserved.v vs parser._check_identifier)
def part_reserved(ctx, dist):
    import keyword
    rng = ctx.rng
    thorough = ctx.tier == "thorough"
    names = set(G.REJECTED_NAMES) | set(G.LIBC_NAMES) | set(NEAR_RESERVED) | set(G.VAR_POOL) | set(G.FN_POOL) | set(keyword.kwlist)
    for n in list(names):
        names.update({n + "_", "_" + n, n + "1", n[:-1], n[1:], n.swapcase(), n.capitalize(), n + n, n.upper(), n.lower()})
    names.update("A" + str(k) for k in list(range(0, 24)) + [99, 100, 255, 1000])
    names.update(["A", "A00", "A007", "A0x", "Ax0", "a0", "AA0", "A_0", "B0", "A0_", "0A", "A 0", "A-1", "", " ", "x", "__redu_len", "__state_led"])
    for _ in range(3000 if thorough else 400):
        k = rng.random()
        if k < 0.3:
            names.add("A" + "".join(rng.choice("0123456789") for _ in range(rng.randint(1, 6))))
        elif k < 0.5:
            names.add("A" + "".join(rng.choice("0123456789abx_") for _ in range(rng.randint(1, 4))))
        else:
            names.add("".join(rng.choice("abcdefghilnorstuwxy_AEHILOPRSTU0123456789") for _ in range(rng.randint(1, 9))))
    names = sorted(n for n in names if n.isascii())
    got = impl("check_ident", names=[cps(n) for n in names])
    n_eval = 0
    if all(g is None for g in got):
        dist["reserved:parser has no _check_identifier"] += 1
    if ctx.exe:
        m = ctx.model([[10, names]])[0]
        if m[0] != 0 or len(m[1]) != len(names):
            ctx.disagree("reserved identifiers: the model rejects the wire case", names[:5], m, None)
            return 0
        for n, mr, g in zip(names, m[1], got):
            n_eval += 1
            real = 0 if g is None else g
            dist["reserved:" + ("reserved" if mr else "free")] += 1
            if real not in (0, 1) or real != mr:
                ctx.disagree("reserved identifiers: Lang/Reserved.v vs parser._check_identifier (1 = ValueError)", {"name": n}, mr, g)
        # theorem C06_check_all_meaning / C06_one_reserved_rejects, executed: a list is accepted iff none of its names is reserved
        lists = [[rng.choice(names) for _ in range(rng.randint(0, 6))] for _ in range(400 if thorough else 120)]
        res = {n: r for n, r in zip(names, m[1])}
        for l, o in zip(lists, ctx.model([[10, l] for l in lists])):
            n_eval += 1
            if o[0] != 0 or o[2] != (0 if any(res[n] for n in l) else 1):
                ctx.disagree("extracted check_all contradicts theorem C06_check_all_meaning (extraction or wire bug)", l, o, None)
    return n_eval


# ------------------------------------------------------------------ K. exception classes (Lang/ExcDecl.v vs emitter._exception_classes / emit())
EXC_POOL = ["ValueError", "Exception", "KeyError", "TypeError", "E1", "errors.Timeout", "errors.Busy", "pkg.sub.Failure", "pkg.Other", "a.B"]


def gen_exc_tree(rng, depth):
    def nodes(d, lo=0):
        return [node(d) for _ in range(rng.randint(lo, 3 if d > 0 else 1))]

    def node(d):
        k = rng.random()
        if d <= 0 or k < 0.25:
            return [1, []]
        if k < 0.65:
            # what Python's grammar allows: at least one handler, a handler without a class only as the last one
            hs = [[1, rng.choice(EXC_POOL), nodes(d - 1)] for _ in range(rng.randint(0, 3))]
            if not hs or rng.random() < 0.3:
                hs.append([0, "", nodes(d - 1)] if rng.random() < 0.85 else [1, "", nodes(d - 1)])
            return [0, nodes(d - 1), hs]
        return [1, [nodes(d - 1) for _ in range(rng.choice([1, 1, 2, 2, 3]))]]
    return nodes(depth)


def part_exc(ctx, dist):
    rng = ctx.rng
    thorough = ctx.tier == "thorough"
    cases = [[[], [], []], [[[0, [], [[1, "ValueError", []]]]], [], []], [[], [[0, [], [[1, "ValueError", []], [1, "KeyError", []], [1, "ValueError", []]]]], []],
             [[[0, [], [[1, "a.B", []]]]], [[0, [], [[1, "a.C", []]]]], [[[0, [], [[1, "a.B", []], [0, "", []]]]]]]]
    for _ in range(600 if thorough else 90):
        cases.append([gen_exc_tree(rng, rng.randint(0, 3)), gen_exc_tree(rng, rng.randint(0, 3)),
                      [gen_exc_tree(rng, rng.randint(0, 2)) for _ in range(rng.choice([0, 0, 1, 2]))]])
    got = impl("exc_classes", cases=[_cps_tree(c) for c in cases])
    mo = ctx.model([[11] + c for c in cases]) if ctx.exe else [None] * len(cases)
    n_eval = 0
    to_compile = []
    for c, g, m in zip(cases, got, mo):
        n_eval += 1
        if not g["ok"]:
            ctx.disagree("exception classes: the real emit() fails on an IR built from TryStatement / IfStatement / WhileLoop / ForRangeLoop / Sleep", c, "emits", g)
            continue
        decls = ["".join(chr(x) for x in d) for d in g["decls"]]
        catches = ["".join(chr(x) for x in d) for d in g["catches"]]
        dist["exception classes declared:" + str(min(len(decls), 4))] += 1
        # oracle on the real text (no model): every class a catch header names is declared by exactly one line, above setup()
        for h in catches:
            if h == "...":
                continue
            q = h.split("&")[0].strip()
            want = q.split("::")
            hits = [d for d in decls if re.findall(r"(?:namespace|struct) (\w+)", d) == want]
            if len(hits) != 1:
                ctx.fail("a catch header names a class that is not declared exactly once at file scope", {"ir": c, "catch": h, "declarations": decls},
                         "one declaration of " + q, hits, key="exception-class-undeclared")
        if len(to_compile) < (120 if thorough else 24) and decls:
            to_compile.append((c, g["cpp"]))
        if m is None:
            continue
        if m[0] != 0:
            ctx.disagree("exception classes: the model rejects the wire case", c, m, None)
            continue
        m_classes = [C.wstr(x) for x in m[1]]
        m_decls = [C.wstr(x) for x in m[2]]
        m_quals = {C.wstr(x) for x in m[3]}
        if g["classes"] is not None and m_classes != ["".join(chr(x) for x in d) for d in g["classes"]]:
            ctx.disagree("exception classes: Lang/ExcDecl.v (program_classes) vs emitter._exception_classes", c, m_classes, g["classes"])
        if m_decls != decls:
            ctx.disagree("exception classes: declarations of the model (class_decl) vs the struct / namespace lines of the real emit()", c, m_decls, decls)
        real_quals = {h.split("&")[0].strip() for h in catches if h != "..."}
        if real_quals != m_quals:
            ctx.disagree("exception classes: qualified names in the catch headers vs dots_to_colons of the declared classes", c, sorted(m_quals), sorted(real_quals))
    comp = fw.run_sketches([{"cpp": cpp, "compile_only": True} for _, cpp in to_compile])
    for (c, cpp), r in zip(to_compile, comp):
        n_eval += 1
        if not r["compiled"]:
            ctx.fail("sketch emitted for an IR with named except clauses does not compile", {"ir": c, "cpp": cpp, "errors": re.findall(r"error: .*", r["compile_log"])[:5]},
                     "g++ -std=gnu++17 compiles and links", "g++ error", key="exc:" + err_key(r["compile_log"]))
    dist["exception classes: sketches compiled"] = len(comp)
    return n_eval


def _cps_tree(v):
    if isinstance(v, str):
        return cps(v)
    if isinstance(v, list):
        return [_cps_tree(x) for x in v]
    return v


# ------------------------------------------------------------------ E. listed findings
def replay_finding(ctx, f, consts, dist, explain=False):
    """-> truthy iff the witness still violates the property on the real code (explain: (expected, observed))"""
    w = f["witness"]
    src = w["script"]
    consts2, tr = transpile([src])
    r = tr[0]
    if not r["ok"]:
        return False
    mode = w.get("expect", "compile-fail")
    fixed = f.get("kind") == "fixed"
    if mode == "compile-fail":
        c = fw.run_sketches([{"cpp": r["cpp"], "compile_only": True}])[0]
        if c["compiled"]:
            return False
        if explain:
            return ("g++ -std=gnu++17 compiles and links", re.findall(r"error: .*", c["compile_log"])[:4] or "g++ error")
        # the ordering findings must also be predicted by the section model
        if w.get("model_predicts") and ctx.exe and not fixed:
            items, m = analyse_sections(ctx, src, r, consts2, c, dist)
            if m is not None and (m["wf"] != 0 or m["guard"] != 0 or not any(w["model_predicts"] in n for _, n in m["undeclared"])):
                ctx.disagree("listed ordering finding reproduces on g++ but the section model does not predict it", {"script": src}, w["model_predicts"], m)
        return True
    if mode == "value-differs":
        x = fw.run_sketches([{"cpp": r["cpp"], "loops": 0}])[0]
        if not x["compiled"]:
            return ("compiles and prints the value", re.findall(r"error: .*", x["compile_log"])[:4] or "g++ error") if explain else True
        gotl = [unescape_event(e[2:]) for e in x["events"] if e.startswith("S ") or e == "S"]
        wantl = serial_lines(w["value"].encode("utf-8") + b"\r\n")
        if gotl == wantl:
            return False
        return ([list(v) for v in wantl], [list(v) for v in gotl]) if explain else True
    return False


def run(ctx: C.Ctx):
    import time
    dist = Counter()
    samples = []
    timing = {}
    t0 = time.time()

    def lap(name):
        nonlocal t0
        timing[name] = round(time.time() - t0, 1)
        t0 = time.time()

    # repaired findings first: a fixed entry suppresses nothing - its witness is replayed on every run and, when it fails again,
    # reported as a VIOLATION with the witness as replay (before anything the generators may find in the same region)
    for f in local_findings(ctx):
        if f.get("kind") != "fixed":
            continue
        why = replay_finding(ctx, f, None, dist, explain=True)
        if why:
            ctx.fail(f"{f['id']} (recorded as fixed in {f.get('commit')}) fails again: {f['what']}", {"script": f["witness"]["script"], "finding": f["id"]},
                     why[0], why[1], key="fixed:" + f["id"])
    lap("fixed findings replayed")

    n1, nt1, strings, escaped = part_escape(ctx, dist, samples); lap("A escape")
    n2 = part_lexer(ctx, dist, escaped); lap("B lexer")
    n3 = part_literals(ctx, dist, strings); lap("C literals")
    n4, nt4, consts = part_scripts(ctx, dist, samples); lap("D scripts (+G headers/functions, I scopes)")
    n5 = part_scope(ctx, dist); lap("F user-variable scoping")
    n6, pair_batch = part_pairs(ctx, dist, samples); lap("H same-block sequences")
    n6 += check_scopes(ctx, [(src, r, c) for _, src, r, c in pair_batch], dist, consts); lap("I scopes of the sequences")
    n7 = part_reserved(ctx, dist); lap("J reserved identifiers")
    n8 = part_exc(ctx, dist); lap("K exception classes")
    n9 = part_comp(ctx, dist, samples); lap("L scoped binders re-using outer names")

    for f in local_findings(ctx):
        if f.get("kind") == "fixed":
            # a repaired defect's witness is INSIDE the guard now: the generators may draw it
            if G.shapes_of(f["witness"]["script"]):
                ctx.disagree("witness of a repaired finding is still outside the executable guard", {"script": f["witness"]["script"]}, "inside", sorted(G.shapes_of(f["witness"]["script"])))
            continue
        if replay_finding(ctx, f, consts, dist):
            ctx.known(f"{f['id']}: {f['what']}")
        # every witness must be outside the executable guard (otherwise the guard would not protect the search)
        w = f["witness"]["script"]
        if not G.shapes_of(w) and not f["witness"].get("generator_invariant"):
            ctx.disagree("listed finding's witness is inside the executable guard", {"script": w}, "outside", "inside")

    ctx.coverage.update({
        "evaluations": n1 + n2 + n3 + n4 + n5 + n6 + n7 + n8 + n9,
        "distinct_nontrivial": nt1 + nt4,
        "rule": "fixed findings: every witness recorded as fixed (ten, three of them - literal concatenation, named except, reserved identifier - since this repair) is replayed first (a failure is a VIOLATION with the witness as replay). "
                "A: escape on special strings + all 1/2-character strings over a 21-symbol boundary alphabet (incl. LF, CR, TAB, NUL, 0x01, 0x1f, DEL, digits) + all 3-character strings over 8 symbols + every code point below 256 alone and in front of 0 7 8 a f backslash quote LF + seeded strings, half printable (ASCII incl. quote/backslash/?, Unicode), half with control characters mixed in (often right before a digit / hex digit / backslash / quote) (model vs _escape_string_literal; the real output lexed by the model lexer must give back the string - for EVERY string; the three escape call sites of _to_c_expr). "
                "B: C++ literal bodies built from plain characters, simple/octal/hex escapes, trigraph-like sequences, line splices, non-ASCII: model lexer vs the bytes g++ stores; plus the images of the REAL escape (special strings, every code point below 256 followed by the digit 7, a sample of the strings with control characters): g++ must store exactly the UTF-8 bytes of the Python string (oracle). "
                "C: strings (half of them with control characters; NUL excepted) in 11 script contexts (write, variable, list element, function argument, f-string, concatenation, +=, return value of a helper, arm of a conditional expression, comparison with a second spelling of the literal, text / label arguments of LCD calls) transpiled, compiled, run; the printed lines must be the Python value followed by CR LF as the mock's Serial cuts it into lines (split at LF, one CR before the LF dropped - so a CR directly in front of a LF is the one thing this oracle cannot see; parts A and B can). "
                "D: 10 edge scripts + 46 boundary scripts (the two shapes the prototypes repair: a function that measures - result returned / in a condition / two sensors / only the function measures / function and loop measure / called by a function above it / sensor declared at the top of the loop - and forward calls - int result, with an argument from a float caller, bare statement, condition, mutual recursion, chain of three, two callers, forward and backward; every device name bound twice with the same arguments / with other pins, hoistable kinds bound before the loop and again at its top; every combination and declaration order of Servo / parallel LCD / I2C LCD incl. a Servo hoisted from the loop head and two objects per class; every helper shape: parameter re-bound to float called with int and float in both orders, two real overloads, calls through annotated wrappers, one signature twice, never called, called from a function only) + seeded structured scripts (c06_gen.gen_script: device kinds forced in rotation before the loop / hoistable kinds at the top of the loop body; every 4th script with 1-3 instances per device kind in shuffled order, both LCD interfaces / only one of them in rotation, a hoistable kind both before and in the loop; every 4th script with helpers whose un-annotated parameters are called with several argument types (13 shapes in rotation: re-bound parameters, overloads, recursion, list parameter / result, global statement, empty body) at top level, in the loop, in nested blocks and inside other functions; every 8th script with 2-4 functions written in REVERSE order of their generation (every call among them is a call of a function defined further down) next to an Ultrasonic, function bodies may call measure_distance(); devices first / alternating with globals / below the functions that drive them; pins as literals or global variables; globals, lists, user functions, if/elif/else, for, while, try, tuple assignment, f-strings, device calls with literal and run-time arguments) filtered by the syntactic guard shapes_of; every accepted one is compiled+linked by g++ (oracle) and its top-level structure is read back and compared with the model's stitch order / declared-before-use verdict; on each of them two more property clauses are evaluated on the real artefacts (every instantiated library class has its own header included above the object; no (name, parameter types) is defined twice - in Program.functions and in the text) and Lang/Headers.v / Lang/FnSelect.v are run on the real device declarations / specialisation tables and compared with the real include list, library objects and Program.functions. "
                "H: harness/c06_pairs.py - a catalog of ~130 statement shapes (every method of Led, RGBLed, Buzzer, Servo, DCMotor, LCD (parallel with backlight pin and I2C), SerialMonitor, Core, sensors with all-literal and with run-time arguments, optional arguments present / absent; tuple assignments all-new / swap / rotate, list literal / comprehension / append / remove / len / index (a subscript assignment is rejected by the transpiler since the repair of the silent drops), calls, for / while / if / elif / try with names promoted out of them, augmented assignments, in functions the re-assignment of the parameter) put TWICE (second copy shuffled, fresh Python names) into ONE block of each of 13 kinds (setup, loop, function body, if / elif / else arm, for, while, try, except, if inside a function, for inside if, loop body below devices declared at its top): every pair of shapes and every shape with itself share one C++ scope; g++ is the oracle, a failing sequence is reduced by ddmin and the minimal script is the replay (evaluations count the pairs); thorough: 6 more rounds per context with three shuffled copies cut at a random length. "
                "I: every compiled script of D and H: each function of the real text is read back into blocks / header declarations / declarations (harness/c06_scope.py), the extracted scope stack decides whether a name is declared twice in one scope (oracle, cross-checked with g++'s 'redeclaration' errors in both directions), and the extracted emitter model run on the real IR (node kinds + the attributes that decide the template: literal vs run-time durations, empty pattern, known melody / LCD / button) must reproduce blocks and declared names of setup, loop and every user function exactly (declaration-free blocks pruned on both sides). "
                "F: statement-fragment programs (harness/progen.py feature sets + 34 scoping boundary templates: all-new / mixed / all-old tuple assignments at every level, names first bound in branches and loops, for variables re-bound after the loop) through the extracted Lang.Transl + Lang.Scope and through the real transpiler + g++: the theorem's conclusion is re-checked on the extracted model, and a target the model finds invisible must make g++ fail with 'not declared'. "
                "J: Lang/Reserved.v (table regenerated from parser._CPP_RESERVED_NAMES, rule probed on the real function by the translator) against parser._check_identifier on every name of the harness's own lists (C++ keywords, core names, C library names, generator pools), their mutilations (prefix, suffix, case, one character less), A<digits> of every length and random ASCII identifiers; check_all executed on random name lists. The region itself is searched by D: repaired_boundary_scripts declares every reserved name at one of 14 declaration sites (assignment, main loop, tuple, for variable, function name, parameter, local, inside if / try, comprehension, except target, exception class, dotted class) and twelve names at every site - an accepted script must compile -, plus 20 shapes of literal concatenation / int() of a choice and every except-handler form in setup, main loop and a function. "
                "K: random IR trees (TryStatement with 0-3 handlers with / without class, dotted classes, the same class several times; IfStatement / WhileLoop / ForRangeLoop / Sleep around them; depth <= 3) for setup, loop and 0-2 function bodies, built from the real IR classes and put through the real emit(): emitter._exception_classes = program_classes of Lang/ExcDecl.v, the struct / namespace lines of the text = class_decl of each in that order, the qualified names of the catch headers = dots_to_colons of the declared classes; oracle on the real text: every class a catch header names is declared by exactly one line, and a sample of the sketches is compiled by g++. "
                "L: harness/c06_comp.py - binders with a scope of their own that re-use the NAME of an outer variable: scenarios = outer variable of type int / float / String / bool / list[int] / list[float] / list[String] x 24 sites (comprehension at the top level, in an if / else arm, a for / while body, a try body, in a function over a global, over the function's own annotated parameter, in a branch of a function, nested in a comprehension over another / over the SAME name, two comprehensions in a row, range() over the outer variable itself, with a second outer variable in the element, at the top of the main loop and in if / for / try there, as the returned expression, as the argument of len() / of a helper with an un-annotated parameter, assigned twice; a function parameter / a function's for variable of the name of a global) x 17 element forms (arithmetic, float, str(), literal, f-string, conditional expression, comparison, other outer variables, subscript of an outer list, call of a user function) x 8 range() forms (1-3 arguments, negative step, run-time bounds); the outer variable is copied before and after, first assigned in the main loop and returned from a function defined afterwards. Oracle on the real artefacts: the accepted script compiles (g++) AND every name whose type the construction fixes - the copies, the function results, the lists - is declared exactly once in the emitted text with that C++ type (quick: every site with two outer types, two scenarios per script + 8 random scripts; thorough: every site x type alone + 260 random scripts; a failing script is re-run scenario by scenario and the single failing scenario is the replay). Correspondence: seeded sequences of 2-7 top-level assignments (literals, copies, arithmetic, comprehensions nested up to 2 whose targets are mostly declared names) through the extracted Lang.CompScope (wire op 12) and the real parse() + emit(): same accept / reject, same declared names in the same order, same C++ type per declaration; the theorem's conclusions (lexical reference, block scoped) re-checked on the extracted model; the number of sequences on which a popping `finally` would declare another type is measured. The generic generator of D re-uses an outer name in every third comprehension, and its comprehensions now also run over range() with 2-3 arguments / a negative step and make lists of strings and bools (str(i), literals, concatenation with outer Strings, comparisons, conditional expressions). "
                "distinct non-trivial = strings that need escaping + distinct (section-kind multiset, helper set) signatures of compiled scripts",
        "samples": samples[:4],
        "timing_s": timing,
        "distribution": {k: v for k, v in sorted(dist.items(), key=lambda kv: str(kv[0]))},
        "guard": "strings: none (every string; the device-value oracle of part C leaves out NUL, which a C string cannot carry). scripts: c06_gen.shapes_of(script) is empty - (lcd.animate() inside a function is generated since repair 17b67c1; `**` is rejected by the transpiler since repair c223eb4) no call of a function defined further down unless that function evidently returns an int or nothing, no '**', no except clause with a tuple of classes ('except <Name>', also dotted and with a target, is generated since the repair of F-C06-named-except), ('+' of two string literals is generated since the repair of F-C06-literal-concat), no name of the C library (c06_gen.LIBC_NAMES) as a Python identifier (a C++ keyword / sketch entry point / Arduino core name as a Python identifier is generated since the repair of F-C06-cpp-keyword-identifier: rejected, or it compiles), no top-level tuple assignment mixing new and old names, no for variable mentioned after its loop, no comprehension over anything but range(...) (a for STATEMENT over a list is rejected by the transpiler since the repair of the silent drops and is generated), no un-annotated parameter re-bound to a string-valued expression, no string / float literal passed to an un-annotated parameter outside an assignment or return value, no function above an RGBLed whose on/off/blink/toggle it calls, no Servo / Buzzer name bound twice with different arguments besides the pin, no function that assigns (without `global`) a literal of another type to a name whose module-level first assignment is a literal (F-C06-fn-local-shadows-global); plus generator invariants: type-correct Python, one type class per variable name, list.append/remove arguments of the element type, a helper with two real overloads has one numeric and one String overload and is called only as the right-hand side of an assignment, a helper whose un-annotated parameter is used as a list is called once in an assignment. Function theorem C06_fn_no_redefinition_partial: all labels in _cpp_type's table. Redeclaration theorem C06_emit_no_redeclaration_partial: the declarations the script itself causes (locals, for variables, catch targets, parameters, button polls) are free of redeclaration (the parser's bookkeeping; checked by g++ and the scope oracle, not proved). Globals theorem: every name always offered with the same initialiser. Scoping theorem: setup() has no top-level local declaration (for loop()), targets of augmented assignments not checked",
        "unmodelled": ["the C++ type checker (template deduction in the list helpers, String overloads, implicit conversions): decided by g++ only",
                       "AVR specifics: <cstring> in the len helper, 16-bit int, PROGMEM; the mock is a hosted g++ 12 with the mock core",
                       "universal character names, GNU escapes, numeric escapes > 255, -trigraphs / -std=c++NN modes (the lexer model answers None)",
                       "Lang/Headers.v covers Servo and LCD declarations at the top level of setup_body / loop_body (the property's quantifier); LCDs declared inside the loop or nested blocks are not modelled",
                       "Lang/FnSelect.v models the selection loop and _cpp_type, not how _parse_function / _infer_expr_type fill the tables (variants, recorded signatures, aliases are read from the real run); overload resolution at the call sites is g++'s",
                       "scripts rejected by the transpiler (not the property's business); lines silently dropped by the parser (C07)",
                       "which names an item defines/uses is read from the emitted text by harness/c06_sections.py, not by a C++ parser",
                       "Lang/EmitScope.v models which names each node kind declares in which block, not the statements between them; user names are assumed not to start with __redu_ (rendering of the four name classes is then injective); LCD helper snippets and list helpers are fixed text compiled by g++ only; lambdas inside expressions (list comprehensions) are skipped by the reader",
                       "Lang/Globals.v is a model of the de-duplication rule only (no correspondence run: the lines emit() offers are not observable without a hook); its tie is the replayed witness and the g++ oracle on the boundary scripts with re-bound device names",
                       "Lang/CompScope.v: sequences of single-name assignments in ONE parsing context with the user-function table fixed (functions, branches, the main loop and their child contexts are Lang/Decl.v's, unit C02); the range() arguments are not looked at; plain sub-expressions that change var_types by themselves (name + 'text') are outside the guard pure_run; the nested sites are covered by the oracle of part L only",
                       "scoping theorem: expression reads, redeclaration within one block, the __tmp_assign_k temporaries, user functions, lists and devices are outside Lang/Transl.v; Transl itself is tied to parser.py by unit C01_stmt (IR equality on generated programs), not re-run here"],
        "trusted_base": C.COMMON_TRUSTED + ["g++ 12 -std=gnu++17 -O0 and mock/ (Arduino.h, Servo.h, LiquidCrystal*.h, Wire.h, mock_core.cpp) as the definition of 'compiles against the Arduino core'",
                                            "harness/c06_sections.py (top-level item splitter, defined/used names), harness/c06_gen.py (generator; shapes_of = executable guard)",
                                            "harness/c06_comp.py (scenario builder with the expected C++ type of every name by construction; reads `T name =` / `T name;` / `T name(` lines out of the emitted text)",
                                            "harness/c06_scope.py (reads blocks, header declarations and declarations of one function out of the emitted text; cross-checked against g++ on every sketch), harness/c06_pairs.py (statement catalog, block contexts, ddmin)",
                                            "harness/impl/c06_impl.py (calls _escape_string_literal, _to_c_expr, parse, emit; exports the emitter's snippet constants, the device declarations of the IR, the IR in the node encoding of Lang/EmitScope.v (fail-closed on an unknown node kind), and - through a wrapper around parser._parse_function that keeps a reference to the ctx dict - the specialisation tables parse() selects from)",
                                            "mock/__MockLcdBase.h: the shared base of the two mock LCD classes lives in its own header, so that LiquidCrystal / LiquidCrystal_I2C are visible only when their own header is included"],
    })
    ctx.assumptions += ["source and execution character set UTF-8; g++ in a gnu++ mode (trigraphs off), as the Arduino cores and PlatformIO build",
                        "generated identifiers are distinct per scope (no local shadows a file-scope name), so 'used' = 'mentioned' in c06_sections"]


def replay(data):
    case = data.get("case")
    if case is None and data.get("broken_correspondence"):
        case = data["broken_correspondence"][0].get("case")
    if isinstance(case, dict) and isinstance(case.get("script"), str):
        _, tr = transpile([case["script"]])
        r = tr[0]
        if not r["ok"]:
            print(json.dumps(r, indent=1))
            return 0
        x = fw.run_sketches([{"cpp": r["cpp"], "loops": 0}])[0]
        print(json.dumps({"compiled": x["compiled"], "errors": re.findall(r"error: .*", x["compile_log"])[:6],
                          "serial": [e for e in x["events"] if e.startswith("S ")][:10]}, indent=1, ensure_ascii=False))
    elif isinstance(case, dict) and "string" in case:
        print(json.dumps({"escaped": "".join(chr(c) for c in impl("escape", strings=[cps(case["string"])])[0])}, ensure_ascii=False))
    return 0
