"""C07 - every line is accounted for and stays in the block Python assigns it to."""
from __future__ import annotations

import itertools
import re

from harness import common as C
from harness import c07_gen as G
from harness import c07_dispatch as D
from harness import c07_fw as F
from harness import c07_lines as L
from harness import c07_stmts as S

META = {
    "id": "C07",
    "technique": "Coq proof (induction over line lists: _strip_inline_comment vs Python's comment rule, _collect_block vs Python's block rule, round trip of the block-skeleton parser over every layout of the re-layout relation; reflection over the translator-generated line-accounting table) + extracted-model correspondence with the real lexical functions, header regexes and the recorded _parse_simple_lines call tree + CPython tokenize/ast validation of the specification + re-layout metamorphism and line-accounting oracles on the real parse()+emit() with the REDUINO_VERIF hook + Coq model of the control-flow part of _emit_block / emit() with a C++ compound-statement reader as specification (induction over IR trees: the firmware's block tree and the conditions every line runs under are Python's) + block-structure oracle on the real firmware",
    "level_text": "Theorems C07_* (coq/Props/C07.v) are proved for all line lists about a Gallina model of the lexical layer of parser.py (Lang/Lex.v) against a hand-written model of Python's layout rules (Lang/PyLayout.v, validated against CPython's tokenizer and ast on every run). Block extent and comment stripping are proved inside explicit guards and refuted outside them by concrete witnesses (mixed tabs, '#' in a triple-quoted literal); comment-only lines at any column, trailing comments on column-0 headers and on elif/else/except are inside the guards since the repair of the comment handling (fixed findings, replayed on every run); the line-accounting table (70 statement kinds x 4 contexts) is regenerated from the current parser and checked by computation against the fixed set of the property plus the listed gaps; `continue` left the listed gaps with the repair of the parser (fixed finding, replayed on every run) and is pinned: translated in a for/while loop and at the level of the main loop, rejected outside any loop; since the repair of the silent drops ('unknown -> ignore' became ValueError) the 127 remaining (kind, context) pairs left the gaps and are pinned Rejected (C07_former_gaps_rejected), the positive theorem C07_dispatch_total_partial (neither in the fixed set nor the one gap left => never dropped) replaced the refutation, the end of the dispatch loop is modelled (C07_tail_never_drops, C07_tail_rejects_unrecognised, for every line), one gap is left (host-side SerialMonitor.connect/close). The firmware side (Lang/EmitBlocks.v): _emit_block's treatment of IfStatement / WhileLoop / ForRangeLoop / TryStatement and the function / setup / loop sections of emit() are modelled line by line; read the way C++ groups lines into compound statements, the emitted lines are proved to be one stanza per branch, loop and handler around exactly its own lines (C07_emit_block_structure, C07_sketch_sections_structure), and - composed with the grouping of the lexical skeleton into IR nodes and with C07_roundtrip_partial - the compound statements of the firmware and the conditions each line runs under are proved to be those of Python's block tree for every layout inside the guard (C07_firmware_blocks_are_pythons_partial, C07_layout_to_firmware_partial, C07_firmware_paths_are_pythons_partial); the statement layer enters these theorems as arbitrary functions. The model is run against the real functions on enumerated and generated inputs; the property's own relations (same firmware across layouts; no unlisted line disappears; every control header of the script is in the firmware once and every numbered statement / break / continue / return runs in the function and under the chain of conditions Python gives it) are evaluated on the real transpiler.",
    "level_text_2": "Added: (a) the round trip at the level of parse() is PROVED (C07_top_roundtrip_partial, C07_top_relayout_invariant_partial: target(...) directives, import filter, column-0 while True / while / for / def, if / try chains through _collect_if/try_structure, simple statements; guard Layout.top_layout_ok) and composed with the firmware block theorems into one statement from source text to emitted C++ blocks (C07_script_to_firmware_partial, C07_two_layouts_same_firmware_partial). (b) the statement recognisers are inside the model: every RE_* pattern is translated from its parsed form into Lang/Rx.v (derivative matcher, C07_rx_match_decides), 63 of 74 are proved to be instances of five shapes, the dispatch loop of _parse_simple_lines (order, device-set guards) is regenerated from its source and pinned (C07_dispatch_chain_pinned); optional spacing between tokens is proved accepted for every spacing inside the exact guard (C07_call0_spacing_partial, C07_call_spacing_partial, C07_decl_spacing, C07_sleep_spacing) and refuted outside it by the witnesses of the two findings (C07_call_paren_space_refuted, C07_call_dot_space_refuted, C07_call_args_paren_space_refuted, C07_keyword_paren_refuted).",
    "level_text_3": "Added (third round): the statement layer between the lexical skeleton and the emitted blocks. (c) variable promotion is inside the model (Lang/Promote.v: _rewrite_nodes, the if handler's local _rewrite, _make_promotion_decls, what the while / for / try / if handlers append): for EVERY set of promoted names and every node tree the rewritten tree holds the same statements in the same places (C07_promotion_rewrite_keeps_every_statement, C07_promotion_rewrite_if_keeps_every_statement, C07_promotion_rewrite_keeps_paths), no promoted name stays declared below (C07_promotion_rewrite_assigns_promoted), and a handler adds nothing but default-initialised placeholder declarations in front of the block (C07_promoted_loop_keeps_its_body, C07_promotion_adds_only_placeholders). (d) _emit_block's statement nodes next to the de-duplication sets it threads through setup() (Lang/EmitStmt.v): emitting = resolving the device declarations against the sets, then writing (C07_emit_resolves_then_writes); resolving touches no statement node (C07_resolve_keeps_every_statement); hence in every state of the sets, inside and outside setup(), the lines of every statement node and stanza are written, in order, as often as the script makes the statement (C07_statement_lines_written_in_every_state, C07_statement_line_count, C07_statements_ignore_the_sets, C07_outside_setup_sets_unchanged). Both models run against the real functions (_rewrite_nodes, _make_promotion_decls, _emit_block with given sets) on generated IR trees, and the theorems' relations are evaluated on the real outputs (oracle).",
    "level_text_4": "Added (fourth round): (e) the END of the script: parse()'s seen_main_loop flag is inside the model (Lang/TopFlow.v: top_flow = Lex.top_parse with the flag; None = rejected). For every script: an accepted script is parsed exactly as Lex.parse_top says and its main loop is the LAST thing it contains (C07_main_loop_is_last) - no second `while True:`, def, if / for / while / try, simple statement, import or target() call is accepted behind it; once the loop is taken ANY line that is neither blank nor a comment makes parse() reject (C07_after_main_loop_rejected), what is passed over is only blank / comment lines and nothing is built from them (C07_after_main_loop_only_junk). The regenerated line-accounting table has a fifth context AfterLoop (73 kinds x 5 contexts; new kinds: `while True:` wherever it stands, plain try/except, blank line): no kind is translated there, every kind outside the fixed set is rejected (C07_after_loop_never_translated, C07_after_loop_statements_rejected, and DispatchSpec.pinned demands it row by row). (f) FUNCTION VARIANTS: a def is parsed again, from the lines _parse_function keeps, for every further argument-type signature a call site needs; TopFlow.kept_source / variant_nodes / variant_calls model what is kept and re-parsed: every variant has the block skeleton of the def (C07_variant_has_the_defs_blocks) and, whatever the statement layer does for the signature, the compound statements of its firmware are those Python's block tree of the def prescribes (C07_variant_firmware_blocks_partial); the calls of _parse_simple_lines a re-specialisation makes are the def's own (C07_variant_calls_are_the_defs). Tie: the recorded call trace of the real parse() must be the script's own trace with such segments inserted (TopFlow.explain, also nested: a variant that needs another function's variant); every emitted variant is judged by oracle C and by the py_cs correspondence separately.",
    "level_note": "Trusted: Coq kernel, translator harness/gen/dispatch.py (black-box observation of parse+emit), extraction, OCaml driver, CPython tokenize/ast as 'what Python means'. Theorems are about the model. The RE_* patterns and the order / guards of the dispatch loop are regenerated from parser.py on every run (harness/gen/linerx.py, fail-closed) and run by a regex engine proved to decide the usual language of a regular expression.",
    "design_ref": "DESIGN.md section 4 C07, Appendix B.5",
}

OUTCOME_CODE = {"Translated": 0, "Rejected": 1, "Ignored": 2}
# statement kinds that were silently dropped until "fix: reject statements the transpiler cannot translate instead of
# dropping them" (DispatchSpec.former_gap_kinds + nested def): generated since, every script holding one must be rejected
FORMER_GAP_KINDS = ["annassign", "chained_assign", "subscript_assign", "attr_assign", "walrus_expr", "dev_unknown_method",
                    "dev_unknown_method_args", "serial_unknown_method", "undeclared_method_call", "del_stmt", "assert_stmt",
                    "raise_stmt", "yield_stmt", "await_stmt", "semicolon_join", "backslash_continuation", "bracket_continuation",
                    "if_inline_body", "while_inline_body", "with_stmt", "match_stmt", "class_def", "async_def", "decorator",
                    "while_else", "for_else", "for_over_list", "for_over_name", "try_finally", "try_except_else", "nonlocal_decl",
                    "nested_def"]
# a second statement behind a line of the fixed set (the fix's patterns for imports / global declarations exclude `;`)
EXTRA_UNSUPPORTED = {"semicolon_after_import": ["import os; mon.write(7)"], "semicolon_after_from_import": ["from math import sin; mon.write(7)"],
                     "semicolon_after_global": ["global x; mon.write(7)"], "semicolon_after_pass": ["pass; mon.write(7)"]}
CTX_CODE = {c: i for i, c in enumerate(D.CONTEXTS)}

# what the hook may report for the lines of the fixed set (generated `allowed` leaves)
ALLOWED_LINE = re.compile(r"^(pass|print\s*\(.*\)|import os|from\s+math\s+import\s+sin|global\s+x|\"\"\"doc \d+\"\"\"|'note \d+')$")


def texts(v):
    return [C.wstr(x) for x in v]


# ---------------------------------------------------------------------------------------------
# generators of lexical cases
# ---------------------------------------------------------------------------------------------
def indent_cases(rng, thorough):
    alpha = [" ", "\t", "x", "#", "\x0c", "\xa0", "　"]
    out = [""]
    for n in range(1, 5 if thorough else 4):
        out += ["".join(p) for p in itertools.product(alpha, repeat=n)]
    for _ in range(400 if thorough else 100):
        out.append("".join(rng.choice([" ", " ", "\t"]) for _ in range(rng.randint(0, 12))) + rng.choice(["x = 1", "", "# c", "\x0cx"]))
    return out


def strip_cases(rng, thorough):
    alpha = ["a", " ", "#", "'", '"', "\\"]
    out = [""]
    for n in range(1, 7 if thorough else 6):
        out += ["".join(p) for p in itertools.product(alpha, repeat=n)]
    realistic = ["x = 1  # set", "mon.write(\"a#b\")  # say", "mon.write('it\\'s # fine') # c", "s = \"\\\\\"  # backslash",
                 "s = '#'", "s = \"#\" + '#'  # two", "s = 'a\"b'  # mixed", "s = \"a'b#c\"", "#", "  # only", "x = 1 #",
                 "s = '''a#b'''", "s = \"\"\"a\"#b\"\"\"", "s = r'\\'  # raw", "x = 1\t#\ttabbed", "x = 1  # nbsp"]
    out += realistic
    pieces = ["x", " = ", "1", "'", '"', "\\", "#", " ", "mon.write(", ")", "a", "'''", '"""', "\t", "it's", "\\'", '\\"']
    for _ in range(3000 if thorough else 600):
        out.append("".join(rng.choice(pieces) for _ in range(rng.randint(1, 10))))
    return out


HEADER_SEEDS = ["if x > 1:", "if x>1 :", "if(x > 1):", "if :", "if  :", "if x:", "ifx > 1:", "if x > 1", "if x > 1: y = 2", "elif x:", "elif  x > 2 :",
                "elif:", "else:", "else :", "else: x", "elsewhere:", "else", "try:", "try :", "try", "tryx:", "except:", "except Exception:",
                "except Exception as e:", "except a.b.C as e :", "except as e:", "except Exception as:", "except  :", "exceptional:",
                "except Exception, e:", "except (A, B):", "while True:", "while  True :", "while True", "while True: pass", "while Truex:",
                "while x < 3:", "while(x < 3):", "while 1:", "while :", "for i in range(3):", "for  i  in  range( 3 ) :", "for i in range (3):",
                "for i in range(3)", "for i in range(1, 4):", "for i in arr:", "for 1i in range(3):", "for i_2 in range(n):", "for i in range(3): x",
                "for i inrange(3):", "def f():", "def f ( ) :", "def f(a, b=2):", "def f:", "def 1f():", "deff():", "def f() -> int:", "def f()",
                "from Reduino.Actuators import Led", "from Reduino.Utils import sleep", "from Reduino.Communication import SerialMonitor",
                "from Reduino import target", "from Reduino.Core import pin_mode, digital_write", "from Reduino.Core import *",
                "from Reduino.Sensors import Ultrasonic", "from Reduino.Sensors import Button", "from Reduino.Sensors import Potentiometer",
                "from Reduino.Actuators import Servo", "from  Reduino.Actuators  import  Led", "from Reduino.Actuators import Led, Servo",
                "from Reduino.Core import", "import Reduino", "from Reduino.Sensors import Led", "from Reduino.Utils import target",
                "import os", "import os as o", "import os; x = 5", "import os;", "import ;", "from math import sin; x = 5", "from a;b import c",
                "from math import (sin, cos)", "from math import", "import", "importx y", "from x import", "from  x  import  y , z"]


def header_cases(rng, progs_lines, thorough):
    out = list(HEADER_SEEDS)
    for h in HEADER_SEEDS:
        out += [h + "  # c", h + " ", h.replace(" ", "  "), h.replace(":", " :"), h.upper(), h[:-1], h + ":", h.replace(" ", "\t")]
    seen = set()
    for lines in progs_lines:
        for l in lines:
            t = l.strip()
            if t.endswith(":") or "#" in t:
                seen.add(t)
    out += sorted(seen)[: 2000 if thorough else 400]
    return [t.strip() for t in out]      # the code applies these regexes to stripped text only


# ---------------------------------------------------------------------------------------------
def _tick(label, _t=[None]):
    import os, sys, time
    if os.environ.get("C07_TIMING"):
        now = time.time()
        if _t[0] is not None:
            print(f"[c07 timing] {label}: {now - _t[0]:.1f}s", file=sys.stderr)
        _t[0] = now


def run(ctx: C.Ctx):
    _tick("start")
    rng = ctx.rng
    thorough = ctx.tier == "thorough"
    dist = {"leaf_kinds": {}, "units": {}, "exceptions": {}, "dispatch_outcomes": {}, "formerly_excluded_now_generated": {}}
    evaluations = 0
    nontrivial = set()
    samples = []
    have_model = ctx.exe is not None

    # ================================================================ 0. repaired defects (kind "fixed"): suppress nothing.
    # Their witnesses are replayed first; one that fails again is a VIOLATION whose replay is the witness.
    for f in ctx.findings:
        if f.get("kind") != "fixed":
            continue
        wit = f.get("witness", {})
        if wit.get("mode") == "relayout":
            r = C.run_impl("c07_impl.py", {"cases": [["trace", wit["base"]], ["trace", wit["variant"]]]})
            evaluations += 1
            if (r[0]["cpp"] != r[1]["cpp"]) or (r[0]["exc"] != r[1]["exc"]):
                ctx.fail(f"repaired defect {f['id']} is back: {f['what']}", {"finding": f["id"], "witness": wit},
                         {"exc": r[0]["exc"], "firmware": _diff_hint(r[0]["cpp"], r[1]["cpp"], True)},
                         {"exc": r[1]["exc"], "firmware": _diff_hint(r[0]["cpp"], r[1]["cpp"], False)},
                         key="fixed-defect-returned:" + f["id"])
        elif wit.get("mode") == "silent-drop":
            pairs = [(k, cname) for k in wit["kinds"] for cname in wit["contexts"]]
            cs = []
            for k, cname in pairs:
                cs += [["trace", D.build(k, cname, True).splitlines()], ["trace", D.build(k, cname, False).splitlines()]]
            r = C.run_impl("c07_impl.py", {"cases": cs})
            evaluations += len(pairs)
            for j, (k, cname) in enumerate(pairs):
                w, wo = r[2 * j], r[2 * j + 1]
                if not w["exc"] and not wo["exc"] and w["cpp"] == wo["cpp"]:
                    ctx.fail(f"repaired defect {f['id']} is back: {f['what']}",
                             {"finding": f["id"], "kind": k, "context": cname, "script": D.build(k, cname, True).splitlines(),
                              "probe": D.KINDS[D.KIND_IDS.index(k)][1], "witness": wit},
                             "translated or rejected", "identical firmware with and without the statement",
                             key="fixed-defect-returned:" + f["id"])
                    break

    # ================================================================ programs and layouts
    n_prog = 300 if thorough else 50
    n_lay = 6 if thorough else 4
    progs = []
    for i in range(n_prog):
        progs.append(G.gen_program(rng, maxdepth=rng.choice([1, 2, 3, 3, 4])))
    # bodies that emit no device code (any block kind), chains of up to 5 elif, break / bare return:
    # shapes the property quantifies over and the batch above (almost) never draws
    n_hollow = 150 if thorough else 30
    G.OPTS.update({"hollow": 0.35, "max_elifs": 5, "jumps": True})
    try:
        for i in range(n_hollow):
            progs.append(G.gen_program(rng, maxdepth=rng.choice([2, 3, 3, 4])))
    finally:
        G.OPTS.update({"hollow": 0.0, "max_elifs": 2, "jumps": False})
    n_random = len(progs)
    progs += G.systematic_programs()          # exhaustive small chains / try / loops over {device statement, pass, print}
    # third round: (a) statements drawn WITH repetition from a small pool (Core pin calls, device calls, writes, sleeps,
    # assignments) in every phase and at every depth; (b) assignments whose first occurrence is inside a block (the parser
    # promotes the name and rewrites the block body), default-valued or not, in front of compound statements or not
    n_rep = 60 if thorough else 10
    n_asg = 90 if thorough else 14
    rep_from = len(progs)
    for i in range(n_rep):
        progs.append(G.gen_rep_program(rng, maxdepth=rng.choice([1, 2, 2, 3])))
    progs += G.systematic_rep_programs()
    for i in range(n_asg):
        progs.append(G.gen_asg_program(rng, maxdepth=rng.choice([2, 3, 3, 4])))
    progs += G.systematic_asg_programs()
    # fourth round: helpers with nested bodies called (in assignments) with 2-3 argument-type signatures - the firmware holds
    # one variant of the def per signature, each parsed again from the lines _parse_function keeps
    n_var = 70 if thorough else 6
    var_from = len(progs)
    for i in range(n_var):
        progs.append(G.gen_variant_program(rng, maxdepth=rng.choice([2, 3, 3, 4])))
    progs += G.systematic_variant_programs()
    progs = [G.imports_as_directives(tops) for tops in progs]
    _learn_replines(progs)
    inguard = []       # (prog index, unit, ltops, final junk, lines)
    for pi, tops in enumerate(progs):
        lt, fj = G.canonical(tops)
        inguard.append((pi, "    ", lt, fj, G.render(lt, fj, "    ")))
        for j in range(n_lay if pi < n_prog else 2 if (pi < rep_from or thorough or pi >= var_from) else 1):
            u = rng.choice(G.UNITS)
            dens = rng.choice([0.15, 0.35, 0.6])
            sp = rng.choice([0.0, 0.5, 0.9])
            lt, fj = G.lay_program(rng, tops, u, density=dens, sp=sp)
            inguard.append((pi, u, lt, fj, G.render(lt, fj, u)))
            dist["units"][repr(u)] = dist["units"].get(repr(u), 0) + 1
            for k, v in G.formerly_excluded(lt, u).items():
                dist["formerly_excluded_now_generated"][k] = dist["formerly_excluded_now_generated"].get(k, 0) + v
    perturbed = []
    # the lexical / SPEC correspondences (sections 3, 4) draw from the layouts of the first batches: the third-round programs add
    # no new lexical shape (same headers, same layouts), only new statement texts
    lex_inguard = [e for e in inguard if e[0] < rep_from] if not thorough else inguard
    for (_, _, _, _, lines) in lex_inguard:
        if rng.random() < (0.5 if thorough else 0.35):
            perturbed.append(G.perturb(rng, lines, strength=rng.choice([0.05, 0.2, 0.4])))
    for tops in progs:
        for tmpl, meta, where in G.leaves(tops):
            key = meta[0] + (":" + str(meta[1]) if meta[0] == "allowed" else "")
            dist["leaf_kinds"][key] = dist["leaf_kinds"].get(key, 0) + 1

    _tick("0 fixed witnesses + generation")
    # ================================================================ 1. real transpiler on every layout (one subprocess)
    all_scripts = [l for (_, _, _, _, l) in inguard] + perturbed
    impl = C.run_impl("c07_impl.py", {"cases": [["trace", l] for l in all_scripts]}, timeout=3000)
    impl_in = impl[: len(inguard)]
    if impl and impl[0].get("ignored") is None:
        ctx.fail("the REDUINO_VERIF hook (_VERIF_IGNORED) is missing from Reduino.transpile.parser", ["hook"], "list", None, key="hook-missing")

    # ---- oracle A: re-layout metamorphism (same skeleton => same firmware, same outcome)
    base = {}
    n_pairs = 0
    for (pi, u, lt, fj, lines), r in zip(inguard, impl_in):
        evaluations += 1
        if r.get("exc"):
            dist["exceptions"][r["exc"]] = dist["exceptions"].get(r["exc"], 0) + 1
        if pi not in base:
            base[pi] = (lines, r)
            continue
        b_lines, b = base[pi]
        n_pairs += 1
        nontrivial.add(("layout", pi, "\n".join(lines)))
        if (b.get("exc") or None) != (r.get("exc") or None):
            ctx.fail("a re-layout (comments / blank lines / indentation / optional spaces) changes whether the script is accepted",
                     {"canonical": b_lines, "relayout": lines, "unit": u}, b.get("exc"), r.get("exc"), key="relayout-outcome")
        elif b.get("cpp") != r.get("cpp"):
            ctx.fail("a re-layout (comments / blank lines / indentation / optional spaces) changes the generated firmware",
                     {"canonical": b_lines, "relayout": lines, "unit": u}, _diff_hint(b.get("cpp"), r.get("cpp"), True), _diff_hint(b.get("cpp"), r.get("cpp"), False),
                     key="relayout-firmware")
        elif sorted(map(_ign_key, b.get("ignored") or [])) != sorted(map(_ign_key, r.get("ignored") or [])):
            ctx.fail("a re-layout changes the set of lines the parser skips", {"canonical": b_lines, "relayout": lines, "unit": u},
                     b.get("ignored"), r.get("ignored"), key="relayout-ignored")

    # ---- oracle B: line accounting on accepted in-guard programs
    n_marks = 0
    for (pi, u, lt, fj, lines), r in zip(inguard, impl_in):
        if r.get("exc") or r.get("cpp") is None:
            continue
        cpp = r["cpp"]
        for tmpl, meta, where in G.leaves(progs[pi]):
            if meta[0] == "mark":
                n_marks += 1
                if not re.search(r"(?<![0-9])" + str(meta[1]) + r"(?![0-9])", cpp):
                    ctx.fail(f"statement {G.canon_spacing(tmpl)!r} left no trace in the firmware and no diagnostic was raised", {"script": lines},
                             f"{meta[1]} occurs in the emitted text", "absent", key="statement-lost")
        # `continue` (repaired defect, generated since): one `continue;` per `continue` whose innermost loop is a
        # for/while, one `return;` in loop() per `continue` at the level of the main loop (it ends the pass)
        want_c = sum(1 for _, meta, _ in G.leaves(progs[pi]) if meta == ("continue", "loop"))
        want_r = sum(1 for _, meta, _ in G.leaves(progs[pi]) if meta == ("continue", "main"))
        got_c = len(re.findall(r"(?m)^\s*continue;\s*$", cpp))
        got_r = len(re.findall(r"(?m)^\s*return;\s*$", cpp.split("void loop() {", 1)[-1]))
        if base[pi][0] is lines:
            for kname, v in (("continue_in_for_or_while", want_c), ("continue_at_main_loop_level", want_r)):
                dist["formerly_excluded_now_generated"][kname] = dist["formerly_excluded_now_generated"].get(kname, 0) + v
        if pi >= var_from:
            pass          # a def emitted in several variants repeats its `continue;` once per variant: judged per variant by oracle C
        elif got_c != want_c or got_r != want_r:
            ctx.fail("a `continue` statement left no trace in the firmware (or was duplicated) and no diagnostic was raised", {"script": lines},
                     {"continue;": want_c, "return; in loop()": want_r}, {"continue;": got_c, "return; in loop()": got_r}, key="continue-lost")
        for ent in r.get("ignored") or []:
            evaluations += 1
            if not ALLOWED_LINE.match(ent[2]):
                ctx.fail(f"the parser silently skipped the line {ent[2]!r} (reason {ent[3]}), which is not in the fixed set of the property",
                         {"script": lines}, "translated or rejected", ent, key="silent-skip:" + ent[3])
    # every script of the supported subset must be accepted at all
    for (pi, u, lt, fj, lines), r in zip(inguard, impl_in):
        if pi in base and base[pi][0] is lines and r.get("exc"):
            ctx.fail("a script of the supported subset in canonical layout is rejected", {"script": lines}, "accepted", r.get("exc"), key="canonical-rejected")

    # ---- oracle B2 (since the repair of the silent drops; this region used to be excluded by the guard "no statement of a
    # kind in DispatchSpec.known_gaps"): a statement of a formerly dropped kind inserted at a random statement position of an
    # accepted program (any depth, any block kind, function bodies, the main loop) must make the transpiler REJECT the script
    inj = []
    accepted = [pi for pi in sorted(base) if not base[pi][1].get("exc")]
    for _ in range(600 if thorough else 150):
        if not accepted:
            break
        pi = rng.choice(accepted)
        lines = list(base[pi][0])
        spots = [k for k, l in enumerate(lines) if l.strip() and not l.lstrip().startswith("#")
                 and not re.match(r"\s*(elif\b|else\s*:|except\b)", l)]
        if not spots:
            continue
        k = rng.choice(spots)
        ind = lines[k][: len(lines[k]) - len(lines[k].lstrip())]
        kind = rng.choice(FORMER_GAP_KINDS + sorted(EXTRA_UNSUPPORTED))
        if kind == "nested_def" and not ind:
            continue                                  # a def at column 0 is an ordinary function
        probe = EXTRA_UNSUPPORTED[kind] if kind in EXTRA_UNSUPPORTED else D.KINDS[D.KIND_IDS.index(kind)][1]
        inj.append((kind, len(ind), lines[:k] + [ind + pl for pl in probe] + lines[k:]))
    inj_res = C.run_impl("c07_impl.py", {"cases": [["trace", l] for _, _, l in inj]}, timeout=3000) if inj else []
    for (kind, depth, lines), r in zip(inj, inj_res):
        evaluations += 1
        dist["formerly_excluded_now_generated"]["unsupported:" + kind] = dist["formerly_excluded_now_generated"].get("unsupported:" + kind, 0) + 1
        nontrivial.add(("inject", kind, "\n".join(lines)))
        if not r.get("exc"):
            ctx.fail(f"a script containing the unsupported statement kind {kind} is accepted: the statement disappears from (or is mistranslated in) the firmware without a diagnostic",
                     {"script": lines, "probe": EXTRA_UNSUPPORTED.get(kind) or D.KINDS[D.KIND_IDS.index(kind)][1]}, "rejected with an error", "accepted", key="unsupported-accepted:" + kind)

    # ---- oracle B3: an import statement in any form (plain, `as`, parenthesised on one line, parenthesised over several lines
    # with or without comments - _import_end skips it as ONE statement) inserted at a random statement position changes nothing:
    # same firmware as without it (no neighbouring statement is swallowed, nothing of the import reaches the sketch)
    IMPORT_FORMS = [["import os"], ["import os as o, sys"], ["from math import sin, cos"], ["from math import (sin, cos)"],
                    ["from math import (sin, cos)  # both"], ["from math import (", "    sin,", "    cos,", ")"],
                    ["from math import (  # names", "        sin,  # one (1)", "", "        cos", "    )"],
                    ["from Reduino.Core import (pin_mode,", "    digital_write)"]]
    imp_cases = []
    for _ in range(240 if thorough else 60):
        if not accepted:
            break
        pi = rng.choice(accepted)
        lines = list(base[pi][0])
        spots = [k for k, l in enumerate(lines) if l.strip() and not l.lstrip().startswith("#")
                 and not re.match(r"\s*(elif\b|else\s*:|except\b)", l)]
        if not spots:
            continue
        k = rng.choice(spots)
        ind = lines[k][: len(lines[k]) - len(lines[k].lstrip())]
        form = rng.choice(IMPORT_FORMS)
        imp_cases.append((pi, form, lines[:k] + [(ind + fl) if fl else fl for fl in form] + lines[k:]))
    imp_res = C.run_impl("c07_impl.py", {"cases": [["trace", l] for _, _, l in imp_cases]}, timeout=3000) if imp_cases else []
    for (pi, form, lines), r in zip(imp_cases, imp_res):
        evaluations += 1
        dist["formerly_excluded_now_generated"]["import form:" + form[0][:28]] = dist["formerly_excluded_now_generated"].get("import form:" + form[0][:28], 0) + 1
        nontrivial.add(("import-form", "\n".join(lines)))
        b = base[pi][1]
        if r.get("exc") or r.get("cpp") != b.get("cpp"):
            ctx.fail("an import statement inserted into an accepted script changes the firmware (or the script is rejected): imports have no meaning on the device and must not swallow or disturb a neighbouring statement",
                     {"script": lines, "import": form}, {"exc": None, "firmware": _diff_hint(b.get("cpp"), r.get("cpp"), True)},
                     {"exc": r.get("exc"), "firmware": _diff_hint(b.get("cpp"), r.get("cpp"), False)}, key="import-form")

    # ---- oracle B4 (fourth round): AFTER THE MAIN LOOP nothing is accepted silently.  Every kind of top-level construct
    # (a second `while True:`, def, if, for, while <cond>, try, simple statements, break / continue / return, imports, target(),
    # pass, print, docstring, global, comment and blank lines) is written at column 0 behind the main loop of an accepted
    # program, in any of its layouts, with junk lines in between: a statement must make the transpiler REJECT the script; a
    # line of the fixed set is rejected or leaves the firmware unchanged; comment / blank lines leave it unchanged.
    with_main = [k for k, (pi, u, lt, fj, lines) in enumerate(inguard)
                 if progs[pi] and progs[pi][-1][0] == "main" and not impl_in[k].get("exc") and impl_in[k].get("cpp")]
    al_cases = []
    al_order = [(name, body, cls) for name, body, cls in G.AFTER_LOOP]
    # first every construct behind a minimal script (the smallest replay), then behind generated programs in random layouts
    mini = list(G.PRELUDE) + ["while True:  # main loop", "    led.toggle()", "    sleep(500)"]
    # ... and behind a main loop whose body yields no node at all (only `pass` / a comment): it is the main loop all the same
    mini2 = list(G.PRELUDE) + ["led.on()", "while True:", "    # idle", "    pass"]
    mini_res, mini2_res = {}, {}          # filled from the batch below (entries 0 and 1)
    for name, body, cls in al_order:
        al_cases.append((name, cls, mini_res, mini + list(body)))
    for name, body, cls in al_order:
        al_cases.append((name, cls, mini2_res, mini2 + list(body)))
    for j in range((6 if thorough else 1) * len(al_order)):
        if not with_main:
            break
        name, body, cls = al_order[j % len(al_order)]
        k = rng.choice(with_main)
        lines = list(inguard[k][4])
        gap = [rng.choice(["", "# done", "   ", "    # inner-looking comment", "\t"]) for _ in range(rng.choice([0, 0, 1, 2]))]
        tail = [rng.choice(["", "# eof", "  "]) for _ in range(rng.choice([0, 0, 1]))]
        al_cases.append((name, cls, impl_in[k], lines + gap + list(body) + tail))
    al_res = C.run_impl("c07_impl.py", {"cases": [["trace", mini], ["trace", mini2]] + [["trace", l] for _, _, _, l in al_cases]}, timeout=3000)
    mini_res.update(al_res[0])
    mini2_res.update(al_res[1])
    al_res = al_res[2:]
    for base_lines, base_r in ((mini, mini_res), (mini2, mini2_res)):
        if base_r.get("exc") or not base_r.get("cpp"):
            ctx.fail("a minimal script (prelude + main loop) is rejected", {"script": base_lines}, "accepted", base_r.get("exc"), key="canonical-rejected")
    if have_model and al_cases:
        both = ctx.model([[24, l] for _, _, _, l in al_cases] + [[25, l, r["trace"]] for (_, _, _, l), r in zip(al_cases, al_res)])
        al_model, al_explain = both[: len(al_cases)], both[len(al_cases):]
    else:
        al_model = al_explain = [None] * len(al_cases)
    al_dist = {}
    for (name, cls, b, lines), r, mo, me in zip(al_cases, al_res, al_model, al_explain):
        evaluations += 1
        rejected = bool(r.get("exc")) and not str(r.get("exc")).startswith("emit:")
        same = (not r.get("exc")) and r.get("cpp") == b.get("cpp")
        al_dist[name] = al_dist.get(name, 0) + 1
        nontrivial.add(("after-loop", name, "\n".join(lines)))
        if cls == "statement" and not rejected:
            ctx.fail(f"a statement AFTER the main loop ({name}: {G.AFTER_LOOP[[n for n, _, _ in G.AFTER_LOOP].index(name)][1][0]!r} ...) is accepted without a diagnostic: Python never reaches it, "
                     "the firmware either loses it silently or runs it in a phase Python does not (e.g. merged into loop(), emitted as a function)",
                     {"script": lines, "after_the_main_loop": name}, "rejected with an error",
                     {"exc": r.get("exc"), "firmware differs from the script without it": r.get("cpp") != b.get("cpp"),
                      "loop()": (r.get("cpp") or "").split("void loop() {", 1)[-1].splitlines()[:12]}, key="after-main-loop-accepted:" + name)
        elif cls == "fixed" and not (rejected or same):
            ctx.fail(f"a line of the fixed set AFTER the main loop ({name}) changes the firmware", {"script": lines, "after_the_main_loop": name},
                     "rejected, or the firmware of the script without it", _diff_hint(b.get("cpp"), r.get("cpp"), False), key="after-main-loop-fixed:" + name)
        elif cls == "junk" and not same:
            ctx.fail(f"comment / blank lines AFTER the main loop ({name}) change the firmware or make the script rejected", {"script": lines},
                     {"exc": None, "firmware": "unchanged"}, {"exc": r.get("exc"), "firmware": _diff_hint(b.get("cpp"), r.get("cpp"), False)},
                     key="after-main-loop-junk:" + name)
        if mo is not None and mo[0] == 0:
            m_acc = bool(mo[1])
            if (cls != "junk") == m_acc:
                ctx.disagree("TopFlow.parse_flow: a non-junk line after the main loop is rejected, junk lines are passed over", lines, m_acc, cls)
            if not m_acc and not rejected:
                ctx.disagree("parse() vs TopFlow.parse_flow (the model rejects: a statement after the main loop)", lines, "rejected", r.get("exc"))
            elif (not m_acc or not r.get("exc")) and (me is None or me[0] != 0 or not me[1]):
                ctx.disagree("calls of _parse_simple_lines up to the end / the rejection vs TopFlow.flow_trace (+ variant segments)", lines,
                             [[e[0], e[1], texts(e[2])] for e in mo[2]], r["trace"])
    dist["after_main_loop_constructs"] = al_dist

    # ---- oracle C: the block structure of the FIRMWARE is Python's (every control header of the script once, every
    # numbered statement and every break/continue/return under the conditions and in the function/phase Python puts
    # it - for a member of an if chain: its own condition and the negation of every earlier one), canonical layout
    n_items = 0
    var_dist = {"programs": len(progs) - var_from, "functions_called_with_arguments": 0, "variant_sections_judged": 0}
    struct_kinds = {}
    struct_fail = []
    for pi in sorted(base):
        lines, r = base[pi]
        if r.get("exc") or r.get("cpp") is None:
            continue
        want = F.py_items(progs[pi], REPLINES)
        evaluations += 1
        n_items += len(want)
        for p_, it in want:
            kname = it[0] if it[0] in ("stmt", "line", "asg") else it[0] + ":" + str(it[1])
            struct_kinds[kname] = struct_kinds.get(kname, 0) + 1
            if len(p_) > 1:
                nontrivial.add(("struct", pi, repr(p_), repr(it)))
        if pi >= var_from:
            per_name = {}
            for nm, hd, _ in F.sections(r["cpp"]):
                per_name.setdefault(nm, set()).add(hd)
            for nm in G.variant_defs(progs[pi]):
                nv = len(per_name.get(nm, ()))
                var_dist["functions_called_with_arguments"] += 1
                var_dist["variants_emitted:" + str(nv)] = var_dist.get("variants_emitted:" + str(nv), 0) + 1
                var_dist["variant_sections_judged"] += nv
                if nv >= 2:
                    nontrivial.add(("variants", pi, nm, nv))
        verdict = _structure_verdict(progs[pi], r["cpp"])
        if verdict is not None:
            struct_fail.append((len(lines), pi, verdict[0]))
    reported = set()
    for _, pi, key in sorted(struct_fail):          # smallest failing script first, one report per class
        if key in reported:
            continue
        reported.add(key)
        tops = _shrink_structure(progs[pi], key)
        lt, fj = G.canonical(tops)
        lines = G.render(lt, fj, "    ")
        r = C.run_impl("c07_impl.py", {"cases": [["trace", lines]]})[0]
        key, what, exp, obs = _structure_verdict(tops, r["cpp"])
        ctx.fail(what, {"script": lines, "firmware": [l for _, h, b in F.sections(r["cpp"]) for l in [h] + b + ["}"]]}, exp, obs, key=key)
    dist["block_structure_items"] = struct_kinds
    rep_occ = rep_dup = asg_occ = asg_default_before_compound = 0
    for tops in progs[rep_from:]:
        seen_t = {}
        for tmpl, meta, where in G.leaves(tops):
            if meta[0] == "rep":
                rep_occ += 1
                seen_t[meta[1]] = seen_t.get(meta[1], 0) + 1
            elif meta[0] == "asg":
                asg_occ += 1
        rep_dup += sum(v - 1 for v in seen_t.values() if v > 1)
        asg_default_before_compound += _count_default_before_compound(tops)
    dist["third_round"] = {"programs_with_repeated_statements": n_rep, "systematic_repeated": len(G.systematic_rep_programs()),
                           "programs_with_promoted_assignments": n_asg, "systematic_assignment_programs": len(G.systematic_asg_programs()),
                           "repeated_statement_occurrences": rep_occ, "occurrences_beyond_the_first": rep_dup, "assignment_statements": asg_occ,
                           "default_valued_assignment_directly_before_compound": asg_default_before_compound,
                           "reference_lines_learnt": {k: len(v) for k, v in sorted(REPLINES.items())}}
    dist["hollow_bodies"] = _count_hollow(progs)
    dist["function_variants"] = var_dist

    _tick("1 transpile + oracles A-C")
    # ================================================================ 2. model vs code: call tree of _parse_simple_lines
    n_trace = 0
    n_variant_traces = 0
    if have_model:
        model = ctx.model([[5, l] for l in all_scripts])
        trace_retry = []
        for l, r, m in zip(all_scripts, impl, model):
            n_trace += 1
            mt = [[e[0], e[1], texts(e[2])] for e in m[1]]
            rt = r["trace"]
            ok = (mt[: len(rt)] == rt) if (r["exc"] and not r["exc"].startswith("emit:")) else (mt == rt)
            if not ok:
                trace_retry.append((l, mt, rt, r["exc"]))
        # a trace that is not the script's own: it must be the own trace with the calls of function re-specialisations
        # (TopFlow.variant_calls of a def of the script: the KEPT lines parsed again at depth 1, scope function) inserted
        if trace_retry:
            m25 = ctx.model([[25, l, [[c[0], c[1], c[2]] for c in rt]] for (l, mt, rt, exc) in trace_retry])
            for (l, mt, rt, exc), mo in zip(trace_retry, m25):
                if exc and not exc.startswith("emit:"):
                    # rejected half-way: a prefix of the own trace, possibly with re-specialisation segments before the rejection
                    if mo[0] != 0 or not mo[2]:
                        ctx.disagree("call tree of _parse_simple_lines (scope, depth, snippet) of a rejected script", l, mt, rt)
                elif mo[0] != 0 or not mo[1]:
                    ctx.disagree("call tree of _parse_simple_lines (scope, depth, snippet): not the script's own calls with the re-specialisation "
                                 "calls of its defs (the kept body lines, parsed again) inserted", l, mt, rt)
                else:
                    n_variant_traces += 1
                    nontrivial.add(("variant-trace", "\n".join(l)))
        evaluations += n_trace

        # ---- the round trip on in-guard layouts: Coq renderer = Python renderer, skeleton parser gives back the skeleton
        cases9 = [[9, u, [G.enc_top(t) for t in lt], fj] for (_, u, lt, fj, _) in inguard]
        out9 = ctx.model(cases9)
        out10 = ctx.model([[10, l] for (_, _, _, _, l) in inguard])
        out13 = ctx.model([[13, u, [G.enc_top(t) for t in lt], fj] for (_, u, lt, fj, _) in inguard])
        for (pi, u, lt, fj, lines), o9, o10, o13 in zip(inguard, out9, out10, out13):
            evaluations += 1
            if texts(o9[1]) != lines:
                ctx.disagree("render_top (Coq) vs the harness renderer", [u, lines], texts(o9[1]), lines)
            want = G.enc_skeleton(G.skeleton_of_layout(lt))
            if o9[2] != want:
                ctx.disagree("lerase_top (Coq) vs the harness skeleton", lines, o9[2], want)
            if o13[1] != 1:
                ctx.disagree("generated layout is outside the Coq guard top_layout_ok", [u, lines], o13[1], 1)
            if o10[1] != want:
                ctx.disagree("parse_top of an in-guard layout is not the skeleton (round trip)", lines, o10[1], want)

    _tick("2 call tree + round trip")
    # ================================================================ 2b. the emitter: model vs code, spec reader vs its Python twin
    n_emit = 0
    ir_dist = {}
    leaf_out = C.run_impl("c07_impl.py", {"cases": [["leaflines", sp] for sp in F.LEAF_SPECS]})
    leaf_lines = {repr(sp): (o["lines"] or []) for sp, o in zip(F.LEAF_SPECS, leaf_out)}
    ir_cases = []
    for i in range(1200 if thorough else 250):
        ir_cases.append((rng.choice(F.INDENTS), F.gen_ir(rng, rng.choice([1, 2, 3, 4]), rng.choice([0.0, 0.3, 0.6]))))
    ir_cases += [(ind, [t]) for ind in ("", "  ") for t in _ir_boundary()]
    for _, trees in ir_cases:
        F.ir_stats(trees, ir_dist)
    eb = C.run_impl("c07_impl.py", {"cases": [["emitblock", ind, trees] for ind, trees in ir_cases]}, timeout=3000)
    if have_model:
        m14 = ctx.model([[14, ind, [F.enc_ir(t, leaf_lines) for t in trees]] for ind, trees in ir_cases])
        for (ind, trees), r, m in zip(ir_cases, eb, m14):
            n_emit += 1
            ml = texts(m[1])
            if r["exc"] or r["lines"] != ml:
                ctx.disagree("_emit_block on an IR control skeleton (lines written for if/elif/else, while, for, try/catch)", [ind, trees], ml, r["lines"] if not r["exc"] else r["exc"])
            elif m[2] == 1 and F.dec_ctrees(m[3], C.wstr) != F.c_read(r["lines"]):
                ctx.disagree("SPEC c_read (Coq) vs its Python twin on emitted lines", r["lines"], F.dec_ctrees(m[3], C.wstr), F.c_read(r["lines"]))
            if any(t[0] != "leaf" for t in trees):
                nontrivial.add(("ir", ind, repr(trees)))
        # whole sketches from hand-built IR: sections of emit()
        plain = [sp for sp in F.LEAF_SPECS if sp[0] != "ButtonDecl"]       # emit() hoists device declarations into setup()
        sk_cases = [(F.gen_ir(rng, 2, 0.4, plain), F.gen_ir(rng, 2, 0.4, plain), [["fn0", F.gen_ir(rng, 2, 0.5, plain)], ["fn1", []]]) for _ in range(60 if thorough else 15)]
        sk_cases.append(([], [], [["fn0", []]]))
        sk = C.run_impl("c07_impl.py", {"cases": [["emitprog", a, b, fns] for a, b, fns in sk_cases]}, timeout=3000)
        for (a, b, fns), r in zip(sk_cases, sk):
            n_emit += 1
            if r["exc"]:
                ctx.disagree("emit() on a hand-built Program", [a, b, fns], "a sketch", r["exc"])
                continue
            secs = F.sections(r["cpp"])
            want_secs = [n for n, _ in fns] + ["setup", "loop"]
            if [n for n, _, _ in secs] != want_secs:
                ctx.disagree("sections of the sketch (one per function, then setup, loop)", [a, b, fns], want_secs, [n for n, _, _ in secs])
                continue
            m = ctx.model([[14, "  ", [F.enc_ir(t, leaf_lines) for t in trees]] for trees in [f[1] for f in fns] + [a, b]])
            for (name, hdr, body), mo in zip(secs, m):
                # setup()/loop() also hold what emit() hoists (none here: no device is declared) and a placeholder comment when empty
                got = [l for l in body if l.strip() and not l.strip().startswith("//")]
                if got != texts(mo[1]):
                    ctx.disagree(f"body of section {name} of the sketch vs emit_list at one indentation step", [a, b, fns], texts(mo[1]), got)
        # the spec reader on every real firmware of the canonical layouts
        fw_secs = []
        for pi in sorted(base):
            r = base[pi][1]
            if r.get("cpp"):
                fw_secs += [b for _, _, b in F.sections(r["cpp"])]
        m15 = ctx.model([[15, b] for b in fw_secs])
        for b, mo in zip(fw_secs, m15):
            n_emit += 1
            if F.dec_ctrees(mo[1], C.wstr) != F.c_read(b):
                ctx.disagree("SPEC c_read (Coq) vs its Python twin on a firmware section", b, F.dec_ctrees(mo[1], C.wstr), F.c_read(b))
        # script -> lexical skeleton -> IR -> compound statements (model) vs the compound statements of the real firmware
        c16, meta16 = [], []
        for pi in sorted(base):
            lines, r = base[pi]
            if r.get("exc") or not r.get("cpp"):
                continue
            secs = F.sections(r["cpp"])
            for name, nodes, where in _py_sections(progs[pi]):
                tabs = _tables(nodes, where)
                if tabs is None:
                    continue
                snippet = []
                for n in G.canonical([("chain", nodes)])[0][0][1]:
                    snippet += G.render_node(n, "    ", 0)
                # every section of that name: a function emitted in several variants is compared variant by variant
                for body in ([b for n_, _, b in secs if n_ == name] or [[]]):
                    c16.append([16, snippet] + tabs)
                    meta16.append((lines, name, body, F.marks_of(progs[pi])))
        m16 = ctx.model(c16)
        for (lines, name, body, marks), mo in zip(meta16, m16):
            n_emit += 1
            want = _drop_plain(F.dec_ctrees([mo[2]], C.wstr))
            got = _norm_fw(F.c_read(body) or [], marks)
            if mo[1] != 1:
                ctx.disagree("generated script is outside the Coq guard chain_ok", [name, lines], mo[1], 1)
            elif want != got:
                ctx.disagree(f"compound statements of {name}(): py_cs (model: parse_lines -> to_ir -> what Python's block tree prescribes) vs the real firmware",
                             lines, want, got)
        evaluations += n_emit
    dist["emitter_ir_nodes"] = ir_dist
    dist["function_variants"]["call_traces_with_re_specialisation_segments"] = n_variant_traces

    _tick("2b emitter")
    # ================================================================ 2c. statement layer: promotion rewrite, _emit_block and its sets
    n_stmt = 0
    st_dist = {"rewrite_trees": 0, "rewrite_decl_of_promoted": 0, "rewrite_default_decl_before_compound": 0, "promodecl_cases": 0,
               "emitstate_trees": 0, "emitstate_in_setup": 0, "emitstate_repeated_statement_lines": 0, "emitstate_declarations": 0}
    # (i) the real _rewrite_nodes: model vs code, and the theorem's relation (same statements, same places) on the real output
    rw_cases = []
    for tr in S.boundary_pn():
        rw_cases.append((["count", "level", "flag", "msg"], tr))
        rw_cases.append((["a", "count"], tr))
    for _ in range(700 if thorough else 160):
        rw_cases.append((rng.sample(S.NAMES, rng.randint(0, 4)), S.gen_pn(rng, 0, rng.choice([1, 2, 3]))))
    rw_impl = C.run_impl("c07_impl.py", {"cases": [["rewrite", p_, tr] for p_, tr in rw_cases]}, timeout=3000)
    rw_model = ctx.model([[21, 0, p_, [], False, S.flat_pn(tr)] for p_, tr in rw_cases]) if have_model else [None] * len(rw_cases)
    rw_reported = False
    for (p_, tr), ri, mo in zip(rw_cases, rw_impl, rw_model):
        n_stmt += 1
        st_dist["rewrite_trees"] += 1
        fin = S.flat_pn(tr)
        hit = [n for n in S.decl_names(fin) if n in p_]
        st_dist["rewrite_decl_of_promoted"] += len(hit)
        st_dist["rewrite_default_decl_before_compound"] += S.default_decl_before_compound(fin, p_)
        if hit:
            nontrivial.add(("rewrite", repr(p_), repr(tr)))
        if ri["exc"]:
            ctx.disagree("_rewrite_nodes raises on a hand-built IR tree", [p_, tr], "a node list", ri["exc"])
            continue
        fout = S.flat_pn(ri["nodes"])
        if S.as_assign(fout) != S.as_assign(fin) and not rw_reported:
            rw_reported = True
            ctx.fail("_rewrite_nodes (variable promotion) does not hand back the statements it was given: a statement of the block body is "
                     "missing, added or in another block after the rewrite", {"promoted": p_, "nodes": tr},
                     {"statements (declarations read as assignments)": S.as_assign(fin)}, {"statements": S.as_assign(fout)}, key="rewrite-loses-statement")
        if mo is not None:
            mout = S.dec_pn(mo[1], C.wstr)
            if mout != fout:
                ctx.disagree("_rewrite_nodes vs Promote.rewrite", [p_, tr], mout, fout)
    # (ii) the real _make_promotion_decls
    pd_cases = []
    for top in (False, True):
        for names in ([], ["count"], ["count", "level", "flag", "msg", "lst", "unknown"]):
            pd_cases.append((names, [["count", "int"], ["level", "float"], ["flag", "bool"], ["msg", "String"], ["lst", "__redu_list<int>"]], top))
    pd_impl = C.run_impl("c07_impl.py", {"cases": [["promodecls", n_, t_, top] for n_, t_, top in pd_cases]})
    pd_model = ctx.model([[21, 2, n_, t_, top, []] for n_, t_, top in pd_cases]) if have_model else [None] * len(pd_cases)
    for (n_, t_, top), ri, mo in zip(pd_cases, pd_impl, pd_model):
        n_stmt += 1
        st_dist["promodecl_cases"] += 1
        if ri["exc"]:
            ctx.disagree("_make_promotion_decls raises", [n_, t_, top], "declarations", ri["exc"])
        elif mo is not None and S.dec_pn(mo[1], C.wstr) != S.flat_pn(ri["nodes"]):
            ctx.disagree("_make_promotion_decls vs Promote.make_decls", [n_, t_, top], S.dec_pn(mo[1], C.wstr), S.flat_pn(ri["nodes"]))
    # (iii) the real _emit_block inside / outside setup(), with empty and pre-filled de-duplication sets, on trees in which the
    # same statement node occurs several times next to device declarations
    leaf2 = C.run_impl("c07_impl.py", {"cases": [["leaflines", sp] for sp in S.STMT_SPECS]})
    leaf_lines2 = {repr(sp): (o["lines"] or []) for sp, o in zip(S.STMT_SPECS, leaf2)}
    es_cases = []
    for _ in range(500 if thorough else 120):
        pool = rng.sample(S.STMT_SPECS, rng.randint(2, 5))
        # pre-filled sets: keys of declarations, and arbitrary tuples made of the statement texts of the pool (a statement must not care)
        texts_ = [str(a) for sp in pool for a in sp[1:2]]
        pm = rng.choice([[], [], [["led", "13"]], [[t] for t in texts_], [[sp[0]] + [str(a) for a in sp[1:2]] for sp in pool], [["pin_mode", t] for t in texts_],
                         [["bz", "8", "OUTPUT"], ["mot", "4", "in1"]]])
        pm = [list(k) for k in dict.fromkeys(tuple(k) for k in pm)]
        us = rng.choice([[], [], [["us", "2", "OUTPUT"]]])
        es_cases.append((rng.random() < 0.7, rng.choice(["", "  ", "    "]), pm, us, S.gen_sn(rng, 0, rng.choice([1, 2, 3]), pool)))
    es_impl = C.run_impl("c07_impl.py", {"cases": [["emitstate", b_, ind, pm, us, tr] for b_, ind, pm, us, tr in es_cases]}, timeout=3000)
    es_model = (ctx.model([[22, b_, ind, pm, us, S.enc_sn(tr, leaf_lines2)] for b_, ind, pm, us, tr in es_cases])
                if have_model else [None] * len(es_cases))
    es_reported = False
    for (b_, ind, pm, us, tr), ri, mo in zip(es_cases, es_impl, es_model):
        n_stmt += 1
        st_dist["emitstate_trees"] += 1
        st_dist["emitstate_in_setup"] += int(b_)
        if ri["exc"]:
            ctx.disagree("_emit_block raises on a hand-built IR tree", [b_, ind, pm, us, tr], "lines", ri["exc"])
            continue
        if mo is None:
            continue
        want_stmt = texts(mo[4])
        rep = len(want_stmt) - len(set(want_stmt))
        st_dist["emitstate_repeated_statement_lines"] += rep
        st_dist["emitstate_declarations"] += repr(tr).count("Decl'") - repr(tr).count("'VarDecl'")
        if rep:
            nontrivial.add(("emitstate", b_, repr(pm), repr(tr)))
        if not S.is_sub(want_stmt, ri["lines"]) and not es_reported:
            es_reported = True
            ctx.fail("_emit_block does not write the lines of every statement node (in order) - a statement is skipped depending on what was emitted before "
                     "or on the de-duplication sets", {"in_setup": b_, "indent": ind, "emitted_pin_modes": pm, "ultrasonic_pin_modes": us, "nodes": tr},
                     {"statement and stanza lines (each node emitted alone)": want_stmt}, {"lines written": ri["lines"]}, key="emit-skips-statement")
        if texts(mo[1]) != ri["lines"]:
            ctx.disagree("_emit_block with de-duplication sets vs EmitStmt.emit_sl (lines)", [b_, ind, pm, us, tr], texts(mo[1]), ri["lines"])
        elif sorted([texts(k) for k in mo[2]]) != ri["pm"] or sorted([texts(k) for k in mo[3]]) != ri["us"]:
            ctx.disagree("_emit_block with de-duplication sets vs EmitStmt.emit_sl (sets afterwards)", [b_, ind, pm, us, tr],
                         [sorted([texts(k) for k in mo[2]]), sorted([texts(k) for k in mo[3]])], [ri["pm"], ri["us"]])
    evaluations += n_stmt
    dist["statement_layer"] = st_dist

    _tick("2c statement layer")
    # ================================================================ 3. lexical functions called directly
    icases = indent_cases(rng, thorough)
    scases = strip_cases(rng, thorough)
    span_cases = []
    span_src = [l for (_, _, _, _, l) in lex_inguard[:: (2 if thorough else 5)]] + perturbed[:: (1 if thorough else 2)]
    for lines in span_src:
        idx = list(range(len(lines)))
        if len(idx) > 12:
            idx = sorted(rng.sample(idx, 12))
        for st in idx:
            span_cases.append((lines, st))
    hcases = header_cases(rng, all_scripts, thorough)
    payload = ([["indent", t] for t in icases] + [["strip", t] for t in scases]
               + [[op, l, st] for (l, st) in span_cases for op in ("block", "ifs", "trys")]
               + [["regex", t] for t in hcases])
    impl_lex = C.run_impl("c07_impl.py", {"cases": payload}, timeout=3000)
    if have_model:
        mcases = ([[0, t] for t in icases] + [[1, t] for t in scases]
                  + [[code, l, st] for (l, st) in span_cases for code in (2, 3, 4)]
                  + [[6, t] for t in hcases])
        model_lex = ctx.model(mcases)
        names = {0: "_indent_of", 1: "_strip_inline_comment", 2: "_collect_block", 3: "_collect_if_structure", 4: "_collect_try_structure", 6: "header regexes"}
        for mc, pc, mo, io in zip(mcases, payload, model_lex, impl_lex):
            evaluations += 1
            code = mc[0]
            if code == 0:
                mv = mo[1]
            elif code == 1:
                mv = C.wstr(mo[1])
                if mv != mc[1]:
                    nontrivial.add(("strip", mc[1]))
            elif code in (2, 3, 4):
                mv = [texts(mo[1]), mo[2]] if mo[0] == 0 else ["IndexError"]
                if mo[0] == 0 and mo[1]:
                    nontrivial.add(("span", code, "\n".join(mc[1]), mc[2]))
            else:
                mv = [bool(b) for b in mo[1:]]
                if any(mv):
                    nontrivial.add(("regex", mc[1]))
            if mv != io:
                ctx.disagree(names[code], pc[1:], mv, io)

    _tick("3 lexical")
    # ================================================================ 4. the SPEC (Lang/PyLayout.v) against CPython
    n_spec = 0
    if have_model:
        spec_lines = [t for t in scases if "\n" not in t]
        pyc = C.run_impl("c07_impl.py", {"cases": [["pycomment", t] for t in spec_lines]}, timeout=3000)
        m7 = ctx.model([[7, t] for t in spec_lines])
        for t, pr, mo in zip(spec_lines, pyc, m7):
            if pr is None:
                continue                         # CPython does not tokenize the line on its own (open literal, stray backslash)
            n_spec += 1
            mv = [C.wstr(mo[2]), bool(mo[3])]
            if mv != pr:
                ctx.disagree("SPEC py_strip_comment / py_has_comment vs CPython tokenize", t, mv, pr)
        # block structure: py_block vs CPython's ast on every script that compiles
        block_src = [l for (_, _, _, _, l) in lex_inguard[:: (1 if thorough else 3)]] + perturbed
        pyb = C.run_impl("c07_impl.py", {"cases": [["pyblocks", l] for l in block_src]}, timeout=3000)
        c8, meta8 = [], []
        for lines, pb in zip(block_src, pyb):
            if pb is None:
                continue
            for h, members in pb.items():
                c8.append([8, lines, int(h)])
                meta8.append((lines, int(h), members))
        m8 = ctx.model(c8) if c8 else []
        c7b = sorted({l for (lines, _, _) in meta8 for l in lines})
        log7 = {t: bool(o[6]) for t, o in zip(c7b, ctx.model([[7, t] for t in c7b]))} if c7b else {}
        in_block_guard = 0
        for (lines, h, members), mo in zip(meta8, m8):
            n_spec += 1
            blk = texts(mo[1])
            # `else:` lines are logical lines but not ast nodes: leave them out on both sides
            got = [h + 1 + i for i, l in enumerate(blk) if log7.get(l, False) and not re.match(r"\s*else\s*:", l)]
            if got != members:
                ctx.disagree("SPEC py_block (logical lines of the block) vs CPython ast", [lines, h], got, members)
            in_block_guard += int(mo[3])
        dist["spec_blocks_checked"] = len(meta8)
        dist["spec_blocks_inside_block_guard"] = in_block_guard
        evaluations += n_spec

    _tick("4 spec")
    # ================================================================ 5. line-accounting rows, re-observed with the hook
    rows = D.all_rows()
    row_scripts = []
    for kind, cname in rows:
        row_scripts.append(["trace", D.build(kind, cname, True).splitlines()])
        row_scripts.append(["trace", D.build(kind, cname, False).splitlines()])
    rimpl = C.run_impl("c07_impl.py", {"cases": row_scripts}, timeout=3000)
    observed = []
    for i, (kind, cname) in enumerate(rows):
        w, wo = rimpl[2 * i], rimpl[2 * i + 1]
        oc = D.classify({"ok": not w["exc"], "cpp": w["cpp"]}, {"ok": not wo["exc"], "cpp": wo["cpp"]})
        observed.append(oc)
        dist["dispatch_outcomes"][oc] = dist["dispatch_outcomes"].get(oc, 0) + 1
    if have_model:
        spec = ctx.model([[12, D.KIND_IDS.index(k), CTX_CODE[c], OUTCOME_CODE.get(o, 1)] for (k, c), o in zip(rows, observed)])
    else:
        spec = [None] * len(rows)
    for i, ((kind, cname), oc, sp) in enumerate(zip(rows, observed, spec)):
        evaluations += 1
        w = rimpl[2 * i]
        script = D.build(kind, cname, True).splitlines()
        if oc == "BaselineRejected":
            ctx.fail(f"the reference script of the probe {kind}/{cname} (supported statements only) is rejected", {"script": D.build(kind, cname, False).splitlines()},
                     "accepted", rimpl[2 * i + 1]["exc"], key="baseline-rejected")
            continue
        if sp is None or sp[0] != 0:
            continue
        allowed, gap, row_ok, pinned_ok = (bool(x) for x in sp[1:5])
        if oc == "Ignored" and not row_ok:
            ctx.fail(f"a {kind} statement in context {cname} disappears from the firmware without a diagnostic (not in the fixed set, not a listed finding)",
                     {"script": script, "probe": D.KINDS[D.KIND_IDS.index(kind)][1]}, "translated or rejected", "identical firmware with and without the statement",
                     key="silent-drop:" + kind)
        elif not pinned_ok and cname == "AfterLoop":
            ctx.fail(f"a {kind} statement at column 0 AFTER the main loop is {oc.lower()} instead of rejected: Python never reaches it, so nothing of it "
                     "may reach the firmware and it may not vanish without a diagnostic",
                     {"script": script, "probe": D.KINDS[D.KIND_IDS.index(kind)][1]}, "Rejected (comment / blank lines: Ignored)", oc, key="after-main-loop:" + kind)
        elif not pinned_ok:
            ctx.fail(f"a supported {kind} statement in context {cname} is now {oc.lower()}",
                     {"script": script, "probe": D.KINDS[D.KIND_IDS.index(kind)][1]}, "as pinned by DispatchSpec.pinned", oc, key="pinned:" + kind)
        # the hook must agree with the black-box observation on single-line probes
        probe = D.KINDS[D.KIND_IDS.index(kind)][1]
        if len(probe) == 1 and w.get("ignored") is not None and not w["exc"] and kind not in ("comment_line",):
            hooked = any(e[2] == probe[0].strip() for e in w["ignored"])
            silently_filtered = kind in ("from_import_reduino", "from_import_core", "target_call",   # filtered before the hook sites
                                         "import_plain", "import_as", "from_import", "from_import_star")  # (every import since _import_end)
            partial = kind in ("semicolon_join",)      # the line yields a node for its first statement; the tail is lost without passing a hook site
            if oc == "Ignored" and not hooked and not silently_filtered and not partial:
                ctx.disagree("hook _VERIF_IGNORED vs black-box observation (ignored line not reported by the hook)", script, "reported", w["ignored"])
            if oc == "Translated" and hooked and kind not in ("semicolon_join",):
                ctx.disagree("hook _VERIF_IGNORED vs black-box observation (translated line reported as ignored)", script, "not reported", w["ignored"])

    _tick("5 rows")
    # ================================================================ 5b. statement recognisers: RE_* patterns and the dispatch loop
    rx_names = C.run_impl("c07_impl.py", {"cases": [["rxnames"]]})[0]
    shapes = L.shape_cases(rng, thorough)
    shape_lines = [L.render_shape(c) for c in shapes]
    pool = list(L.EXTRA_LINES) + list(HEADER_SEEDS) + shape_lines[:: (1 if thorough else 3)]
    for krow in D.KINDS:
        pool += [pl.strip() for pl in krow[1] if pl.strip()]
    seen_l = set()
    for lines in all_scripts[:: (1 if thorough else 4)]:
        for l in lines:
            t = l.split("#")[0].strip() if "\"" not in l and "'" not in l else l.strip()
            if t and t not in seen_l:
                seen_l.add(t)
                pool.append(t)
    base_pool = list(pool)
    for _ in range(3000 if thorough else 560):
        t = rng.choice(base_pool)
        for _k in range(rng.choice([1, 1, 2, 3])):
            t = L.mutate(rng, t)
        pool.append(t.strip())
    pool = [t for t in dict.fromkeys(pool) if t and "\n" not in t and all(ord(ch) < 128 or ch.isspace() for ch in t)]
    # the loop looks at _strip_inline_comment(raw).strip() and has skipped blank / comment lines before the first recogniser
    stripped = C.run_impl("c07_impl.py", {"cases": [["strip", t] for t in pool]}, timeout=3000)
    pool = [t for t in dict.fromkeys(x.strip() for x in stripped) if t and not t.startswith("#")]
    dist["recogniser_lines"] = len(pool)
    # (i) every pattern on every line
    rx_impl = C.run_impl("c07_impl.py", {"cases": [["rxall", t] for t in pool]}, timeout=3000)
    n_rx = 0
    matched_by = {}
    if have_model:
        rx_model = ctx.model([[17, t] for t in pool])
        for t, ri, mo in zip(pool, rx_impl, rx_model):
            n_rx += 1
            mv = [bool(b) for b in mo[1]]
            if len(mv) != len(rx_names) or mv != ri:
                bad = [rx_names[i] for i in range(min(len(mv), len(ri))) if mv[i] != ri[i]]
                ctx.disagree("RE_* pattern (regenerated, run by the extracted engine) vs the compiled pattern: " + ",".join(bad[:4]), t, mv, ri)
            for i, b in enumerate(ri):
                if b:
                    matched_by[rx_names[i]] = matched_by.get(rx_names[i], 0) + 1
                    nontrivial.add(("rx", rx_names[i], t))
        evaluations += n_rx
    dist["recogniser_patterns_with_a_matching_line"] = len(matched_by)
    dist["recogniser_patterns"] = len(rx_names)
    # (ii) the dispatch loop: patterns tried in order, handler
    dcases = []
    for t in pool:
        a = L.spec_asg(t)
        if a is None:
            continue
        for sets in ([L.SETS_DEFAULT] if not thorough and rng.random() < 0.7 else [L.SETS_DEFAULT, L.SETS_EMPTY, L.SETS_ALL]):
            dcases.append((t, a, sets))
    d_impl = C.run_impl("c07_impl.py", {"cases": [["dispatch", t, sets] for t, a, sets in dcases]}, timeout=3000)
    n_disp = 0
    hdist = {}
    if have_model:
        d_model = ctx.model([[18, a, [sets[k] for k in L.SET_KEYS], t] for t, a, sets in dcases])
        # the END of the loop for the lines that reach it (Wire case 23): class and the patterns the tail itself tries
        tail_idx = [j for j, (ri, mo) in enumerate(zip(d_impl, d_model)) if mo[2][0] == 6 and ri.get("isexpr") is not None]
        t_model = dict(zip(tail_idx, ctx.model([[23, bool(d_impl[j]["isexpr"]), dcases[j][0]] for j in tail_idx])))
        for j, ((t, a, sets), ri, mo) in enumerate(zip(dcases, d_impl, d_model)):
            n_disp += 1
            mtrace = [[e[0], bool(e[1])] for e in mo[1]]
            if j in t_model:
                mtrace += [[e[0], bool(e[1])] for e in t_model[j][3]]
            h = mo[2]
            hname = {0: "import", 1: "eq", 2: "prefix", 3: "rx", 4: "search", 5: "assign", 6: "tail"}[h[0]]
            hkey = hname + (":" + rx_names[h[1]] if h[0] in (0, 3, 4) else "")
            hdist[hkey] = hdist.get(hkey, 0) + 1
            rtrace = ri["trace"]
            # the handler that took the line may itself use patterns (the if/try handlers probe for elif/else/except): compare the
            # chain up to the accepting step; a line that reaches the tail has tried every pattern of the chain
            ok = rtrace[: len(mtrace)] == mtrace and (len(rtrace) == len(mtrace) or h[0] in (3, 4, 0) or ri["exc"])
            if h[0] == 5 and ri["asg"] is not True:
                ok = False
            if h[0] != 5 and ri["asg"] is True:
                ok = False
            if h[0] == 6 and len(rtrace) != len(mtrace):
                ok = False
            if not ok:
                ctx.disagree("dispatch loop of _parse_simple_lines: patterns tried (id, matched) and the accepting step", [t, sets],
                             {"trace": [[rx_names[i], b] for i, b in mtrace], "handler": hkey, "asg": a},
                             {"trace": [[rx_names[i], b] for i, b in rtrace], "asg": ri["asg"], "exc": ri["exc"], "nodes": ri["nodes"]})
            nontrivial.add(("dispatch", hkey, t))
        evaluations += n_disp
        # (ii-b) the END of the loop (repaired: "unknown -> ignore" became ValueError): every line that reaches the tail is
        # an expression statement, or skipped as `pass` / a global declaration, or REJECTED - model = code, and as an oracle
        # on the code alone: a line that reached the tail never vanishes without a node, an exception or a hook record
        tdist = {}
        for j in tail_idx:
            t, ri, mo = dcases[j][0], d_impl[j], t_model[j]
            evaluations += 1
            cls = {0: "expression", 1: "skipped", 2: "rejected", 3: "dropped"}[mo[1]]
            reasons = sorted({e[3] for e in (ri.get("ignored") or [])})
            if ri["exc"]:
                real = "rejected"
            elif ri["nodes"]:
                real = "translated"
            elif reasons:
                real = "skipped:" + ",".join(reasons)
            else:
                real = "vanished"
            tdist[cls + " -> " + real] = tdist.get(cls + " -> " + real, 0) + 1
            if real == "vanished" or real.startswith("skipped:unknown") or "expr-translation-failed" in real:
                ctx.fail(f"the line {t!r} reached the end of the dispatch loop and was dropped: no node, no exception, not one of the lines without a meaning on the device",
                         {"line": t}, "translated, rejected, or skipped as pass / global / print / constant / host-side serial call",
                         {"nodes": ri["nodes"], "exc": ri["exc"], "hook": ri.get("ignored")}, key="tail-dropped")
                continue
            ok = ((cls == "rejected" and real == "rejected") or (cls == "skipped" and real == "skipped:no-device-meaning")
                  or (cls == "expression" and (real in ("rejected", "translated") or real in ("skipped:print", "skipped:constant-expression", "skipped:host-only"))))
            if not ok:
                ctx.disagree("end of the dispatch loop (tail_class_of on the regenerated tail facts) vs the real _parse_simple_lines", t, cls, real)
            nontrivial.add(("tail", cls, t))
        dist["tail_lines"] = dict(sorted(tdist.items()))
    dist["dispatch_handlers_reached"] = dict(sorted(hdist.items()))
    # (iii) the spacing theorems: the Coq renderers are the Python twins; inside the exact guard Python's tokenizer sees the same
    # statement AND the real parser builds the same nodes as for the canonical spacing (oracle); outside: model = code only
    canon = {}
    sp_cases = []
    for c in shapes:
        k, name, meth, args, g = c
        sp_cases.append(c)
        key = (k, name, meth, args)
        if key not in canon:
            canon[key] = L.render_shape((k, name, meth, args, ["", "", "", "", ""]))
    sp_lines = [L.render_shape(c) for c in sp_cases]
    uniq = sorted(set(sp_lines) | set(canon.values()))
    tok = dict(zip(uniq, C.run_impl("c07_impl.py", {"cases": [["pytokens", t] for t in uniq]}, timeout=3000)))
    dsp = dict(zip(uniq, C.run_impl("c07_impl.py", {"cases": [["dispatch", t, L.SETS_DEFAULT] for t in uniq]}, timeout=3000)))
    n_sp = n_sp_guard = 0
    if have_model:
        m20 = ctx.model([[20, k, name, meth, args, g] for (k, name, meth, args, g) in sp_cases])
    else:
        m20 = [None] * len(sp_cases)
    for c, line, mo in zip(sp_cases, sp_lines, m20):
        k, name, meth, args, g = c
        n_sp += 1
        cl = canon[(k, name, meth, args)]
        if tok[line] is None or tok[line] != tok[cl]:
            ctx.disagree("SPEC line_call / line_decl / line_sleep: a gap of blanks / tabs between tokens changes CPython's token stream", [c, line], tok[cl], tok[line])
            continue
        inside = L.in_guard(k, g) and name.isidentifier() if k != 3 else True
        if mo is not None:
            if C.wstr(mo[1]) != line:
                ctx.disagree("line_call0 / line_call / line_decl / line_sleep (Coq) vs the harness renderer", c, C.wstr(mo[1]), line)
            if bool(mo[2]) != bool(inside):
                ctx.disagree("spacing guard (Coq) vs the harness", c, bool(mo[2]), inside)
            if inside and not mo[3]:
                ctx.disagree("a line inside the spacing guard is rejected by its shape (contradicts C07_call_spacing_partial & co)", c, True, False)
        if inside:
            n_sp_guard += 1
            a, b = dsp[cl], dsp[line]
            if (a["exc"], a["repr"], a["trace"][-1:] if a["trace"] else None) != (b["exc"], b["repr"], b["trace"][-1:] if b["trace"] else None):
                ctx.fail("optional spacing between the tokens of a statement (inside the proved spacing guard) changes what the parser builds from the line",
                         {"canonical": cl, "respaced": line, "gaps": g}, {"exc": a["exc"], "nodes": a["repr"]}, {"exc": b["exc"], "nodes": b["repr"]},
                         key="spacing:" + str(k))
            nontrivial.add(("spacing", line))
    evaluations += n_sp
    dist["spacing_cases"] = n_sp
    dist["spacing_cases_inside_guard"] = n_sp_guard

    _tick("5b recognisers")
    # ================================================================ 6. known findings: replay every listed witness (one batch)
    replayed = 0
    fcases, fmeta = [], []
    for f in ctx.findings:
        if f.get("kind") == "fixed":
            continue                      # replayed in step 0 (a failing one is a violation, never a known finding)
        wit = f.get("witness", {})
        at = len(fcases)
        if wit.get("mode") == "relayout":
            fcases += [["trace", wit["base"]], ["trace", wit["variant"]]]
        elif wit.get("mode") == "silent-drop":
            for k in wit["kinds"]:
                for cname in wit["contexts"]:
                    fcases += [["trace", D.build(k, cname, True).splitlines()], ["trace", D.build(k, cname, False).splitlines()]]
        elif wit.get("mode") == "strip":
            fcases += [["strip", wit["line"]], ["pycomment", wit["line"]]]
        fmeta.append((f, wit.get("mode"), at, len(fcases)))
    fres = C.run_impl("c07_impl.py", {"cases": fcases}, timeout=3000) if fcases else []
    for f, mode, a0, a1 in fmeta:
        r = fres[a0:a1]
        still = False
        if mode == "relayout":
            still = (r[0]["cpp"] != r[1]["cpp"]) or (r[0]["exc"] != r[1]["exc"])
        elif mode == "silent-drop":
            for j_ in range(0, len(r), 2):
                if not r[j_]["exc"] and not r[j_ + 1]["exc"] and r[j_]["cpp"] == r[j_ + 1]["cpp"]:
                    still = True
        elif mode == "strip":
            still = r[1] is not None and r[0].rstrip() != r[1][0].rstrip()
        replayed += 1
        if still:
            ctx.known(f"{f['id']}: {f['what']}")

    _tick("6 findings")
    # ================================================================ evidence
    for (pi, u, lt, fj, lines) in inguard[1:4]:
        samples.append({"unit": u, "script": lines})
    ctx.coverage.update({
        "evaluations": evaluations,
        "distinct_nontrivial": len(nontrivial),
        "rule": ("programs: seeded random block trees (depth<=4) of observable statements (distinct numbers in mon.write/x=/sleep, device calls, `continue` inside for/while loops and at the level of the main loop - directly or inside nested if/try blocks -, "
                 "lines of the fixed set: pass/print/import/global/docstrings) with if/elif/else, try/except, while, for-range, def, main loop; "
                 f"each in canonical layout + {n_lay} random layouts inside the guard (junk lines - blank, white-space-only, comment-only at any column from 0 to deeper than the statement - before any statement including elif/else/except, trailing blanks/comments after any statement including column-0 headers, def, the main loop header, imports and elif/else/except, "
                 "indent unit 1-8 spaces / tab / two tabs, optional spacing at marked places) + out-of-guard perturbations (model-vs-code only). "
                 "lexical: exhaustive strings over {a,blank,#,',\",\\} up to length 5 (6 thorough) and over {blank,tab,x,#,FF,NBSP,U+3000} up to length 3 (4), "
                 "realistic lines, every start index of generated scripts for the three span functions, header texts with near-misses. "
                 "accounting: one probe per (70 kinds x 4 contexts) with and without the probe line; formerly dropped statement kinds (127 (kind, context) pairs, now rejected) inserted at a random statement position of generated programs - every such script must be rejected. "
                 f"firmware block structure: the programs above plus {n_hollow} random programs in which every body (if / elif / else / while / for / try / except / def / main loop) is, with probability 0.35, made only of lines of the fixed set (pass, print, docstring, import), with chains of up to 5 elif and with break / bare return, plus an exhaustive family (every if chain of 1-3 branches and optional else, every try with 1-2 handlers, every loop, with bodies over {{device statement, pass, print}}, at column 0 / in the main loop / in a function / in a for body); "
                 "oracle C compares, per function of the sketch, the multiset of (path, item) - items: control headers, numbered statements, break / continue / return; path: function, enclosing loops / try / catch, and for a member of an if chain its own condition and the negated earlier ones - computed from the skeleton and from the firmware read with the C++ reader; the smallest failing script per class is shrunk by removing statements while the real transpiler still fails. "
                 "emitter: random IR control skeletons (depth <= 4, bodies empty with probability 0 / 0.3 / 0.6, 11 leaf node kinds incl. one that emits nothing and one that opens its own block, 5 indentations) plus all 81+8 placements of empty / line-less / non-empty bodies in a 3-branch chain, through the real _emit_block and the extracted emit_list (lines equal), whole hand-built Programs through the real emit() (sections), the extracted C++ reader against its Python twin on every emitted block and every real firmware section, and py_cs of the model (parse_lines -> to_ir) against the compound statements of the real firmware of every generated program. "
                 "recognisers: every RE_* pattern (extracted engine on the regenerated pattern vs the compiled pattern) on the pool of lines = hand-picked near-misses, header seeds, the probe lines of the 69 statement kinds, the statement lines of the generated programs, all spacing variants of the four statement shapes, and 700 (3000) random 1-3 character edits of those over {blank, tab, ( ) . : = # \" , _ x 1}, each after _strip_inline_comment; the dispatch loop on the same lines under three device-name environments (the real _parse_simple_lines runs with recording proxies in place of the module's RE_* objects: patterns tried in order with outcome, accepting step); spacing: every gap position over {none, blank, two blanks, tab} for led.on() / mon.write(..) / led = Led(..) / sleep(..) plus random statements over 7+26 methods, 10 classes, 10 receivers - CPython tokenize must give the same tokens, and inside the exact guard of the spacing theorems the real parser must build the same nodes as for the canonical spacing (oracle). "
                 "third round: (a) programs whose statements are drawn WITH repetition from a pool of 3-6 texts out of 17 (pin_mode / digital_write / analog_write on two pins with changing modes, led.on/off/toggle, mon.write, sleep, x = / x +=) at every depth of setup(), a function and the main loop, plus an exhaustive family (every triple over {pin_mode(7, OUTPUT), pin_mode(7, INPUT), digital_write(7, HIGH)} with a repetition, wrapped in each block kind, in setup / main loop / function; every pool statement twice in a row and again after another one; every compound statement kind twice in a row with the same header and body); the C++ lines of a statement are learnt from a reference run of the statement alone and every occurrence must show them under the path Python gives it (multiset). (b) programs with assignments to fresh names at every depth (first assignment inside for / while / try / if bodies, hence promoted), default (0, 0.0, False, \"\") and other literals, directly in front of compound statements (1-3 initialisations in a row) or elsewhere, re-assigned and bumped later, own names per section, plus the exhaustive family 4 types x 4 outer block kinds x 4 inner compound kinds x {default, other}; every assignment must be in the firmware under its path as `name = E;` or `T name = E;` (file-scope definitions count for the top level of setup), left-over firmware assignments must be default-valued (placeholders). "
                 "statement-layer IR: promotion rewrite on 160 (700) random trees + the boundary family (default / other value x 4 types x followed by if / while / for / try / simple / nothing x preceded by nothing / declaration / assignment) with 0-4 promoted names; _make_promotion_decls on 6 name lists x {top, nested}; _emit_block inside / outside setup() with empty and pre-filled sets on 120 (500) trees over 15 statement specs (drawn with repetition) and 12 device declarations. "
                 f"fourth round: (a) {n_var} random + {len(G.systematic_variant_programs())} systematic programs whose helper functions (one or two parameters, sometimes an annotated one; bodies with if / elif / else, for, while, try / except nested up to 4 deep, conditions on the parameter, value returns inside branches and loops, `continue` / `break`, a call of another helper in return position) are called in assignments with 2-3 argument-type signatures (int / float / bool literals; from column 0, from inside an if block, from the main loop) so that the firmware holds 2-3 variants of one def - canonical layout + 2 random layouts each; EVERY emitted variant is compared with the def by oracle C (path, item multisets; view j keeps the j-th variant of every function) and by the model (py_cs of the def's lines vs the compound statements of that variant); the recorded _parse_simple_lines calls must be the script's own plus re-specialisation segments of its defs (TopFlow.explain). (b) after the main loop: 33 constructs (second `while True:` x3, def x3, if, if/else, for, while <cond>, try, 7 simple statements, break / continue / return, 3 imports, target(), pass, print, docstring, global, 3 comment shapes, blank lines) at column 0 behind a minimal script, behind a script whose main loop yields no node (`pass`), and behind generated programs in random layouts with junk lines in between: statements must be rejected, lines of the fixed set rejected or without effect on the firmware, comment / blank lines without effect; the same as a dispatch obligation: context AfterLoop of the regenerated table (73 kinds). "
                 "non-trivial = a layout differing from the canonical one / a line the stripper changes / a non-empty span / a header text some regex matches."),
        "samples": samples,
        "distribution": {**dist, "programs": n_prog, "inguard_layouts": len(inguard), "perturbed_scripts": len(perturbed), "relayout_pairs": n_pairs,
                         "marked_statements_checked": n_marks, "trace_cases": n_trace, "indent_cases": len(icases), "strip_cases": len(scases),
                         "span_cases": 3 * len(span_cases), "regex_cases": len(hcases), "spec_cases": n_spec, "dispatch_rows": len(rows),
                         "known_findings_replayed": replayed},
        "guard": ("layouts: indentation of statements by one unit string (spaces or tabs, not mixed; comment-only lines at any column, any white space); "
                  "one physical line per statement (no continuation, no ';', no multi-line literal); no '#' inside triple-quoted literals; optional spacing only "
                  "around operators, inside call parentheses, before the header colon, after keywords (not between a callee and '(', not around '.', "
                  "not if(/while(/elif( without a blank, not `range (`). accounting: statement kinds outside DispatchSpec.known_gaps. "
                  "firmware block structure: simple statements whose C++ lines are closed pieces (every block they open they close: leaf_ok), elif/else only after if/elif and except only after try/except (chain_ok - Python's grammar); "
                  "an `else` whose body yields no IR node is not written by the emitter - it cannot change what runs, the oracle accepts it present or absent; numbered statements are mon.write / x = / sleep lines. "
                  "repeated statements: simple statements whose lines do not depend on where they stand (no device re-declaration in between); assignments: literal right-hand sides are compared after removing blanks and parentheses, `+=` / `v = v + k` by target and path only; a firmware assignment that no script statement accounts for is tolerated iff its right-hand side is the default of a C++ type (the placeholder declaration of a promoted name, or the assignment it becomes when the name is promoted a second time - an ADDED statement, which C07 does not forbid; whether the reset changes what the program computes is C01's question)."),
        "unmodelled": ["line continuation (backslash, open brackets) and multi-line string literals",
                       "the handlers behind the recognisers (argument extraction, IR construction): the dispatch loop is modelled up to the accepting step; which (kind, context) ends translated / rejected / ignored is still the observed table Gen/Dispatch.v",
                       "_handle_assignment_ast's decision to take a line (CPython's ast): enters the dispatch model as a boolean computed by the harness from CPython's ast and cross-checked against the real function on every case",
                       "target(...) inside a NESTED block header (`if target(\"x\"):`) - parse_m does not model the skip; at column 0 target(...) directives are modelled (Lex.top_target)",
                       "universally quantified dispatch theorems (which handler a whole family of lines reaches): proved are the recognisers' acceptance for every spacing inside the guard and the pinned order; the negative part (no earlier recogniser takes the line) is computed on concrete lines only",
                       "the C++ lines a simple (non-control) node is emitted as: leaves of the IR models carry them as given (taken from the real emitter in the correspondence); hoisting of declarations / pinMode into setup() by emit()",
                       "WHICH names a handler promotes (_promote_branch_decls, the var_declared sets of the child contexts, _collect_order) and their types: Promote.v takes the list of names and the type table as given; the statement handlers that build VarDecl / VarAssign nodes (C01 / C02)",
                       "device-table state of _emit_block other than the two de-duplication sets (a re-declared device changes the pin later statements use; LCD / animation counters): statement leaves of EmitStmt.v carry their lines as given",
                       "C++ compound statements are read line-wise (a line ending in `{` opens, a line `}` closes): braces inside string literals or several statements per line are outside the reader - the emitter writes one statement per line",
                       "non-ASCII identifier / digit characters in the patterns (\\w, \\d, \\b are modelled for ASCII; generated lines are ASCII plus Unicode blanks)",
                       "optional spacing around operators and commas inside argument / condition text (the recognisers see it as `.*`): re-layout oracle on the real transpiler only",
                       "WHEN a function variant is made and for which signature (type inference at the call sites: C02's model): TopFlow.explain accepts a re-specialisation segment of any def of the script at any point of the call trace; HOW MANY variants the firmware holds is not constrained by this check (each one that is emitted is judged)",
                       "_import_end (parenthesised imports over several lines) in the flag model: TopFlow.top_flow skips one import line like Lex.top_parse; the oracle B3 covers the multi-line forms on the real parser",
                       "emit(): hoisting of declarations into setup(), order of function variants; ScriptFw.script_sections states one section per def in script order, then setup(), then loop()"],
        "trusted_base": C.COMMON_TRUSTED + ["harness/gen/dispatch.py + harness/c07_dispatch.py (probe scripts; outcome = exception / identical text / different text)",
                                            "CPython 3.12 tokenize + ast as the reference for Lang/PyLayout.v",
                                            "REDUINO_VERIF hook in parser.py (add-only, commit 3ef1d62)",
                                            "harness/c07_gen.py renderer (cross-checked against the extracted render_top on every case)"],
    })
    ctx.assumptions += ["one physical line = one logical line (no continuation lines, no multi-line literals) in every theorem about blocks",
                        "Python's layout rules as modelled in Lang/PyLayout.v (validated against CPython tokenize/ast on every run)"]


REPLINES = {}      # canonical statement text -> the C++ lines the real transpiler writes for the statement alone


def _learn_replines(progs):
    """reference run: every distinct repeated statement alone after the prelude; its lines = setup() minus the prelude's"""
    texts = sorted({t for tops in progs for t in G.rep_texts(tops)} - set(REPLINES))
    if not texts:
        return
    rs = C.run_impl("c07_impl.py", {"cases": [["trace", G.REP_PRELUDE]] + [["trace", G.REP_PRELUDE + [t]] for t in texts]}, timeout=3000)

    def setup_of(r):
        return [l.strip() for n, _, b in F.sections(r["cpp"] or "") if n == "setup" for l in b]
    base = setup_of(rs[0])
    for t, r in zip(texts, rs[1:]):
        body = setup_of(r)
        lines = body[len(base):] if body[: len(base)] == base else None
        if r.get("exc") or not lines:
            REPLINES[t] = []            # the statement alone leaves no line: nothing to demand of its repetitions
        else:
            REPLINES[t] = lines


def _structure_verdict(tops, cpp):
    """None, or (class key, what, expected, observed) when the firmware does not have the script's block structure"""
    want = F.py_items(tops, REPLINES)
    spec = {"vocab": {l for t in G.rep_texts(tops) for l in REPLINES.get(t, [])}, "vars": G.asg_names(tops)}
    # a function the script calls with several argument-type signatures is emitted once per signature: EVERY variant
    # must have the block structure of the def (view j keeps the j-th variant of every function)
    views = F.variant_views(cpp)
    for vi, view in enumerate(views):
        got, problem = F.fw_items(cpp, F.marks_of(tops), spec, secs=view)
        if got is None:
            return ("firmware-unbalanced", "the emitted firmware is not a sequence of closed compound statements",
                    "balanced braces in every function", problem)
        missing, extra = F.items_diff(want, got)
        if missing or extra:
            break
    else:
        return None
    if len(views) > 1:
        hdrs = [h for _, h, _ in view if not h.startswith(("void setup", "void loop"))]
        kind = (missing or extra)[0][1]
        return ("variant-block-structure:" + str(kind[0]),
                "a VARIANT of a function (the body parsed again for another argument-type signature) does not have the block structure of "
                "the def: a control-flow header is missing / added, or a statement runs under other conditions than Python gives it",
                {"variant(s) looked at": hdrs, "only in the script (path, item)": F.show(missing)},
                {"only in the firmware (path, item)": F.show(extra)})
    kind = (missing or extra)[0][1]
    if kind[0] in ("line", "asg"):
        n_m = len([x for x in missing if x[1][0] == kind[0]])
        what = ("a statement that occurs more than once in the script (same text, e.g. the same pin configured again after another mode) is "
                "written fewer / more times than the script makes it, or under another block - without any diagnostic" if kind[0] == "line" else
                "an assignment of the script is missing from the block Python puts it in (or sits in another block / function / phase): "
                "only promotion placeholders `T name = <default>;` may be added in front of a block")
        return ("statement-" + ("lost" if n_m else "added") + ":" + ("repeated" if kind[0] == "line" else "assignment"), what,
                {"only in the script (path, item)": F.show(missing)}, {"only in the firmware (path, item)": F.show(extra)})
    return ("block-structure:" + str(kind[0]) + (":" + str(kind[1]) if kind[0] != "stmt" else ""),
            "the firmware does not have the block structure of the script: a control-flow header is missing/added, or a statement "
            "runs under other conditions (or in another function / phase) than Python gives it",
            {"only in the script (path, item)": F.show(missing)}, {"only in the firmware (path, item)": F.show(extra)})


def _msdiff(a, b):
    """multiset difference a - b"""
    pool = {}
    for x in b:
        pool[repr(x)] = pool.get(repr(x), 0) + 1
    out = []
    for x in a:
        if pool.get(repr(x), 0) > 0:
            pool[repr(x)] -= 1
        else:
            out.append(x)
    return out


def _shrink_structure(tops, key, budget=1500):
    """greedy: drop one top-level item / one node at a time (a body that would become empty keeps a `pass`) while the
    real transpiler still shows a failure of the same class"""
    def is_prelude(t):
        return t[0] == "imp" or (t[0] == "chain" and t[1] and t[1][0][0] == "leaf" and t[1][0][1] in G.PRELUDE)

    def variants(tops):
        pre = [t for t in tops if is_prelude(t)]
        rest = [t for t in tops if not is_prelude(t)]
        if len(rest) > 1:
            for t in rest:                              # big steps first: one top-level item alone
                yield pre + [t]
            for i in range(len(rest)):
                yield pre + rest[:i] + rest[i + 1:]
        for i, t in enumerate(tops):
            if t[0] == "chain" and not is_prelude(t):
                for ns in node_variants(t[1], top=True):
                    if ns:
                        yield tops[:i] + [("chain", ns)] + tops[i + 1:]
            elif t[0] in ("main", "def"):
                for ns in node_variants(t[2]):
                    yield tops[:i] + [(t[0], t[1], ns)] + tops[i + 1:]

    def node_variants(ns, top=False):
        heads = [i for i, n in enumerate(ns) if not (n[0] == "block" and n[1] in G.CONT)]
        if len(heads) > 1:
            for a_, i in enumerate(heads):             # one statement (with its elif/else/except) alone
                j = heads[a_ + 1] if a_ + 1 < len(heads) else len(ns)
                yield ns[i:j]
        for i, n in enumerate(ns):
            if n[0] == "block" and n[1] in ("if", "try") and i + 1 < len(ns) and ns[i + 1][0] == "block" and ns[i + 1][1] in G.CONT:
                pass                                   # the head of a chain cannot go while its continuation stays
            else:
                rest = ns[:i] + ns[i + 1:]
                yield rest if (rest or top) else [("leaf", "pass", ("allowed", "pass"))]
            if n[0] == "block":
                for b in node_variants(n[3]):
                    yield ns[:i] + [(n[0], n[1], n[2], b)] + ns[i + 1:]

    while budget > 0:
        lt0, fj0 = G.canonical(tops)
        size0 = sum(len(l) + 1 for l in G.render(lt0, fj0, "    "))
        cands = []
        for c in variants(tops):                      # strictly smaller scripts only: the search terminates
            if not G.well_formed(c):
                continue
            lt, fj = G.canonical(c)
            if sum(len(l) + 1 for l in G.render(lt, fj, "    ")) < size0:
                cands.append(c)
            if len(cands) >= 500:
                break
        found = None
        for at in range(0, len(cands), 25):          # big steps come first
            chunk = cands[at: at + 25]
            budget -= len(chunk)
            scripts = []
            for c in chunk:
                lt, fj = G.canonical(c)
                scripts.append(G.render(lt, fj, "    "))
            rs = C.run_impl("c07_impl.py", {"cases": [["trace", l] for l in scripts]}, timeout=3000)
            for c, r in zip(chunk, rs):
                if r.get("exc") or not r.get("cpp"):
                    continue
                v = _structure_verdict(c, r["cpp"])
                if v is not None and v[0] == key:
                    found = c
                    break
            if found is not None or budget <= 0:
                break
        if found is None:
            break
        tops = found
    return tops


def _count_default_before_compound(tops):
    k = 0

    def walk(ns):
        nonlocal k
        for i, n in enumerate(ns):
            if n[0] == "leaf":
                meta = n[2] if len(n) > 2 else ("plain",)
                if meta[0] == "asg" and meta[2] in F.C_DEFAULTS and i + 1 < len(ns) and (ns[i + 1][0] == "block" or (
                        ns[i + 1][0] == "leaf" and len(ns[i + 1]) > 2 and ns[i + 1][2][0] == "asg" and ns[i + 1][2][2] in F.C_DEFAULTS)):
                    k += 1
            else:
                walk(n[3])
    for t in tops:
        walk(t[1] if t[0] == "chain" else t[2] if t[0] in ("main", "def") else [])
    return k


def _count_hollow(progs):
    """per block kind: bodies that consist only of lines of the fixed set / all bodies"""
    c = {}

    def body(kind, b):
        c[kind] = c.get(kind, 0) + 1
        if all(n[0] == "leaf" and n[2][0] == "allowed" for n in b):
            c[kind + ":hollow"] = c.get(kind + ":hollow", 0) + 1
        for n in b:
            if n[0] == "block":
                body(n[1], n[3])
    for tops in progs:
        for t in tops:
            if t[0] == "chain":
                for n in t[1]:
                    if n[0] == "block":
                        body(n[1], n[3])
            elif t[0] in ("main", "def"):
                body(t[0], t[2])
    # hollow NON-FIRST branch followed by another branch with device work: the shape of an `else if` that must stay
    k = 0

    def chains(ns):
        nonlocal k
        for i, n in enumerate(ns):
            if n[0] == "block":
                if n[1] == "elif" and all(m[0] == "leaf" and m[2][0] == "allowed" for m in n[3]) and i + 1 < len(ns) \
                        and ns[i + 1][0] == "block" and ns[i + 1][1] in ("elif", "else"):
                    k += 1
                chains(n[3])
    for tops in progs:
        for t in tops:
            chains(t[1] if t[0] == "chain" else t[2] if t[0] in ("main", "def") else [])
    c["hollow_elif_followed_by_branch"] = k
    return c


def _ir_boundary():
    """hand-picked IR shapes: every position of an empty body"""
    w = ["leaf", ["SerialWrite", "mon", "7"]]
    z = ["leaf", ["ButtonDecl", "btn", 2]]        # a node that emits no line
    out = []
    for bodies in itertools.product([[], [w], [z]], repeat=3):
        for els in ([], [w], [z]):
            out.append(["if", [["(a)", bodies[0]], ["(b)", bodies[1]], ["(c)", bodies[2]]], els])
    out += [["if", [["(a)", []]], []], ["if", [], [w]], ["if", [], []], ["while", "(a)", []], ["for", "i", 0, []],
            ["try", [], []], ["try", [], [[None, None, []]]], ["try", [w], [["E", "e", []], [None, "t", [w]], ["", "", []]]]]
    return out


def _py_sections(tops):
    """(firmware function name, nodes, where) for the parts of a skeleton that end up in one function"""
    setup = []
    out = []
    for t in tops:
        if t[0] == "chain":
            setup += t[1]
        elif t[0] == "main":
            out.append(("loop", t[2], "main"))
        elif t[0] == "def":
            out.append((F.RE_PY_DEF.match(G.canon_spacing(t[1])).group(1), t[2], "def"))
    return [("setup", setup, "top")] + out


def _tables(nodes, where):
    """what the statement layer does, as far as the block structure can see it: the lines of the fixed set become no
    node, a numbered statement a line @k, break/continue/return their C++ statement, anything else a line #"""
    tr, cx, fv, fn, ex = {}, {}, {}, {}, {}
    meanings = set()

    def walk(ns, loop):
        for n in ns:
            if n[0] == "leaf":
                t, meta = G.canon_spacing(n[1]), n[2]
                if meta[0] == "allowed":
                    tr[t] = []
                elif meta[0] == "mark":
                    tr[t] = [["@" + str(meta[1])]]
                elif meta[0] == "continue":
                    meanings.add(meta[1])
                    tr[t] = [["continue;" if meta[1] == "loop" else "return;"]]
                elif meta[0] == "jump":
                    tr[t] = [[meta[1]]]
                else:
                    tr[t] = [["#"]]
                continue
            h = G.canon_spacing(n[2])
            if n[1] in ("if", "elif", "while"):
                cx[h] = F.norm(h[len(n[1]):].rstrip()[:-1])
            elif n[1] == "for":
                m = F.RE_PY_FOR.match(h)
                fv[h], fn[h] = m.group(1), m.group(2)
            elif n[1] == "except":
                m = F.RE_PY_EXCEPT.match(h)
                ex[h] = F.catch_text(m.group(1), m.group(2))
            walk(n[3], loop)
    walk(nodes, where)
    # `continue` means two different things in one main-loop body (inside a for/while: continue; directly: return;):
    # a table keyed by statement text cannot say both - such bodies are compared by the oracle only
    if len(meanings) > 1:
        return None
    return [[[k, v] for k, v in tr.items()], [[k, v] for k, v in cx.items()], [[k, v] for k, v in fv.items()],
            [[k, v] for k, v in fn.items()], [[k, v] for k, v in ex.items()]]


def _drop_plain(trees):
    out = []
    for t in trees or []:
        if t[0] == 0:
            if t[1] != "#":
                out.append(t)
        else:
            out.append([1, t[1], _drop_plain(t[2])])
    return out


def _norm_fw(trees, marks):
    out = []
    for t in trees:
        if t[0] == 0:
            s = t[1]
            if s in ("continue;", "break;", "return;") or s.startswith("return "):
                out.append([0, s])
            elif F.MARK_LINE.match(s):
                for tok in re.findall(r"(?<![\w.])\d+(?![\w.])", s):
                    if int(tok) in marks:
                        out.append([0, "@" + tok])
            continue
        h = t[1]
        m = F.RE_C_ELIF.match(h) or F.RE_C_IF.match(h) or F.RE_C_WHILE.match(h)
        if m:
            out.append([1, h[: m.start(1)] + F.norm(m.group(1)) + ")", _norm_fw(t[2], marks)])
        elif h in ("else", "try") or F.RE_C_FOR.match(h) or F.RE_C_CATCH.match(h):
            out.append([1, h, _norm_fw(t[2], marks)])
        # any other block is one some simple statement opened itself: not part of the script's structure
    return out


def _ign_key(e):
    return (e[0], e[1], re.sub(r"\s+", "", e[2]), e[3])


def _diff_hint(a, b, first):
    if a is None or b is None:
        return a if first else b
    la, lb = a.splitlines(), b.splitlines()
    for i, (x, y) in enumerate(zip(la, lb)):
        if x != y:
            lo = max(0, i - 3)
            return "\n".join((la if first else lb)[lo: i + 6])
    return "\n".join((la if first else lb)[-8:])
