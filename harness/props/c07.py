"""C07 - every line accounted for, block structure = Python's (work in progress)."""
from __future__ import annotations
from harness import common as C
from harness import c07_gen as G

META = {"id": "C07", "technique": "wip", "level_text": "wip", "level_note": "wip", "design_ref": "DESIGN.md section 4 C07"}


def run(ctx: C.Ctx):
    rng = ctx.rng
    progs = [G.gen_program(rng) for _ in range(200)]
    cases, lines_all = [], []
    for tops in progs:
        u = rng.choice(G.UNITS)
        lt, fj = G.lay_program(rng, tops, u)
        lines = G.render(lt, fj, u)
        lines_all.append(lines)
        if rng.random() < 0.5:
            lines_all.append(G.perturb(rng, lines))
    impl = C.run_impl("c07_impl.py", {"cases": [["trace", l] for l in lines_all]})
    model = ctx.model([[5, l] for l in lines_all])
    n = 0
    for l, r, m in zip(lines_all, impl, model):
        mt = [[e[0], e[1], [C.wstr(x) for x in e[2]]] for e in m[1]]
        rt = r["trace"]
        if r["exc"] and not r["exc"].startswith("emit:"):
            ok = mt[:len(rt)] == rt
        else:
            ok = mt == rt
        if not ok:
            n += 1
            if n < 4:
                print("\n".join(l)); print("MODEL", mt); print("IMPL ", rt, r["exc"])
            ctx.disagree("trace", l, mt, rt)
    print("traces", len(lines_all), "excs", sum(1 for r in impl if r["exc"]))
    ctx.coverage.update({"evaluations": len(lines_all)})
