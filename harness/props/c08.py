"""C08 - device calls bind arguments exactly like the Python signatures do."""
from __future__ import annotations

import ast
import itertools
import zlib
from fractions import Fraction

from harness import common as C
from harness.props import c08_emit as E

META = {
    "id": "C08",
    "technique": "Coq proof (Python's binder vs the per-handler lookup table of parser.py, for all call shapes: keyword-order lemma + vm_compute over the finite set of canonical shapes; signatures regenerated from inspect.signature of the host classes) + exhaustive extracted-model correspondence with the real parse() IR and with the real inspect.signature(...).bind, + binding oracle on the real parser",
    "level_text": "Theorems C08_* (coq/Props/C08.v) are proved for every call shape (any number of positionals, any keyword list in any order) about a Gallina model of Python's binder and of the _extract_call_argument lookup pattern of every constructor/method/Core-helper handler; signatures are regenerated from the host classes on every run; the hand-written lookup table is run against the real parser on every call shape Python accepts (all positional/keyword splits, all subsets of omitted defaults, keyword permutations) and Python's binder model against inspect.signature(...).bind. One row is refuted with a witness (LCD i2c+parallel pins) and carries an explicit guard; RGBLed.on, refuted until its repair (fix: RGBLed.on() honours red/green/blue passed by keyword), is now proved to bind every accepted call like Python (C08_RGBLed_on_binds) and its old witness is replayed as a regression on every run.",
    "level_note": "Trusted: Coq kernel, translator harness/gen/signatures.py, extraction (ExtrOcamlBasic), OCaml driver, harness/impl/c08_impl.py (script templates, IR-field/parameter table), CPython inspect.signature(...).bind as 'what Python would bind'. The theorems are about the model; the exhaustive correspondence bounds its distance from parser.py on the calls Python accepts. Argument values are fixed distinct literals per parameter: value-dependent behaviour of a handler is not explored.",
    "design_ref": "DESIGN.md section 4 C08",
}

# ---------------------------------------------------------------------------------------
# literal chosen for each parameter (Python source text).  Distinct inside every row and
# distinct from every default of the row, so the binding can be read off the IR fields.
# ---------------------------------------------------------------------------------------
VAL = {
    "pin": "7", "red_pin": "31", "green_pin": "32", "blue_pin": "33", "default_frequency": "523",
    "min_angle": "20", "max_angle": "150", "min_pulse_us": "600", "max_pulse_us": "2300",
    "in1": "4", "in2": "5", "enable": "6",
    "rs": "31", "en": "32", "d4": "33", "d5": "34", "d6": "35", "d7": "36", "cols": "20", "rows": "4",
    "rw": "37", "backlight_pin": "38", "i2c_addr": "39",
    "on_click": "cb7", "state_provider": "sp8", "value_provider": "vp9",
    "trig": "27", "echo": "28", "sensor": '"hc-sr04"', "model": '"HC_SR04"', "distance_provider": "dp9",
    "default_distance": "12",
    "baud_rate": "115200", "port": '"COM7"', "timeout": "2", "newline": '"N"',
    "value": "77", "duration_ms": "250", "times": "3", "step": "9", "delay_ms": "150", "pattern": "[1, 0, 1]",
    "red": "10", "green": "20", "blue": "30", "steps": "25",
    "frequency": "523", "on_ms": "60", "off_ms": "70", "start_hz": "300", "end_hz": "900", "name": '"siren"', "tempo": "90",
    "angle": "45", "pulse": "1500", "speed": "0.5", "target_speed": "0.25",
    "col": "3", "row": "1", "text": '"hi"', "clear_row": "False", "align": '"right"',
    "top": '"T"', "bottom": '"B"', "top_align": '"center"', "bottom_align": '"right"', "clear_rows": "False",
    "on": "False", "level": "99", "slot": "3", "bitmap": "[1, 2, 3, 4, 5, 6, 7, 8]",
    "max_value": "80", "width": "10", "style": '"hash"', "label": '"L"',
    "animation": '"bounce"', "speed_ms": "120", "loop": "True", "emit": '"host"', "mode": "OUTPUT",
}
VAL_ROW = {("Potentiometer.__init__", "pin"): '"A3"'}


def literal(row: str, param: str) -> str:
    """the literal of a parameter; a parameter name this table does not know (the host signature
    changed) gets a stable 4-digit number so that the oracle can still run"""
    v = VAL_ROW.get((row, param)) or VAL.get(param)
    return v if v is not None else str(1000 + zlib.crc32(param.encode()) % 9000)


# ---------------------------------------------------------------------------------------
# canonical values (source literal side / IR side)
# ---------------------------------------------------------------------------------------
def canon_py(v):
    if isinstance(v, bool):
        return ("b", v)
    if v is None:
        return None
    if isinstance(v, (int, float)):
        return Fraction(v)
    if isinstance(v, str):
        return ("s", v)
    if isinstance(v, (list, tuple)):
        return tuple(canon_py(x) for x in v)
    if isinstance(v, dict) and "float" in v:
        return Fraction(v["float"][0], v["float"][1])
    if isinstance(v, dict) and "serial_read_expr" in v:
        return ("s", "host") if v["serial_read_expr"] == "" else ("s", "both")
    return ("?", repr(v))


def canon_src(src: str):
    """canonical value of a Python source literal (a bare name stands for itself)"""
    try:
        return canon_py(ast.literal_eval(src))
    except Exception:
        return ("s", src)


def canon_obs(v):
    """canonical value of an IR field (ints, floats, bools, None, lists, or C expression text)"""
    if isinstance(v, str):
        t = v.strip()
        if t in ("true", "false"):
            return ("b", t == "true")
        if len(t) >= 2 and t[0] == '"' and t[-1] == '"':
            return ("s", t[1:-1])
        try:
            return Fraction(t)
        except (ValueError, ZeroDivisionError):
            return ("s", t)
    return canon_py(v)


# ---------------------------------------------------------------------------------------
# call shapes
# ---------------------------------------------------------------------------------------
def pk_names(sig):
    return [p[0] for p in sig if p[1] == "pk"]


def accepted_shapes(sig):
    """every (npos, keyword names in signature order) that Python's binder accepts"""
    pks = pk_names(sig)
    out = []
    for npos in range(len(pks) + 1):
        rest = [p for p in sig if not (p[1] == "pk" and pks.index(p[0]) < npos)]
        req = [p[0] for p in rest if not p[2]]
        opt = [p[0] for p in rest if p[2]]
        for k in range(len(opt) + 1):
            for sub in itertools.combinations(opt, k):
                chosen = set(req) | set(sub)
                out.append((npos, [p[0] for p in rest if p[0] in chosen]))
    return out


def make_case(row: str, sig, npos: int, kwlist):
    pks = pk_names(sig)
    return {"row": row, "pos": [literal(row, p) for p in pks[:npos]], "kws": [[k, literal(row, k)] for k in kwlist]}


def supplied(case, sig):
    """[(slot, canonical literal)] for every argument of the call"""
    out = [(("pos", i), canon_src(s)) for i, s in enumerate(case["pos"])]
    out += [(("kw", k), canon_src(s)) for k, s in case["kws"]]
    return out


def read_binding(case, row, res):
    """what the real parser did: ('rejected', kind) | ('bound', {param: slot}) | ('no-node', ...)
    slot = ('pos', i) | ('kw', name) | ('value', canonical IR value)   (the last: not any supplied argument)"""
    if res["status"] == "raised":
        return ("rejected", res["exc"])
    if res["status"] != "ok":
        return ("no-node", res.get("seen"))
    args = supplied(case, row["sig"])
    out = {}
    for p in row["device_params"]:
        obs = canon_obs(res["fields"][p])
        hit = [slot for slot, lit in args if lit == obs]
        out[p] = hit[0] if len(hit) == 1 else ("value", obs)
    return ("bound", out)


def python_binding(case, row, res):
    """what inspect.signature(real callable).bind did, restricted to the device parameters"""
    if not res["py"]["accepted"]:
        return None
    pks = pk_names(row["sig"])
    npos = len(case["pos"])
    defaults = {p[0]: canon_py(p[3]) for p in row["sig"] if p[2]}
    out = {}
    for p in row["device_params"]:
        if p in res["py"]["given"]:
            out[p] = ("pos", pks.index(p)) if p in pks and pks.index(p) < npos else ("kw", p)
        elif p in defaults:
            out[p] = ("value", defaults[p])
        else:
            out[p] = ("absent", None)     # the IR table names a parameter the host signature no longer has
    return out




# ---------------------------------------------------------------------------------------
# model I/O
# ---------------------------------------------------------------------------------------
def canon_dval(d):
    if d[0] == 0:
        return None
    if d[0] == 1:
        return Fraction(d[1], d[2])
    if d[0] == 2:
        return ("s", C.wstr(d[1]))
    return ("b", bool(d[1]))


def decode_binding(out):
    """model output (0 ((name slot) ...)) | (1)  ->  None (rejected) | {param: slot}"""
    if out[0] == 1:
        return None
    b = {}
    for name, slot in out[1]:
        if slot[0] == 0:
            b[C.wstr(name)] = ("pos", slot[1])
        elif slot[0] == 1:
            b[C.wstr(name)] = ("kw", C.wstr(slot[1]))
        else:
            b[C.wstr(name)] = ("value", canon_dval(slot[1]))
    return b


def model_case(kind, case):
    return [kind, case["row"], len(case["pos"]), [k for k, _ in case["kws"]]]


def python_full_binding(case, row, res):
    """inspect's binding over ALL parameters (to validate the model's py_bind and the translated defaults)"""
    if not res["py"]["accepted"]:
        return None
    pks = pk_names(row["sig"])
    npos = len(case["pos"])
    out = {}
    for p in row["sig"]:
        if p[0] in res["py"]["given"]:
            out[p[0]] = ("pos", pks.index(p[0])) if p[0] in pks and pks.index(p[0]) < npos else ("kw", p[0])
        else:
            out[p[0]] = ("value", canon_py(p[3]))
    return out


# ---------------------------------------------------------------------------------------
# known findings
# ---------------------------------------------------------------------------------------
def load_findings(ctx):
    """entries of known_findings.json for C08, plus this work package's known_findings.d/C08.json
    (the merged file is assembled by ./check manifest; both are committed, never written here)"""
    import json
    items = {f["id"]: f for f in ctx.findings}
    p = C.VERIF / "known_findings.d" / "C08.json"
    if p.exists():
        # the work package's own file is the source of the merged one: it wins (a merged file that was not
        # re-assembled yet must not keep suppressing an entry that has meanwhile become kind=fixed)
        for f in json.loads(p.read_text()):
            items[f["id"]] = f
    return list(items.values())


def witness_cases(f):
    return [f["witness"]["case"]] + [m["case"] for m in f["witness"].get("more", [])]


def covered_by(findings, case):
    """id of the listed finding (kind=finding) whose shape class contains the case, else None"""
    kws = {k for k, _ in case["kws"]}
    for f in findings:
        g = f.get("guard_spec")
        if f.get("kind") != "finding" or not g or g["row"] != case["row"]:
            continue
        if set(g["all"]) <= kws and (kws & set(g["any"])):
            return f["id"]
    return None


def verdict(case, row, res):
    """property relation on the real artefacts: ('same'|'rejected'|'differs'|'dropped'|'py-rejects', detail)"""
    exp = python_binding(case, row, res)
    if exp is None:
        return ("py-rejects", None)
    obs = read_binding(case, row, res)
    if obs[0] == "rejected":
        return ("rejected", obs[1])
    if obs[0] != "bound":
        return ("dropped", obs[1])
    if obs[1] == exp:
        return ("same", None)
    return ("differs", {p: {"python": fmt_slot(exp[p]), "transpiler": fmt_slot(obs[1][p])} for p in exp if obs[1][p] != exp[p]})


def fmt_slot(s):
    if s[0] == "pos":
        return f"positional #{s[1]}"
    if s[0] == "kw":
        return f"keyword {s[1]}"
    if s[0] == "absent":
        return "parameter not in the host signature"
    return f"value {s[1]!r}"


def shape_class(case):
    return f"{case['row']}:npos={len(case['pos'])}:kw={'+'.join(sorted(k for k, _ in case['kws']))}"


# ---------------------------------------------------------------------------------------
# case generation
# ---------------------------------------------------------------------------------------
def self_check_literals(rows):
    for name, r in rows.items():
        seen = {}
        for p in r["sig"]:
            lit = canon_src(literal(name, p[0]))
            if p[0] in r["device_params"]:
                if lit in seen.values():
                    raise RuntimeError(f"harness literals of row {name} are not distinct ({p[0]})")
                seen[p[0]] = lit
        defaults = [canon_py(p[3]) for p in r["sig"] if p[2] and p[0] in r["device_params"]]
        for p, lit in seen.items():
            if lit in defaults:
                raise RuntimeError(f"harness literal of {name}({p}) equals a default of the row")


def bump(lit: str) -> str:
    """a different but equally valid literal (numbers + 1; everything else unchanged)"""
    try:
        return str(int(lit) + 1)
    except ValueError:
        try:
            return repr(float(lit) + 0.125)
        except ValueError:
            return lit


def build_noise(rows):
    """declarations of one extra device per class and one fully-spelled (all parameters, positional and again
    as keywords) call per method row on it, with literals different from the ones the cases use"""
    decls, calls = [], []
    for name, r in rows.items():
        if name.endswith(".__init__") or not r["call"].startswith("dev.") or not r["pre"]:
            continue
        cls = name.split(".")[0]
        nm = "n" + cls.lower()
        for d in r["pre"]:
            d2 = d.replace("dev =", nm + " =")
            if d2 not in decls:
                decls.append(d2)
        pk = [p for p in r["sig"] if p[1] == "pk"]
        ko = [p for p in r["sig"] if p[1] == "ko"]
        if not (pk or ko):
            continue
        args_pos = ", ".join([bump(literal(name, p[0])) for p in pk] + [f"{p[0]}={bump(literal(name, p[0]))}" for p in ko])
        args_kw = ", ".join(f"{p[0]}={bump(bump(literal(name, p[0])))}" for p in pk + ko)
        calls.append(r["call"].replace("dev.", nm + ".").format(a=args_pos))
        calls.append(r["call"].replace("dev.", nm + ".").format(a=args_kw))
    return {"decls": decls, "calls": calls}


def rejected_extras(name, sig):
    """call shapes Python rejects (only Python's binder and its model see them)"""
    pks = pk_names(sig)
    req_kw = [p[0] for p in sig if not p[2]]
    out = []

    def case(npos, kwl):
        pos = [literal(name, p) for p in pks[:npos]] + ["99"] * max(0, npos - len(pks))
        return {"row": name, "pos": pos, "kws": [[k, VAL.get(k, "98") if k != "zz9" else "98"] for k in kwl], "py_only": True}

    out.append(case(len(pks) + 1, [k for k in req_kw if k not in pks]))           # too many positionals
    out.append(case(0, req_kw + ["zz9"]))                                          # unexpected keyword
    if pks:
        out.append(case(1, [pks[0]] + [k for k in req_kw if k != pks[0]]))          # positional and keyword
        out.append(case(len(pks), [pks[-1]] + [k for k in req_kw if k not in pks]))
    for k in req_kw:
        out.append(case(0, [x for x in req_kw if x != k]))                          # missing required
    return out


def run(ctx: C.Ctx):
    rng = ctx.rng
    thorough = ctx.tier == "thorough"
    findings = load_findings(ctx)
    info = C.run_impl("c08_impl.py", {"op": "rows"})
    rows = info["rows"]
    if info["unclassified"] or info["stale"]:
        ctx.disagree("host surface changed: public callables without a row / rows without a callable (update harness/impl/c08_impl.py ROWS and coq/Lang/Bind.v table)",
                     None, None, {"unclassified": info["unclassified"], "stale": info["stale"]})
    for name, r in rows.items():
        gone = [p for p in r["device_params"] if p not in [q[0] for q in r["sig"]]]
        if gone:
            ctx.disagree(f"row {name}: parameter(s) {gone} of the IR-field table (harness/impl/c08_impl.py ROWS, coq/Lang/Bind.v) no longer exist in the host signature",
                         None, gone, [q[0] for q in r["sig"]])
    self_check_literals(rows)

    # ---------------- table summary of the model vs the implementation-side row table
    model_guarded = set()
    if ctx.exe:
        (summary,) = ctx.model([[3]])[0]
        m_rows = {C.wstr(e[0]): [C.wstr(p) for p in e[2]] for e in summary if e[1] == 1}
        m_host = {C.wstr(e[0]) for e in summary if e[1] == 0}
        model_guarded = {C.wstr(e[0]) for e in summary if e[3] == 1}
        i_rows = {n: r["device_params"] for n, r in rows.items()}
        if m_rows != i_rows or m_host != set(info["host_only"]):
            ctx.disagree("row tables differ: coq/Lang/Bind.v table vs harness/impl/c08_impl.py ROWS", None,
                         {"only_model": sorted(set(m_rows) - set(i_rows)), "host_only_model": sorted(m_host)},
                         {"only_impl": sorted(set(i_rows) - set(m_rows)), "host_only_impl": sorted(info["host_only"]),
                          "device_params_differ": sorted(n for n in set(m_rows) & set(i_rows) if m_rows[n] != i_rows[n])})

    # ---------------- repaired findings (kind=fixed): they suppress nothing.  Their witnesses are replayed first,
    # so that if the defect ever returns the first replay file is the recorded witness itself (same failure key
    # as the generated cases of the row, which now cover the formerly excluded shape class).
    n_fixed_replayed = 0
    for f in findings:
        if f.get("kind") != "fixed":
            continue
        wcases = [c for c in witness_cases(f) if c["row"] in rows]
        rs = C.run_impl("c08_impl.py", {"op": "run", "cases": wcases})
        for c, r in zip(wcases, rs):
            n_fixed_replayed += 1
            row = rows[c["row"]]
            v, detail = verdict(c, row, r)
            if v in ("differs", "dropped"):
                ctx.fail(f"{c['row']}: the recorded witness of repaired defect {f['id']} fails again ({f.get('fixed', f['what'])}): {r['script'].splitlines()[-1]}",
                         c, {"python_binds": {p: fmt_slot(s) for p, s in python_binding(c, row, r).items()}},
                         {"differences": detail, "ir_fields": r.get("fields"), "script": r["script"], "shape": shape_class(c),
                          "finding": f["id"], "fixed_by": f.get("commit")}, key=("differs:" if v == "differs" else "dropped:") + c["row"])

    # ---------------- every call shape Python accepts: canonical keyword order + permutations
    cases, origin = [], []
    n_perm_k = 4 if thorough else 1
    for name, r in rows.items():
        shapes = accepted_shapes(r["sig"])
        perm_budget = None
        if name == "LCD.__init__" and not thorough:
            perm_budget = set(rng.sample(range(len(shapes)), 512))   # permutations for a sample only (all canonical shapes run)
        for idx, (npos, kwl) in enumerate(shapes):
            cases.append(make_case(name, r["sig"], npos, kwl))
            origin.append("canonical")
            if (kwl or npos >= 2) and (perm_budget is None or idx in perm_budget):
                # the same shape with optional spaces around '=', ',' and inside the parentheses
                lay = make_case(name, r["sig"], npos, kwl)
                lay["sp"] = 1 + idx % 3
                cases.append(lay)
                origin.append("layout")
            if len(kwl) >= 2 and (perm_budget is None or idx in perm_budget):
                seen = {tuple(kwl)}
                for _ in range(n_perm_k):
                    perm = list(kwl)
                    rng.shuffle(perm)
                    if tuple(perm) in seen:
                        perm = list(reversed(kwl))
                    if tuple(perm) in seen:
                        continue
                    seen.add(tuple(perm))
                    cases.append(make_case(name, r["sig"], npos, perm))
                    origin.append("permutation")
    # ---------------- the same shapes as the LAST statement of a nested block, after fully-spelled calls on
    # other devices: binding (defaults included) must not depend on what the parser handled before
    noise = build_noise(rows)
    n_ctx = 0
    for name, r in rows.items():
        if name.endswith(".__init__") or not r["call"].startswith(("dev.", "x = dev.")):
            continue
        for idx, (npos, kwl) in enumerate(accepted_shapes(r["sig"])):
            c = make_case(name, r["sig"], npos, kwl)
            c["ctx"] = ("for", "loop", "if", "try")[(idx + n_ctx) % 4]
            cases.append(c)
            origin.append("context")
            n_ctx += 1
    extras = [c for name, r in rows.items() for c in rejected_extras(name, r["sig"])]
    extras += [c for name, r in info["host_only"].items() for c in []]
    results = C.run_impl("c08_impl.py", {"op": "run", "cases": cases + extras, "noise": noise})
    noise_kept = results["noise_kept"]
    results = results["results"]
    res_main, res_extra = results[:len(cases)], results[len(cases):]

    # ---------------- model runs
    if ctx.exe:
        m_redu = ctx.model([model_case(0, c) for c in cases])
        m_py = ctx.model([model_case(1, c) for c in cases + extras])
        m_guard = ctx.model([model_case(2, c) for c in cases])
    else:
        m_redu = m_py = m_guard = None

    dist = {"rows": len(rows), "host_only_methods": len(info["host_only"]), "canonical_shapes": origin.count("canonical"),
            "keyword_permutations": origin.count("permutation"), "spacing_variants": origin.count("layout"), "in_block_after_other_calls": origin.count("context"),
            "noise_statements_kept": len(noise_kept["calls"]), "noise_statements_offered": len(noise["calls"]), "python_rejected_extras": len(extras),
            "outcomes": {}, "exception_kinds": {}, "per_row_shapes": {}, "npos": {}, "n_keywords": {}, "defaults_omitted": {},
            "excluded_by_finding": {}}
    row_real_agrees = {n: True for n in rows}
    n_oracle = 0
    for i, (c, r) in enumerate(zip(cases, res_main)):
        row = rows[c["row"]]
        v, detail = verdict(c, row, r)
        dist["outcomes"][v] = dist["outcomes"].get(v, 0) + 1
        if v == "rejected":
            dist["exception_kinds"][detail] = dist["exception_kinds"].get(detail, 0) + 1
        if origin[i] == "canonical":
            dist["per_row_shapes"][c["row"]] = dist["per_row_shapes"].get(c["row"], 0) + 1
            dist["npos"][len(c["pos"])] = dist["npos"].get(len(c["pos"]), 0) + 1
            dist["n_keywords"][len(c["kws"])] = dist["n_keywords"].get(len(c["kws"]), 0) + 1
            omitted = sum(1 for p in row["sig"] if p[2] and p[0] not in r["py"]["given"]) if r["py"]["given"] is not None else -1
            dist["defaults_omitted"][omitted] = dist["defaults_omitted"].get(omitted, 0) + 1
        if v in ("differs", "dropped"):
            row_real_agrees[c["row"]] = False
        if v == "py-rejects":
            ctx.disagree("harness enumeration: inspect.signature(...).bind rejects a shape enumerated as accepted", c, None, r["py"])
            continue
        # ---- property oracle on the implementation (inside the guard = not covered by a listed finding)
        fid = covered_by(findings, c)
        if fid:
            dist["excluded_by_finding"][fid] = dist["excluded_by_finding"].get(fid, 0) + 1
        else:
            n_oracle += 1
            if v == "differs":
                ctx.fail(f"{c['row']}: the transpiler neither rejects the call nor binds it like Python: {r['script'].splitlines()[-1]}",
                         c, {"python_binds": {p: fmt_slot(s) for p, s in python_binding(c, row, r).items()}},
                         {"differences": detail, "ir_fields": r.get("fields"), "script": r["script"], "shape": shape_class(c)}, key="differs:" + c["row"])
            elif v == "dropped":
                ctx.fail(f"{c['row']}: the call is accepted by Python but produces no IR node and no error (silently dropped): {r['script'].splitlines()[-1]}",
                         c, "an error, or the IR node of the handler", {"nodes_seen": detail, "script": r["script"], "shape": shape_class(c)}, key="dropped:" + c["row"])
        # ---- correspondence: the model's row vs the real parser, the model's guard vs the listed findings
        if m_redu is not None:
            mb = decode_binding(m_redu[i])
            obs = read_binding(c, row, r)
            if obs[0] == "rejected":
                same = mb is None
            elif obs[0] == "bound":
                same = mb is not None and mb == obs[1]
            else:
                same = False
            if not same:
                ctx.disagree(f"redu_bind row {c['row']} vs the real parser (hand-written table in coq/Lang/Bind.v)", c,
                             None if mb is None else {p: fmt_slot(s) for p, s in mb.items()},
                             obs[1] if obs[0] != "bound" else {p: fmt_slot(s) for p, s in obs[1].items()})
            in_guard_model = m_guard[i] == [0, 1]
            if in_guard_model != (fid is None):
                ctx.disagree(f"guard of row {c['row']} in coq/Lang/Bind.v differs from the shape class of the listed findings", c,
                             {"model_in_guard": in_guard_model}, {"covered_by_finding": fid})

    # ---------------- correspondence: the model's py_bind vs the real inspect.signature(...).bind
    if m_py is not None:
        for c, r, m in zip(cases + extras, results, m_py):
            row = rows[c["row"]]
            want = python_full_binding(c, row, r)
            got = decode_binding(m)
            if want != got:
                ctx.disagree(f"py_bind vs inspect.signature({c['row']}).bind", c,
                             None if got is None else {p: fmt_slot(s) for p, s in got.items()},
                             None if want is None else {p: fmt_slot(s) for p, s in want.items()})
    for c, r in zip(extras, res_extra):
        if r["py"]["accepted"]:
            ctx.disagree("harness enumeration: inspect.signature(...).bind accepts a shape generated as rejected", c, None, r["py"])

    # ---------------- per row: does the real parser agree with Python on every accepted shape?
    stale = sorted(n for n in model_guarded if row_real_agrees.get(n))
    for n in stale:
        hint = " - drop its entry in [guards] and fix the row"
        ctx.tie_broken.insert(0, {"what": f"row {n}: the real parser now agrees with Python on every accepted call shape; the guarded row in coq/Lang/Bind.v is stale{hint} (and mark the finding fixed)",
                                  "case": None, "model": "guarded (disagrees with Python)", "impl": "agrees with Python"})
    dist["rows_where_real_parser_disagrees_with_python"] = sorted(n for n, ok in row_real_agrees.items() if not ok)
    dist["rows_guarded_in_model"] = sorted(model_guarded)
    dist["fixed_witnesses_replayed"] = n_fixed_replayed
    dist["rows_with_unobserved_parameters"] = {n: [p[0] for p in r["sig"] if p[0] not in r["device_params"]]
                                                for n, r in rows.items() if any(p[0] not in r["device_params"] for p in r["sig"])}

    # ---------------- known findings: replay the listed witnesses on the real parser
    for f in findings:
        if f.get("kind") != "finding":
            continue
        wcases = witness_cases(f)
        rs = C.run_impl("c08_impl.py", {"op": "run", "cases": wcases})
        still = [verdict(c, rows[c["row"]], r)[0] in ("differs", "dropped") for c, r in zip(wcases, rs)]
        if any(still):
            ctx.known(f"{f['id']}: {f['what']}")

    # ---------------- emitter stage: the arguments as they reach the emitted C++ / the compiled firmware
    import sys as _sys
    emit_cov = E.run(ctx, _sys.modules[__name__], rows, findings, info)
    dist["emitter_stage"] = emit_cov["distribution"]

    nontrivial = {(c["row"], len(c["pos"]), tuple(sorted(k for k, _ in c["kws"]))) for c in cases if rows[c["row"]]["sig"]}
    samples = [res_main[i]["script"] for i in (0, len(cases) // 3, 2 * len(cases) // 3, len(cases) - 1)] + emit_cov["samples"]
    ctx.coverage.update({
        "evaluations": len(cases) + len(extras) + emit_cov["evaluations"],
        "distinct_nontrivial": len(nontrivial),
        "oracle_cases_inside_guard": n_oracle,
        "rule": "for every row (constructor / method / Core helper with a transpiler handler): every positional count 0..#positional-or-keyword, every subset of the remaining parameters that contains all required ones, passed as keywords in signature order (= every shape inspect.signature(...).bind accepts, up to keyword order) plus seeded keyword permutations and, every method shape again as the last statement of a for / main-loop / if / try block that first runs fully-spelled calls of every method on other devices (history independence of the binding), for every shape a re-spaced spelling (`k = v`, `k =v , `, `( k= v )`); each parameter carries its own distinct literal so the binding is read off the IR fields; distinct non-trivial = distinct (row, positional count, keyword set) of rows that have at least one parameter; plus shapes Python rejects (too many positionals, unknown keyword, positional+keyword, missing required) for the py_bind model only",
        "samples": samples,
        "distribution": dist,
        "exhaustive": True,
        "guard": "call shapes not covered by a listed finding's (kind=finding) shape class: LCD(...) with i2c_addr together with a parallel pin (guard_of in coq/Lang/Bind.v, cross-checked against known_findings guard_spec on every case); RGBLed.on with a colour passed by keyword is INSIDE the guard since its repair (kind=fixed suppresses nothing; its witnesses are replayed first and fail as VIOLATION if the defect returns)",
        "unmodelled": [
            "*args / **kwargs call syntax",
            "calls Python itself rejects (the transpiler may accept more than Python; only Python's binder model sees them)",
            "argument values: one fixed literal per parameter; value-dependent handler behaviour (e.g. validation of align/style/melody names, Servo range checks) is not explored",
            "host-only parameters without an IR field (state_provider, value_provider, distance_provider, default_distance, sensor/model, serial port/timeout/newline) are passed but their binding cannot be observed",
            "public host methods without a transpiler handler (RGBLed.get_color/get_state, LCD.begin/dump/tick, Button.set_pressed, SerialMonitor.connect/close): such statements are silently dropped by parse() (C07)",
            "an exception of any kind raised by parse() counts as 'rejected with an error' (SerialMonitor.write(value=...) raises SyntaxError, not ValueError: C11's concern)",
        ],
        "trusted_base": C.COMMON_TRUSTED + [
            "harness/gen/signatures.py (inspect.signature of the imported host classes -> coq/Gen/Signatures.v, fail-closed on *args/**kwargs/positional-only/unknown default kinds)",
            "harness/impl/c08_impl.py (one-call script templates, IR-field <-> parameter table ROWS, inspect.signature(...).bind on the real callables)",
            "harness/props/c08.py canonicalisation of literals / IR values (numbers compared exactly as rationals, strings unquoted)",
        ],
    })
    ctx.assumptions += ["CPython inspect.signature(callable).bind defines 'what Python would bind'",
                        "the IR dataclass fields named in ROWS are where the emitter takes each parameter from"]


def replay(data):
    """./check replay <file>: re-run the recorded call on the real parser"""
    case = data.get("case")
    if isinstance(case, dict) and case.get("engine") in ("transfer", "constants"):
        import sys as _sys
        return E.replay(_sys.modules[__name__], data)
    if not isinstance(case, dict) or "row" not in case or "pos" not in case:
        print("replay: no single failing call recorded in this file (broken proof or correspondence): re-run ./check C08")
        return 0
    info = C.run_impl("c08_impl.py", {"op": "rows"})
    res = C.run_impl("c08_impl.py", {"op": "run", "cases": [case]})[0]
    v, detail = verdict(case, info["rows"][case["row"]], res)
    print("script:\n" + res["script"])
    print("verdict:", v, detail if detail else "")
    return 1 if v in ("differs", "dropped") else 0
