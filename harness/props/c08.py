"""C08 - device calls bind arguments exactly like the Python signatures do."""
from __future__ import annotations

import ast
import itertools
from fractions import Fraction

from harness import common as C

META = {
    "id": "C08",
    "technique": "TODO",
    "level_text": "TODO",
    "level_note": "TODO",
    "design_ref": "DESIGN.md section 4 C08",
}

# ---------------------------------------------------------------------------------------
# literal chosen for each parameter (Python source text).  Distinct inside every row and
# distinct from every default of the row, so the binding can be read off the IR fields.
# ---------------------------------------------------------------------------------------
VAL = {
    "pin": "7", "red_pin": "31", "green_pin": "32", "blue_pin": "33", "default_frequency": "523",
    "min_angle": "20", "max_angle": "150", "min_pulse_us": "600", "max_pulse_us": "2300",
    "in1": "4", "in2": "5", "enable": "6",
    "rs": "31", "en": "32", "d4": "33", "d5": "34", "d6": "35", "d7": "36", "cols": "20", "rows": "4",
    "rw": "37", "backlight_pin": "38", "i2c_addr": "39",
    "on_click": "cb7", "state_provider": "sp8", "value_provider": "vp9",
    "trig": "27", "echo": "28", "sensor": '"hc-sr04"', "model": '"HC_SR04"', "distance_provider": "dp9",
    "default_distance": "12",
    "baud_rate": "115200", "port": '"COM7"', "timeout": "2", "newline": '"N"',
    "value": "77", "duration_ms": "250", "times": "3", "step": "9", "delay_ms": "150", "pattern": "[1, 0, 1]",
    "red": "10", "green": "20", "blue": "30", "steps": "25",
    "frequency": "523", "on_ms": "60", "off_ms": "70", "start_hz": "300", "end_hz": "900", "name": '"siren"', "tempo": "90",
    "angle": "45", "pulse": "1500", "speed": "0.5", "target_speed": "0.25",
    "col": "3", "row": "1", "text": '"hi"', "clear_row": "False", "align": '"right"',
    "top": '"T"', "bottom": '"B"', "top_align": '"center"', "bottom_align": '"right"', "clear_rows": "False",
    "on": "False", "level": "99", "slot": "3", "bitmap": "[1, 2, 3, 4, 5, 6, 7, 8]",
    "max_value": "80", "width": "10", "style": '"hash"', "label": '"L"',
    "animation": '"bounce"', "speed_ms": "120", "loop": "True", "emit": '"host"', "mode": "OUTPUT",
}
VAL_ROW = {("Potentiometer.__init__", "pin"): '"A3"'}


def literal(row: str, param: str) -> str:
    return VAL_ROW.get((row, param)) or VAL[param]


# ---------------------------------------------------------------------------------------
# canonical values (source literal side / IR side)
# ---------------------------------------------------------------------------------------
def canon_py(v):
    if isinstance(v, bool):
        return ("b", v)
    if v is None:
        return None
    if isinstance(v, (int, float)):
        return Fraction(v)
    if isinstance(v, str):
        return ("s", v)
    if isinstance(v, (list, tuple)):
        return tuple(canon_py(x) for x in v)
    if isinstance(v, dict) and "float" in v:
        return Fraction(v["float"][0], v["float"][1])
    if isinstance(v, dict) and "serial_read_expr" in v:
        return ("s", "host") if v["serial_read_expr"] == "" else ("s", "both")
    return ("?", repr(v))


def canon_src(src: str):
    """canonical value of a Python source literal (a bare name stands for itself)"""
    try:
        return canon_py(ast.literal_eval(src))
    except Exception:
        return ("s", src)


def canon_obs(v):
    """canonical value of an IR field (ints, floats, bools, None, lists, or C expression text)"""
    if isinstance(v, str):
        t = v.strip()
        if t in ("true", "false"):
            return ("b", t == "true")
        if len(t) >= 2 and t[0] == '"' and t[-1] == '"':
            return ("s", t[1:-1])
        try:
            return Fraction(t)
        except (ValueError, ZeroDivisionError):
            return ("s", t)
    return canon_py(v)


# ---------------------------------------------------------------------------------------
# call shapes
# ---------------------------------------------------------------------------------------
def pk_names(sig):
    return [p[0] for p in sig if p[1] == "pk"]


def accepted_shapes(sig):
    """every (npos, keyword names in signature order) that Python's binder accepts"""
    pks = pk_names(sig)
    out = []
    for npos in range(len(pks) + 1):
        rest = [p for p in sig if not (p[1] == "pk" and pks.index(p[0]) < npos)]
        req = [p[0] for p in rest if not p[2]]
        opt = [p[0] for p in rest if p[2]]
        for k in range(len(opt) + 1):
            for sub in itertools.combinations(opt, k):
                chosen = set(req) | set(sub)
                out.append((npos, [p[0] for p in rest if p[0] in chosen]))
    return out


def make_case(row: str, sig, npos: int, kwlist):
    pks = pk_names(sig)
    return {"row": row, "pos": [literal(row, p) for p in pks[:npos]], "kws": [[k, literal(row, k)] for k in kwlist]}


def supplied(case, sig):
    """[(slot, canonical literal)] for every argument of the call"""
    out = [(("pos", i), canon_src(s)) for i, s in enumerate(case["pos"])]
    out += [(("kw", k), canon_src(s)) for k, s in case["kws"]]
    return out


def read_binding(case, row, res):
    """what the real parser did: ('rejected', kind) | ('bound', {param: slot}) | ('no-node', ...)
    slot = ('pos', i) | ('kw', name) | ('value', canonical IR value)   (the last: not any supplied argument)"""
    if res["status"] == "raised":
        return ("rejected", res["exc"])
    if res["status"] != "ok":
        return ("no-node", res.get("seen"))
    args = supplied(case, row["sig"])
    out = {}
    for p in row["device_params"]:
        obs = canon_obs(res["fields"][p])
        hit = [slot for slot, lit in args if lit == obs]
        out[p] = hit[0] if len(hit) == 1 else ("value", obs)
    return ("bound", out)


def python_binding(case, row, res):
    """what inspect.signature(real callable).bind did, restricted to the device parameters"""
    if not res["py"]["accepted"]:
        return None
    pks = pk_names(row["sig"])
    npos = len(case["pos"])
    defaults = {p[0]: canon_py(p[3]) for p in row["sig"] if p[2]}
    out = {}
    for p in row["device_params"]:
        if p in res["py"]["given"]:
            out[p] = ("pos", pks.index(p)) if p in pks and pks.index(p) < npos else ("kw", p)
        else:
            out[p] = ("value", defaults[p])
    return out


def run(ctx: C.Ctx):
    raise NotImplementedError
