"""C08, emitter stage: the arguments as they reach the emitted C++ / the compiled firmware.

Three engines on the REAL parse()+emit() (the IR-level layer of c08.py stops at the parser's node fields):

* correspondence (model): the extracted model (coq/Lang/BindEmit.v over the regenerated coq/Gen/EmitStage.v) predicts for
  every generated call the firmware-argument vector (per device parameter: omitted / the bound value).  Two calls of a row
  whose predicted vectors differ must not produce the same sketch; the model's parameter -> IR-field table must be the one
  of harness/impl/c08_impl.py ROWS.
* oracle T (transfer): two calls of one method that the real HOST class (CPython binds the arguments) tells apart - different
  resulting object state - must not be emitted as the identical sketch: the firmware would have bound at least one of them
  differently from Python.  Finds `message(bottom=..)` written like `message(top=..)`, `x or default`, dropped arguments ...
* oracle K (constants): a call with a literal argument (0, 0.0, False, 1, the row's own literal) and the SAME call with a
  run-time variable that holds the same value (read from a scripted analog pin, so nothing can be folded) must drive the
  mock core identically: the compiled firmware must bind a constant exactly like the value it denotes.  Finds an explicit
  falsy argument treated like an omitted one in the parser OR the emitter, on every device (also on the Buzzer, whose host
  class is a placeholder without behaviour).
"""
from __future__ import annotations

import itertools
import json
import re
from fractions import Fraction

from harness import common as C
from harness import fw

HEAD = ["mon = SerialMonitor(115200)", 'z0 = analog_read("A0")', 'z1 = analog_read("A1")', "zf0 = z0 / 4.0", "zb0 = z0 > 5", "zb1 = z1 > 0"]
INPUT = "ar 14 0\nar 15 1\n"


# parameters whose values are labels of a fixed vocabulary (free text is not in their domain)
LABELS = {"emit", "align", "top_align", "bottom_align", "style", "animation", "name", "sensor", "model", "mode", "newline", "port"}


def kind_of(P, row, p):
    if p in LABELS:
        return "other"
    lit = P.literal(row, p)
    v = P.canon_src(lit)
    if isinstance(v, Fraction):
        return "num"
    if isinstance(v, tuple) and v and v[0] == "b":
        return "bool"
    if isinstance(v, tuple) and v and v[0] == "s" and lit.startswith('"'):
        return "str"
    return "other"


# ---------------------------------------------------------------------------------------------------
# value families
# ---------------------------------------------------------------------------------------------------
def default_literal(sigp):
    dv = sigp[3]
    if dv is None:
        return "None"
    if isinstance(dv, bool) or isinstance(dv, int):
        return repr(dv)
    if isinstance(dv, str):
        return json.dumps(dv)
    if isinstance(dv, dict) and "float" in dv:
        return repr(dv["float"][0] / dv["float"][1])
    return None


def domain(P, row, sigp):
    """source literals tried for one parameter; None = argument omitted"""
    p = sigp[0]
    k = kind_of(P, row, p)
    lit = P.literal(row, p)
    d = [None] if sigp[2] else []
    if k == "num":
        d += ["0", "0.0", "False", lit, "7"]
    elif k == "bool":
        d += ["False", "True", "0"]
    elif k == "str":
        d += ['""', lit, '"X"']
    else:
        d += [lit]
    if sigp[2]:
        dl = default_literal(sigp)
        if dl is not None:
            d.append(dl)
    out = []
    for x in d:
        if x not in out:
            out.append(x)
    return out


def transfer_cases(P, rows, rng, thorough):
    cases = []
    cap_product, n_random = (2000, 1200) if thorough else (400, 300)
    for name, r in rows.items():
        dps = [p for p in r["sig"] if p[0] in r["device_params"]]
        if not dps:
            continue
        doms = [domain(P, name, p) for p in dps]
        combos = set()
        for i, d in enumerate(doms):        # star: one parameter varied, the others at their literal / omitted
            for x in d:
                for others in ("val", "omit"):
                    c = []
                    for j, dj in enumerate(doms):
                        if j == i:
                            c.append(x)
                        elif others == "omit" and dj[0] is None:
                            c.append(None)
                        else:
                            c.append(P.literal(name, dps[j][0]))
                    combos.add(tuple(c))
        total = 1
        for d in doms:
            total *= len(d)
        if total <= cap_product:
            combos |= set(itertools.product(*doms))
        else:
            for _ in range(n_random):
                combos.add(tuple(rng.choice(d) for d in doms))
        pks = P.pk_names(r["sig"])
        for c in sorted(combos, key=repr):
            given = {p[0]: x for p, x in zip(dps, c) if x is not None}
            cases.append({"row": name, "pos": [], "kws": [[k, v] for k, v in given.items()]})
            pos = []
            for k in pks:
                if k in given:
                    pos.append(given[k])
                else:
                    break
            if pos:
                cases.append({"row": name, "pos": pos, "kws": [[k, v] for k, v in given.items() if k not in pks[:len(pos)]]})
    return cases


# ---------------------------------------------------------------------------------------------------
# model I/O
# ---------------------------------------------------------------------------------------------------
def enc_fval(P, src):
    v = P.canon_src(src)
    if v is None:
        return [0]
    if isinstance(v, Fraction):
        return [1, v.numerator, v.denominator]
    if isinstance(v, tuple) and len(v) == 2 and v[0] == "b":
        return [3, 1 if v[1] else 0]
    if isinstance(v, tuple) and len(v) == 2 and v[0] == "s" and src.strip().startswith('"'):
        return [2, v[1]]
    return [4, src]


def model_vec_case(P, case):
    return [5, case["row"], len(case["pos"]), [k for k, _ in case["kws"]],
            [enc_fval(P, s) for s in case["pos"]], [enc_fval(P, s) for _, s in case["kws"]]]


def dec_vec(out):
    """-> None (rejected) | tuple of (param, canonical firmware argument); numbers, bools compared by value (False == 0)"""
    if out[0] == 1:
        return None
    vec = []
    for name, sa in out[1]:
        if sa[0] == 0:
            vec.append((C.wstr(name), "omitted"))
            continue
        v = sa[1]
        if v[0] == 0:
            key = ("none",)
        elif v[0] == 1:
            key = ("n", Fraction(v[1], v[2]))
        elif v[0] == 3:
            key = ("n", Fraction(1 if v[1] else 0))
        elif v[0] == 2:
            key = ("s", C.wstr(v[1]))
        else:
            key = ("e", C.wstr(v[1]))
        vec.append((C.wstr(name), key))
    return tuple(vec)


def fmt_call(r):
    return r["script"].splitlines()[-1] if r.get("script") else "?"


def fmt_vec(vec):
    return None if vec is None else {p: (v if v == "omitted" else (str(v[1]) if len(v) > 1 else "None")) for p, v in vec}


# ---------------------------------------------------------------------------------------------------
# oracle K: literal vs run-time twin on the compiled firmware
# ---------------------------------------------------------------------------------------------------
def twin_expr(lit):
    if lit == "0":
        return "z0"
    if lit == "1":
        return "z1"
    if lit == "0.0":
        return "zf0"
    if lit == "False":
        return "zb0"
    if lit == "True":
        return "zb1"
    try:
        return f"(z1 * {int(lit)})"
    except ValueError:
        pass
    try:
        return f"(z1 * {float(lit)!r})"
    except ValueError:
        return None


def twin_pairs(P, rows):
    pairs = []
    for name, r in rows.items():
        if name.endswith(".__init__") or not r["device_params"] or r["call"].startswith("x = "):
            continue
        sig = r["sig"]
        pks = P.pk_names(sig)
        for p in sig:
            if p[0] not in r["device_params"]:
                continue
            k = kind_of(P, name, p[0])
            if k not in ("num", "bool"):
                continue
            vals = ["0", "0.0", "False", "1", P.literal(name, p[0])] if k == "num" else ["False", "True", "0", "1"]
            for z in vals:
                tz = twin_expr(z)
                if tz is None:
                    continue
                for spelling in ("kw", "pos"):
                    if spelling == "pos" and p[0] not in pks:
                        continue
                    for others in ("min", "full"):
                        def build(val):
                            pos, kws = [], []
                            if spelling == "pos":
                                for q in pks[:pks.index(p[0])]:
                                    pos.append(P.literal(name, q))
                                pos.append(val)
                                done = set(pks[:pks.index(p[0]) + 1])
                            else:
                                kws.append([p[0], val])
                                done = {p[0]}
                            for q in sig:
                                if q[0] in done:
                                    continue
                                if not q[2] or (others == "full" and q[0] in r["device_params"]):
                                    kws.append([q[0], P.literal(name, q[0])])
                            return {"row": name, "pos": pos, "kws": kws}
                        pairs.append({"row": name, "param": p[0], "value": z, "spelling": spelling, "others": others,
                                      "lit": build(z), "twin": build(tz), "engine": "constants"})
    return pairs


def call_text(rows, case, dev):
    r = rows[case["row"]]
    a = ", ".join(list(case["pos"]) + [f"{k}={v}" for k, v in case["kws"]])
    return r["call"].replace("dev.", dev + ".").format(a=a)


def pre_text(rows, case, dev):
    return [ln.replace("dev =", dev + " =") for ln in rows[case["row"]]["pre"]]


def single_script(rows, case):
    return "\n".join(HEAD + pre_text(rows, case, "d") + [call_text(rows, case, "d")]) + "\n"


def norm_events(ev):
    return [re.sub(r"^(L[A-Z]+) \d+", r"\1", e) for e in ev]


def run_twin_pairs(rows, pairs):
    """-> (results per pair: None (not accepted on both sides) | {"lit": events, "twin": events, "same": bool}, stats)"""
    singles = []
    for pr in pairs:
        singles.append(single_script(rows, pr["lit"]))
        singles.append(single_script(rows, pr["twin"]))
    acc = []
    for i in range(0, len(singles), 800):
        acc += C.run_impl("c08_emit_impl.py", {"op": "batch", "scripts": singles[i:i + 800]})
    stats = {"pairs": len(pairs), "both_accepted": 0, "both_rejected": 0, "one_side_rejected": 0, "sketches": 0, "compile_failures": 0}
    ok = []
    for i, pr in enumerate(pairs):
        a, b = acc[2 * i], acc[2 * i + 1]
        if a["ok"] and b["ok"]:
            stats["both_accepted"] += 1
            ok.append((i, a["cpp"].count("\n") + b["cpp"].count("\n")))
        elif not a["ok"] and not b["ok"]:
            stats["both_rejected"] += 1
        else:
            stats["one_side_rejected"] += 1
    sketches, cur, cur_lines = [], [], 0
    for i, n in ok:
        if cur and (cur_lines + n > 2500 or len(cur) >= 40):
            sketches.append(cur)
            cur, cur_lines = [], 0
        cur.append(i)
        cur_lines += n
    if cur:
        sketches.append(cur)
    srcs = []
    for sk in sketches:
        lines = list(HEAD)
        for j, i in enumerate(sk):
            for side in ("lit", "twin"):
                lines += pre_text(rows, pairs[i][side], f"d{j}{side[0]}")
        for j, i in enumerate(sk):
            for side in ("lit", "twin"):
                lines.append(f'mon.write("##case {j}{side[0]}")')
                lines.append(call_text(rows, pairs[i][side], f"d{j}{side[0]}"))
        lines.append('mon.write("##case end")')
        srcs.append("\n".join(lines) + "\n")
    tr = fw.transpile_many(srcs)
    jobs = [{"cpp": t["cpp"], "input": INPUT, "loops": 0} for t in tr if t["ok"]]
    runs = fw.run_sketches(jobs)
    stats["sketches"] = len(jobs)
    results = [None] * len(pairs)
    k = 0
    for sk, t in zip(sketches, tr):
        if not t["ok"]:
            stats["compile_failures"] += 1
            continue
        r = runs[k]
        k += 1
        if not r["compiled"] or r["rc"] != 0:
            stats["compile_failures"] += 1
            continue
        cs = fw.split_cases(r["events"])
        for j, i in enumerate(sk):
            a, b = cs.get(f"{j}l"), cs.get(f"{j}t")
            if a is None or b is None:
                continue
            results[i] = {"lit": a, "twin": b, "same": norm_events(a) == norm_events(b)}
    return results, stats


# ---------------------------------------------------------------------------------------------------
# oracle D: the default spelled out vs the argument omitted
# ---------------------------------------------------------------------------------------------------
def given_of(P, rows, case):
    pks = P.pk_names(rows[case["row"]]["sig"])
    g = dict(zip(pks, case["pos"]))
    g.update({k: v for k, v in case["kws"]})
    return g


def norm_block(block):
    """emitted lines with whole floats written like the integer (544.0 -> 544): the same constant in the C++ contexts
    the emitter writes arguments into; never makes two different bindings equal"""
    return [re.sub(r"(?<![\w.])(\d+)\.0(?![\w.])", r"\1", ln) for ln in block]


def default_twins(ctx, P, rows, findings, cases, res, strict_only=False):
    """for every transfer case in which some parameter carries its own default spelled out: the partner is the case
    with exactly that argument left out (same spelling style where it exists, else all-keyword)."""
    index = {}
    for i, c in enumerate(cases):
        g = given_of(P, rows, c)
        index.setdefault((c["row"], bool(c["pos"]), frozenset(g.items())), i)
    stat = {"pairs": 0, "explicit_rejected": 0, "omitted_rejected": 0, "same_firmware": 0, "no_partner": 0,
            "by_default_kind": {}, "explicit_none_positional": 0, "explicit_none_keyword": 0}
    for i, c in enumerate(cases):
        if P.covered_by(findings, c):
            continue
        sig = rows[c["row"]]["sig"]
        pks = P.pk_names(sig)
        g = given_of(P, rows, c)
        for sp in sig:
            p = sp[0]
            if not sp[2] or p not in g or p not in rows[c["row"]]["device_params"]:
                continue
            dl = default_literal(sp)
            if dl is None or g[p] != dl:
                continue
            rest = frozenset((k, v) for k, v in g.items() if k != p)
            j = index.get((c["row"], bool(c["pos"]), rest))
            if j is None:
                j = index.get((c["row"], False, rest))
            if j is None:
                stat["no_partner"] += 1
                continue
            stat["pairs"] += 1
            dk = "None" if dl == "None" else ("falsy" if dl in ("0", "0.0", "False", '""') else "other")
            stat["by_default_kind"][dk] = stat["by_default_kind"].get(dk, 0) + 1
            if dl == "None":
                positional = p in pks and pks.index(p) < len(c["pos"])
                stat["explicit_none_positional" if positional else "explicit_none_keyword"] += 1
            a, b = res[i], res[j]
            if a["status"] != "ok":
                stat["explicit_rejected"] += 1
                continue
            if b["status"] != "ok":
                stat["omitted_rejected"] += 1
                continue
            if a["sha"] == b["sha"]:
                stat["same_firmware"] += 1
                continue
            if norm_block(a["block"]) == norm_block(b["block"]):
                # `100.0` for `100`: the default is a float and was spelled as one; the same number in C++
                stat["same_up_to_number_spelling"] = stat.get("same_up_to_number_spelling", 0) + 1
                continue
            ctx.fail(f"{c['row']}: `{fmt_call(a)}` spells out the default {p}={dl}; Python binds it to exactly the parameter values of "
                     f"`{fmt_call(b)}`, but the transpiler neither rejects it nor emits the same firmware",
                     {"engine": "default", "row": c["row"], "param": p, "default": dl, "a": c, "b": cases[j]},
                     {"python_binds_both_calls_to": {k: (v if k != p else dl) for k, v in g.items()}, "firmware_of_the_call_without_the_argument": b["block"]},
                     {"firmware_of_the_call_with_the_default_spelled_out": a["block"], "script_a": a["script"], "script_b": b["script"]},
                     key="emit-default:" + c["row"] + ":" + p)
    return stat


# ---------------------------------------------------------------------------------------------------
# oracle L: the ABSOLUTE places of the constructor arguments of the LCD driver objects on the compiled firmware
# ---------------------------------------------------------------------------------------------------
LCD_PIN_KEYS = ("rs", "en", "d4", "d5", "d6", "d7")


def _num(v):
    if isinstance(v, dict) and "n" in v:
        f = Fraction(v["n"][0], v["n"][1])
        return int(f) if f.denominator == 1 else float(f)
    return v


def lcd_want(host):
    """what Python binds (attributes of the real host object) in the vocabulary of the mock's LNEW / LB / PM events"""
    dev = host["state"]["dev"]
    if dev.get("is_i2c") not in (None, {"n": [0, 1]}):
        return {"kind": "i2c", "addr": _num(dev.get("i2c_addr")), "cols": _num(dev.get("cols")), "rows": _num(dev.get("rows"))}
    pins = dev.get("pins") or {}
    w = {"kind": "parallel"}
    for k in LCD_PIN_KEYS + ("rw",):
        w[k] = _num(pins.get(k))
    w["cols"], w["rows"] = _num(dev.get("cols")), _num(dev.get("rows"))
    w["backlight_pin"] = _num(dev.get("backlight_pin"))
    return w


def lcd_got(events, n):
    """per LCD object (creation order) what the firmware handed to the driver: constructor overload resolved by g++
    against the mock LiquidCrystal / LiquidCrystal_I2C, begin(cols, rows), the pin driven as backlight"""
    objs, order = {}, []
    cur = None
    for e in events:
        t = e.split()
        if t[0] == "LNEW":
            i = int(t[1])
            order.append(i)
            if t[2] == "i2c":
                objs[i] = {"kind": "i2c", "addr": int(t[3]), "cols": int(t[4]), "rows": int(t[5])}
            elif t[2] == "parallel":
                o = {"kind": "parallel"}
                o.update({k: int(x) for k, x in zip(LCD_PIN_KEYS, t[3:9])})
                o["rw"] = int(t[10]) if len(t) > 10 and t[9] == "rw" else None
                o["backlight_pin"] = None
                objs[i] = o
            else:
                objs[i] = {"kind": t[2], "raw": e}
        elif t[0] == "LB":
            cur = int(t[1])
            if cur in objs and objs[cur]["kind"] == "parallel":
                objs[cur]["cols"], objs[cur]["rows"] = int(t[3]), int(t[4])
        elif t[0] == "PM" and cur in objs and t[2] == "1" and objs[cur]["kind"] == "parallel":
            objs[cur]["backlight_pin"] = int(t[1])
    if len(order) != n:
        return None
    return [objs[i] for i in order]


def lcd_wiring(rows, kwlists):
    """kwlists: [[[name, src], ...], ...] = LCD(...) constructor calls -> [{"call", "want", "got"}]
    want None: the host class raises; got 'rejected': the transpiler raises; got None: not observed"""
    cases = [{"row": "LCD.__init__", "pos": [], "kws": kw} for kw in kwlists]
    rs = C.run_impl("c08_emit_impl.py", {"op": "calls", "cases": cases}) if cases else []
    out = []
    live = []
    for i, (kw, r) in enumerate(zip(kwlists, rs)):
        o = {"call": "LCD(" + ", ".join(f"{k}={v}" for k, v in kw) + ")", "want": None, "got": None}
        if "exc" not in r["host"]:
            o["want"] = lcd_want(r["host"])
        if r["status"] != "ok":
            o["got"] = "rejected"
        elif o["want"] is not None:
            live.append(i)
        out.append(o)
    chunks = [live[i:i + 10] for i in range(0, len(live), 10)]
    srcs = ["\n".join(f"l{j} = {out[i]['call']}" for j, i in enumerate(ch)) + "\n" for ch in chunks]
    tr = fw.transpile_many(srcs)
    ok = [k for k, t in enumerate(tr) if t["ok"]]
    runs = fw.run_sketches([{"cpp": tr[k]["cpp"], "input": "", "loops": 0} for k in ok])
    for k, r in zip(ok, runs):
        if not r["compiled"] or r["rc"] != 0:
            for i in chunks[k]:
                out[i]["got"] = {"kind": "does-not-compile", "log": (r.get("compile_log") or r.get("stderr") or "")[-300:]} if len(chunks[k]) == 1 else None
            continue
        got = lcd_got(r["events"], len(chunks[k]))
        if got is not None:
            for i, g in zip(chunks[k], got):
                out[i]["got"] = g
    return out


def lcd_cases(P, rng, thorough):
    """parallel LCD with every subset of {rw, backlight_pin, cols, rows} (rw also as the falsy pin 0), I2C LCD with every
    subset of {cols, rows}; each in signature order, reversed, sorted by name and seeded shuffles"""
    base = [[k, P.literal("LCD.__init__", k)] for k in LCD_PIN_KEYS]
    sets = []
    for n in range(5):
        for sub in itertools.combinations(("cols", "rows", "rw", "backlight_pin"), n):
            sets.append(base + [[k, P.literal("LCD.__init__", k)] for k in sub])
            if "rw" in sub:
                sets.append(base + [[k, "0" if k == "rw" else P.literal("LCD.__init__", k)] for k in sub])
    for n in range(3):
        for sub in itertools.combinations(("cols", "rows"), n):
            sets.append([["i2c_addr", P.literal("LCD.__init__", "i2c_addr")]] + [[k, P.literal("LCD.__init__", k)] for k in sub])
    out = []
    for kw in sets:
        orders = [kw, kw[::-1], sorted(kw)]
        for _ in range(4 if thorough else 1):
            sh = list(kw)
            rng.shuffle(sh)
            orders.append(sh)
        seen = []
        for o in orders:
            if o not in seen:
                seen.append(o)
        out += seen
    return out


def run_lcd_wiring(ctx, P, rows, rng, thorough):
    kwlists = lcd_cases(P, rng, thorough)
    outs = lcd_wiring(rows, kwlists)
    stat = {"calls": len(outs), "host_raises": 0, "rejected": 0, "compared": 0, "not_observed": 0, "with_rw": 0, "with_backlight_pin": 0, "i2c": 0}
    for kw, o in zip(kwlists, outs):
        names = [k for k, _ in kw]
        if o["want"] is None:
            stat["host_raises"] += 1
            continue
        if o["got"] == "rejected":
            stat["rejected"] += 1
            continue
        if o["got"] is None:
            stat["not_observed"] += 1
            continue
        stat["compared"] += 1
        stat["with_rw"] += "rw" in names
        stat["with_backlight_pin"] += "backlight_pin" in names
        stat["i2c"] += "i2c_addr" in names
        if o["got"] != o["want"]:
            diff = {k: {"python": o["want"].get(k), "firmware": o["got"].get(k)} for k in sorted(set(o["want"]) | set(o["got"])) if o["want"].get(k) != o["got"].get(k)}
            ctx.fail(f"LCD.__init__: `{o['call']}` - the driver object of the compiled firmware is constructed with other values than Python binds: {diff}",
                     {"engine": "lcd-pins", "row": "LCD.__init__", "kwargs": kw}, {"python_binds": o["want"]}, {"firmware_driver_receives": o["got"], "differences": diff},
                     key="emit-lcd-wiring:" + "+".join(sorted(set(names) - set(LCD_PIN_KEYS))))
    if stat["not_observed"]:
        ctx.disagree("emitter stage, oracle L: accepted LCD declarations whose sketch did not compile/run under the mock core", None, None, stat)
    return stat


# ---------------------------------------------------------------------------------------------------
# oracle W: constructor arguments of the other devices, read off the compiled firmware by the ROLE a pin plays
# ---------------------------------------------------------------------------------------------------
def _last(events, tag, pred=lambda t: True):
    hit = None
    for e in events:
        t = e.split()
        if t[0] == tag and pred(t):
            hit = t
    return hit


def _w_ultra(dev, ev, pre, k):
    dw = next((e.split() for e in ev if e.startswith("DW ")), None)
    pi = _last(ev, "PI")
    want = {"trig": _num(dev.get("trig")), "echo": _num(dev.get("echo")), "pinmode_of_trig": 1, "pinmode_of_echo": 0}
    if dw is None or pi is None:
        return want, None
    got = {"trig": int(dw[1]), "echo": int(pi[1])}
    for role in ("trig", "echo"):       # the pin Python binds as trig must be the one configured as OUTPUT, echo as INPUT
        t = _last(list(pre) + list(ev), "PM", lambda t: t[1] == str(want[role]))
        got["pinmode_of_" + role] = None if t is None else int(t[2])
    return want, got


def _w_servo(dev, ev, pre, k):
    sva = [e.split() for e in pre if e.startswith("SVA ")]
    want = {"pin": _num(dev.get("pin")), "min_pulse_us": _num(dev.get("_min_pulse")), "max_pulse_us": _num(dev.get("_max_pulse"))}
    if k is None or k >= len(sva):
        return want, None
    t = sva[k]
    return want, {"pin": int(t[1]), "min_pulse_us": float(t[2]), "max_pulse_us": float(t[3])}


def _w_rgb(dev, ev, pre, k):
    pins = [_num(x) for x in (dev.get("_pins") or [])]
    got = {}
    for name, val in (("red_pin", "10"), ("green_pin", "20"), ("blue_pin", "30")):
        t = _last(ev, "AW", lambda t: t[2] == val)
        if t is None:
            return dict(zip(("red_pin", "green_pin", "blue_pin"), pins)), None
        got[name] = int(t[1])
    return dict(zip(("red_pin", "green_pin", "blue_pin"), pins)), got


def _w_motor(dev, ev, pre, k):
    pins = [_num(x) for x in (dev.get("pins") or [])]
    hi, lo, aw = _last(ev, "DW", lambda t: t[2] == "1"), _last(ev, "DW", lambda t: t[2] == "0"), _last(ev, "AW")
    want = dict(zip(("in1", "in2", "enable"), pins))
    if hi is None or lo is None or aw is None:
        return want, None
    return want, {"in1": int(hi[1]), "in2": int(lo[1]), "enable": int(aw[1])}


def _w_buzzer(dev, ev, pre, k):
    t = _last(ev, "T")
    want = {"pin": _num(dev.get("pin")), "default_frequency": _num(dev.get("default_frequency"))}
    return want, None if t is None else {"pin": int(t[1]), "default_frequency": float(t[2])}


WIRING = {
    "Ultrasonic.__init__": ("x{j} = d{j}.measure_distance()", _w_ultra),
    "Servo.__init__": ("d{j}.write(45)", _w_servo),
    "RGBLed.__init__": ("d{j}.set_color(10, 20, 30)", _w_rgb),
    "DCMotor.__init__": ("d{j}.set_speed(0.5)", _w_motor),
    "Buzzer.__init__": ("d{j}.beep()", _w_buzzer),
}


def wiring_run(rows, cases):
    rs = C.run_impl("c08_emit_impl.py", {"op": "calls", "cases": cases}) if cases else []
    out = [{"call": fmt_call(r), "want": None, "got": None, "dev": None} for r in rs]
    live = []
    for i, r in enumerate(rs):
        if "exc" in r["host"] or not isinstance(r["host"]["state"].get("dev"), dict):
            continue
        out[i]["dev"] = r["host"]["state"]["dev"]
        out[i]["want"] = WIRING[cases[i]["row"]][1](out[i]["dev"], [], [], None)[0]
        if r["status"] != "ok":
            out[i]["got"] = "rejected"
        else:
            live.append(i)
    chunks = [live[i:i + 12] for i in range(0, len(live), 12)]
    srcs = []
    for ch in chunks:
        lines = ["mon = SerialMonitor(115200)"]
        for j, i in enumerate(ch):
            lines.append(call_text(rows, cases[i], "dev").replace("dev =", f"d{j} ="))
        for j, i in enumerate(ch):
            lines += [f'mon.write("##case {j}")', WIRING[cases[i]["row"]][0].format(j=j)]
        lines.append('mon.write("##case end")')
        srcs.append("\n".join(lines) + "\n")
    tr = fw.transpile_many(srcs)
    ok = [k for k, t in enumerate(tr) if t["ok"]]
    runs = fw.run_sketches([{"cpp": tr[k]["cpp"], "input": "pi 27 580\npi 28 580\n", "loops": 0} for k in ok])
    for k, r in zip(ok, runs):
        if not r["compiled"] or r["rc"] != 0:
            continue
        pre = []
        for e in r["events"]:
            if e.startswith("S ##case "):
                break
            pre.append(e)
        cs = fw.split_cases(r["events"])
        n_servo = 0
        for j, i in enumerate(chunks[k]):
            kk = None
            if cases[i]["row"] == "Servo.__init__":
                kk, n_servo = n_servo, n_servo + 1
            ev = cs.get(str(j))
            if ev is None:
                continue
            out[i]["got"] = WIRING[cases[i]["row"]][1](out[i]["dev"], ev, pre, kk)[1]
    return out


def run_wiring(ctx, P, rows, rng, thorough):
    cases = []
    cap = 400 if thorough else 20
    for name in WIRING:
        if name not in rows:
            continue
        sig = rows[name]["sig"]
        shapes = P.accepted_shapes(sig)
        if len(shapes) > cap:
            shapes = [shapes[0], shapes[-1]] + rng.sample(shapes[1:-1], cap - 2)
        for npos, kwl in shapes:
            cases.append(P.make_case(name, sig, npos, kwl))
            if len(kwl) >= 2:
                cases.append(P.make_case(name, sig, npos, kwl[::-1]))
                sh = list(kwl)
                rng.shuffle(sh)
                if sh != kwl and sh != kwl[::-1]:
                    cases.append(P.make_case(name, sig, npos, sh))
    outs = wiring_run(rows, cases)
    stat = {"calls": len(cases), "host_raises": 0, "rejected": 0, "compared": 0, "not_observed": 0, "per_row": {}}
    for c, o in zip(cases, outs):
        if o["want"] is None:
            stat["host_raises"] += 1
        elif o["got"] == "rejected":
            stat["rejected"] += 1
        elif o["got"] is None:
            stat["not_observed"] += 1
        else:
            stat["compared"] += 1
            stat["per_row"][c["row"]] = stat["per_row"].get(c["row"], 0) + 1
            diff = {k: {"python": o["want"][k], "firmware": o["got"].get(k)} for k in o["want"]
                    if o["got"].get(k) is None or abs(float(o["want"][k]) - float(o["got"][k])) > 1e-9 * max(1.0, abs(float(o["want"][k])))}
            if diff:
                ctx.fail(f"{c['row']}: `{o['call']}` - on the compiled firmware the constructor arguments play other roles than the parameters Python binds them to: {diff}",
                         {"engine": "wiring", "row": c["row"], "pos": c["pos"], "kws": c["kws"]}, {"python_binds": o["want"]},
                         {"firmware_uses": o["got"], "differences": diff}, key="emit-wiring:" + c["row"])
    return stat


# ---------------------------------------------------------------------------------------------------
def run(ctx, P, rows, findings, info):
    rng = ctx.rng
    thorough = ctx.tier == "thorough"
    dist = {}

    # ---------------- the model's parameter -> IR-field table vs harness/impl/c08_impl.py ROWS
    model_tests = {}
    if ctx.exe:
        (summary,) = ctx.model([[4]])[0]
        m_ir = {}
        for m, k, fs in summary:
            m_ir[C.wstr(m)] = (C.wstr(k), {C.wstr(f[0]): C.wstr(f[1]) for f in fs})
            for f in fs:
                model_tests[(C.wstr(m), C.wstr(f[0]))] = (f[2], bool(f[3]))
        i_ir = {n: (r["node"], r["fields"]) for n, r in rows.items()}
        if m_ir != i_ir:
            ctx.disagree("parameter -> IR field tables differ: coq/Lang/BindEmit.v ir_table vs harness/impl/c08_impl.py ROWS", None,
                         {n: m_ir.get(n) for n in sorted(set(m_ir) | set(i_ir)) if m_ir.get(n) != i_ir.get(n)},
                         {n: i_ir.get(n) for n in sorted(set(m_ir) | set(i_ir)) if m_ir.get(n) != i_ir.get(n)})
        names = {0: "PAlways", 1: "PNotNone", 2: "PTruthy", 3: "PNoneAsZero", 4: "PUnread"}
        dist["presence_tests_regenerated"] = {}
        for (m, p), (t, g) in model_tests.items():
            key = names[t] + (" (guarded)" if g else "")
            dist["presence_tests_regenerated"][key] = dist["presence_tests_regenerated"].get(key, 0) + 1
    guarded_params = {mp for mp, (t, g) in model_tests.items() if g}

    # ---------------- transfer family: real parse+emit, real host class, model vectors
    cases = transfer_cases(P, rows, rng, thorough)
    res = []
    for i in range(0, len(cases), 1500):
        res += C.run_impl("c08_emit_impl.py", {"op": "calls", "cases": cases[i:i + 1500]}, timeout=1800)
    vecs = None
    if ctx.exe:
        vecs = [dec_vec(o) for o in ctx.model([model_vec_case(P, c) for c in cases])]
    outcome = {}
    groups = {}
    n_inside = 0
    for i, (c, r) in enumerate(zip(cases, res)):
        key = (r["status"], "host-raises" if "exc" in r["host"] else "host-ok")
        outcome["/".join(key)] = outcome.get("/".join(key), 0) + 1
        if P.covered_by(findings, c):
            continue
        if r["status"] != "ok":
            if vecs is not None and vecs[i] is not None and False:
                pass
            continue
        n_inside += 1
        groups.setdefault((c["row"], r["sha"]), []).append(i)
    dist["transfer_outcomes"] = outcome
    dist["transfer_cases"] = len(cases)
    dist["transfer_sketch_classes"] = len(groups)
    n_host_pairs = 0
    n_model_pairs = 0
    for (row, sha), members in groups.items():
        # ---- oracle T: same sketch, host tells the calls apart
        by_host = {}
        for i in members:
            h = res[i]["host"]
            if "exc" in h:
                continue
            by_host.setdefault(json.dumps(h, sort_keys=True), []).append(i)
        if len(by_host) > 1:
            for k in by_host:    # the shortest spelling of every host class first
                by_host[k].sort(key=lambda i: (len(fmt_call(res[i])), fmt_call(res[i])))
            ks = sorted(by_host, key=lambda k: (len(fmt_call(res[by_host[k][0]])), fmt_call(res[by_host[k][0]])))
            a, b = by_host[ks[0]][0], by_host[ks[1]][0]
            ha, hb = json.loads(ks[0]), json.loads(ks[1])
            diff = {k: [ha["state"].get("dev", {}).get(k), hb["state"].get("dev", {}).get(k)]
                    for k in sorted(set(ha["state"].get("dev") or {}) | set(hb["state"].get("dev") or {}))
                    if (ha["state"].get("dev") or {}).get(k) != (hb["state"].get("dev") or {}).get(k)} if isinstance(ha.get("state", {}).get("dev"), dict) and isinstance(hb.get("state", {}).get("dev"), dict) else None
            ctx.fail(f"{row}: two calls that Python binds differently (the host class ends in different states) are emitted as the identical sketch: "
                     f"`{fmt_call(res[a])}` and `{fmt_call(res[b])}` - the firmware binds at least one of them unlike Python",
                     {"engine": "transfer", "row": row, "a": cases[a], "b": cases[b]},
                     {"python_binds_a": res[a]["host"], "python_binds_b": res[b]["host"], "host_state_difference": diff},
                     {"emitted_block_of_both": res[a]["block"], "script_a": res[a]["script"], "script_b": res[b]["script"]},
                     key="emit-merge:" + row)
        n_host_pairs += max(0, len(by_host) - 1)
        # ---- correspondence: the model's firmware-argument vectors differ, the sketch does not
        if vecs is not None:
            by_vec = {}
            for i in members:
                if vecs[i] is None:
                    continue
                v = tuple(x for x in vecs[i] if (row, x[0]) not in guarded_params)
                by_vec.setdefault(v, []).append(i)
            if len(by_vec) > 1:
                ks = list(by_vec)
                a, b = by_vec[ks[0]][0], by_vec[ks[1]][0]
                ctx.disagree(f"emitter stage of row {row}: the model (coq/Lang/BindEmit.v over the regenerated EmitStage.v) gives `{fmt_call(res[a])}` and "
                             f"`{fmt_call(res[b])}` different firmware arguments, the real emitter writes the identical sketch",
                             {"engine": "model-vector", "row": row, "a": cases[a], "b": cases[b]},
                             {"a": fmt_vec(ks[0]), "b": fmt_vec(ks[1])}, {"emitted_block_of_both": res[a]["block"]})
            n_model_pairs += len(by_vec)
    if vecs is not None:
        # the model rejects / binds exactly when the real transpiler does (same rows as the IR layer, other values)
        for i, (c, r) in enumerate(zip(cases, res)):
            if P.covered_by(findings, c):
                continue
            if (vecs[i] is None) != (r["status"] != "ok") and r["status"] == "ok":
                ctx.disagree(f"emitter stage of row {c['row']}: the model rejects a call the real transpiler accepts", c, None, fmt_call(r))
    # ---------------- oracle D: a default spelled out (explicit None for an Optional parameter above all) vs the same call
    # with the argument left out.  Python binds both calls to the very same parameter values, so the transpiler must
    # reject the explicit spelling or emit the firmware of the omitted one.
    dstat = default_twins(ctx, P, rows, findings, cases, res)
    dist["default_spelled_out"] = dstat

    # ---------------- oracle L: LCD driver objects on the compiled firmware vs the pins Python binds
    if "LCD.__init__" in rows:
        dist["lcd_wiring"] = run_lcd_wiring(ctx, P, rows, rng, thorough)

    # ---------------- oracle W: constructor arguments of the other devices by the role they play on the compiled firmware
    dist["constructor_wiring"] = run_wiring(ctx, P, rows, rng, thorough)

    dist["transfer_calls_inside_guard"] = n_inside
    dist["transfer_host_distinguished_classes_checked"] = n_host_pairs
    dist["model_vector_classes"] = n_model_pairs

    # ---------------- oracle K
    pairs = twin_pairs(P, rows)
    results, kst = run_twin_pairs(rows, pairs)
    dist["constants"] = kst
    n_cmp = 0
    per_value = {}
    for pr, r in zip(pairs, results):
        if r is None:
            continue
        n_cmp += 1
        per_value[pr["value"]] = per_value.get(pr["value"], 0) + 1
        if not r["same"]:
            lit_line = call_text(rows, pr["lit"], "dev")
            twin_line = call_text(rows, pr["twin"], "dev")
            ctx.fail(f"{pr['row']}: `{lit_line}` - Python binds {pr['param']}={pr['value']} - drives the device differently from the same call with a "
                     f"run-time variable holding {pr['value']} (`{twin_line}`): the constant is not bound like the value it denotes",
                     {"engine": "constants", "row": pr["row"], "param": pr["param"], "value": pr["value"], "lit": pr["lit"], "twin": pr["twin"]},
                     {"firmware_trace_with_run_time_value": r["twin"][:40]},
                     {"firmware_trace_with_literal": r["lit"][:40], "script": single_script(rows, pr["lit"])},
                     key="emit-const:" + pr["row"] + ":" + pr["param"])
    dist["constants_compared"] = n_cmp
    dist["constants_values"] = per_value
    if kst["compile_failures"]:
        ctx.disagree("emitter stage, oracle K: a batch of accepted one-call scripts did not compile/run under the mock core", None, None, kst)
    n_extra = dstat["pairs"] + dist.get("lcd_wiring", {}).get("compared", 0) + dist["constructor_wiring"]["compared"]
    return {"evaluations": len(cases) + 2 * n_cmp + n_extra, "distribution": dist,
            "samples": [res[0]["script"], single_script(rows, pairs[0]["twin"]) if pairs else ""]}


# ---------------------------------------------------------------------------------------------------
def replay(P, data):
    case = data["case"]
    info = C.run_impl("c08_impl.py", {"op": "rows"})
    rows = info["rows"]
    if case.get("engine") == "transfer":
        rs = C.run_impl("c08_emit_impl.py", {"op": "calls", "cases": [case["a"], case["b"]]})
        for r in rs:
            print("script:\n" + r["script"] + "host: " + json.dumps(r.get("host"))[:300] + "\nsketch id: " + str(r.get("sha")))
        bad = (rs[0]["status"] == rs[1]["status"] == "ok" and rs[0]["sha"] == rs[1]["sha"]
               and "exc" not in rs[0]["host"] and "exc" not in rs[1]["host"] and rs[0]["host"] != rs[1]["host"])
        print("verdict:", "same sketch, host distinguishes" if bad else "ok")
        return 1 if bad else 0
    if case.get("engine") == "default":
        rs = C.run_impl("c08_emit_impl.py", {"op": "calls", "cases": [case["a"], case["b"]], "no_host": True})
        for r in rs:
            print("script:\n" + r["script"] + "status: " + r["status"] + "  sketch id: " + str(r.get("sha")) + "\nemitted: " + json.dumps(r.get("block")))
        bad = rs[0]["status"] == rs[1]["status"] == "ok" and rs[0]["sha"] != rs[1]["sha"] and norm_block(rs[0]["block"]) != norm_block(rs[1]["block"])
        print("verdict:", f"the default {case['param']}={case['default']} spelled out is accepted and gives another firmware than the call without it" if bad else "ok")
        return 1 if bad else 0
    if case.get("engine") == "lcd-pins":
        out = lcd_wiring(rows, [case["kwargs"]])[0]
        print("call    :", out["call"])
        print("python  :", out["want"])
        print("firmware:", out["got"])
        bad = out["got"] is not None and out["got"] != "rejected" and out["got"] != out["want"]
        print("verdict:", "the driver object is constructed with other pins than Python binds" if bad else "ok")
        return 1 if bad else 0
    if case.get("engine") == "wiring":
        o = wiring_run(rows, [{"row": case["row"], "pos": case["pos"], "kws": case["kws"]}])[0]
        print("call    :", o["call"])
        print("python  :", o["want"])
        print("firmware:", o["got"])
        bad = isinstance(o["got"], dict) and o["want"] is not None and any(
            o["got"].get(k) is None or abs(float(o["want"][k]) - float(o["got"][k])) > 1e-9 * max(1.0, abs(float(o["want"][k]))) for k in o["want"])
        print("verdict:", "constructor arguments reach other roles than Python binds" if bad else "ok")
        return 1 if bad else 0
    if case.get("engine") == "constants":
        pr = dict(case)
        results, _ = run_twin_pairs(rows, [pr])
        r = results[0]
        print("literal :", call_text(rows, pr["lit"], "dev"), "->", None if r is None else r["lit"][:20])
        print("run-time:", call_text(rows, pr["twin"], "dev"), "->", None if r is None else r["twin"][:20])
        bad = r is not None and not r["same"]
        print("verdict:", "differs" if bad else "ok")
        return 1 if bad else 0
    print("replay: correspondence record (no single failing call): re-run ./check C08")
    return 0
