"""C09 - generated firmware is memory-safe and does not leak across loop() passes.

Tie H: generated list scripts (literals, range comprehensions, append/remove - also with an ELEMENT OF A LIST as
argument, in particular of the very list that is modified: `ring.append(ring[0])`, `w.remove(w[-1])` -, indexing incl.
negative indices, `x = y` copies, re-assignment, TUPLE ASSIGNMENTS between lists (swaps, rotations, permutations; with
literals, repeated names and new names outside the guard), lists returned by user functions, lists local to the main
loop, lists passed by value to user functions, lists shared between setup() and the main loop, INDICES BUILT FROM len()
(`x[len(y) - 1]`, `x[2 - len(y)]`: the parser folds len() to the length of its parse-time copy of the list) next to append / remove of
RUN-TIME scalars (`x.remove(c + 1)`, c read from a sensor in every pass), LISTS RETURNED BY FUNCTIONS THAT RETURN ONE OF THEIR LIST
ARGUMENTS (`x = sel(y, z, c)`: a by-value struct, i.e. a shallow copy of a list chosen at run time, assigned to a declared list; also `x = ident(y)`,
`x = y`, `x = y if c > t else z`), len() INSIDE FUNCTION BODIES whose parameter carries the name of a global list of another length
(`def h(l0): return l0[len(l0) - 1]` called with l1; `for i in range(len(l0))` over the parameter; len() of a global inside a function), ONE if / elif / else (or try / except) STATEMENT IN FRONT OF THE
MAIN LOOP whose arms append / remove constants and read `x[len(y) - k]` (an earlier arm changes the length of a list whose len() a later arm
folds; the later arm is the one taken at run time; coq/Device/DListArm.v: the parser's constant environment with object identity)) are
  * run as statements by the extracted Coq model (coq/Wire/C09W.v: parser's choice of emitted form, the list helper
    templates as heap transformers, setup() + N passes of loop(), and the CPython reference semantics),
  * executed under real CPython (harness/impl/c09_impl.py: printed values, live list data after every phase),
  * transpiled by the real parser/emitter, compiled with clang++ -fsanitize=address,undefined against the mock core
    and run with REDU_HEAP=1 (allocation counter sampled after setup() and after every pass).
Correspondence: model firmware run vs real firmware (printed values, live blocks, live bytes per phase, class of the
memory error), model CPython run vs real CPython.  Oracle (statement of C09 on the real artefacts, inside the guard):
a script that CPython runs without exception must run clean under the sanitizers, and whenever CPython's live list
data (counted per object AND per name - the firmware keeps one copy per name where Python aliases, finding
F-C09-call-result-copy-heap-varies) is the same after two consecutive passes the firmware's live heap bytes are the same too.
"""
from __future__ import annotations

import itertools
import json
import re

from harness import common as C
from harness import fw

META = {
    "id": "C09",
    "technique": "Coq proof (heap model of the emitted list helper templates with value semantics; unique-ownership invariant by induction over statements, blocks and passes for every declared-before-use program; simulation of the CPython reference semantics) + extracted-model correspondence with the real transpiler's firmware compiled with clang++ ASan/UBSan and an interposed allocation counter + CPython reference run + property oracle on the sanitizer verdict and per-pass heap usage",
    "level_text": "Theorems C09_* (coq/Props/C09.v). Since the repair of __redu_list (rule of five: deep-copying copy constructor / copy assignment, buffer-stealing move constructor / move assignment, destructor) the model (coq/Device/DList.v, DListProg.v) gives lists VALUE semantics: C09_value_semantics_safe - for EVERY list program whose names are declared before they are used (guard value_ok: aliases `b = a`, by-value parameters the callee mutates, lists returned by functions incl. `a = ident(a)`, lists first assigned in the main loop, re-assignment from literals / comprehensions, ANY tuple assignment, run as the block of simple statements the compiler makes of them: every temporary / parameter is a variable with a copy constructor and a destructor) and EVERY history of passes the firmware either runs safely, every list variable then owning a distinct live block of exactly its size with NOTHING else live (no leak), or stops at an out-of-bounds index; never a use after free, never a double free (induction over statements, blocks and passes). The eight refutations of the ownership findings became C09_*_repaired (inside value_ok, CPython and firmware run, heap usage after pass 4 = after pass 1). Helper level: every list helper is safe iff Python's index condition holds and frees exactly what it replaces, also when the `const T&` argument of append/remove refers into a list buffer - of the same list included (C09_argument_alias_safe); copy assignment fills the new buffer before it releases the old one. Python simulation (heap usage = CPython's live data, no leak when it is constant): C09_python_safe_partial / C09_no_leak_partial / C09_history_* under single_owner (WITHOUT tuple assignments since the repair: their copy-based semantics is covered by C09_value_semantics_safe and by the oracle, the simulation proof was not redone), C09_len_fold_* (parser's parse-time list copies, folded len(); guard len_ok, also without tuple assignments), C09_shared_result_* (read-only sharing, guard frozen_ok). Sibling arms (coq/Device/DListArm.v, object-level model of the parser's dict of Python list objects: in-place append/remove, _copy_const_env allocates): C09_arms_folded_independently - for every well-formed parser state and every list of arms, arm k of an if / elif / else (try / except) statement is folded exactly as the arm ALONE from the snapshot in front of the statement (C09_arm_depends_on_snapshot_and_itself, C09_arms_after_setup), hence with the lengths of the straight-line program `statements in front + arm k` (C09_taken_arm_folded_like_its_path) to which C09_len_fold_safe_partial applies (C09_taken_arm_safe_partial); after the statement exactly the names some arm writes are forgotten (C09_after_arms_*); C09_arms_shared_copy_differs: the parser with one copy per statement folds the else arm with the first arm's appends. Still refuted (copies where Python aliases): C09_clone_divergence_refuted, C09_clone_out_of_bounds_refuted, C09_shared_result_heap_varies_refuted.",
    "level_note": "Trusted: Coq kernel, extraction (ExtrOcamlBasic), OCaml driver, mock Arduino core (operator new[]/delete[] interposed: live-block/byte counter), clang++ 14 AddressSanitizer/UBSan as the memory checker, CPython 3.12 as the reference. The theorems are about the Gallina heap model; the correspondence bounds its distance from emitter.py's LIST_HELPER_SNIPPET and parser.py's assignment lowering. Element values are ints; String buffers, C int overflow of range(), control flow around list statements and the heap behaviour of the real AVR allocator are outside the model.",
    "design_ref": "DESIGN.md section 4 C09",
}

BATCH = 10            # safe-expected parts per sketch
ELEM = 4              # sizeof(int) under the mock
STR_ELEM, STR_COOKIE = 32, 8      # sizeof(String) of the mock core; new String[n] stores the element count in front
STR_KINDS = (0, 2, 5, 8, 9, 10)   # what a script can do with a list of strings (append("x") / remove("x") with a literal
                                  # do not compile - template deduction String vs char[N]: C06's domain)
VALS = [0, 1, 2, 3, 5, 7, -1]
KIND_NAMES = {0: "out-of-bounds", 1: "use-after-free", 2: "double-free"}
EXC_CODE = {"IndexError": 0, "ValueError": 1, "NameError": 2}


# --------------------------------------------------------------------------
# programs: {"setup": [stmt], "body": [stmt], "N": n};  stmt = wire form
#   [0,x,[items]] x = [..]      [1,x,[a,b,st,m,c]] x = [i*m+c for i in range(a,b,st)]     [2,x,y] x = y
#   [3,x,v] x.append(v)   [4,x,v] x.remove(v)   [5,x,i] mon.write(x[i])   [6,x,i] r = f(x,i); mon.write(r)
#   [7,x,v] r = g(x,v); mon.write(r)
#   [8,x,y,i] x.append(y[i])   [9,x,y,i] x.remove(y[i])      (the argument is an element of a list - of x itself when y == x)
#   [10,[x..],[rhs..]] x1, .., xn = r1, .., rn   with rhs = [0,y] (the list y) | [1,[items]] (a literal)
#   [11,x,y] x = ident(y)   with  def ident(xs): return xs
#   [12,x,off] x.append(c + off)   [13,x,off] x.remove(c + off)      (c = p.read() at the top of every pass: a run-time scalar)
#   [14,x,y,sg,k] mon.write(x[len(y) + k]) (sg = 1)  /  mon.write(x[k - len(y)]) (sg = 0)     (len() is folded by the parser)
#   [15,x,y] for i in range(len(y)): mon.write(x[i])      (harness-level: sent to the model as the reads x[0] .. x[n-1], n = the folded len(y))
#   [16,x,y,z,t,form] x = sel_t(y, z, c) with `def sel_t(a, b, k): if k > t: return a / return b` (form 0: the call returns a by-value struct,
#       a SHALLOW copy of the list it selected at run time)  /  x = y if c > t else z (form 1)      (needs c: wire mode 1, resolved per pass)
#   [17,x,p,y,sg,k] r = h(x); mon.write(r) with `def h(l_p): return l_p[len(l_y) + k]` (sg = 1) / `l_p[k - len(l_y)]`, defined right in front of
#       `while True:`; the PARAMETER carries the list name p - it may shadow a global list of another length -, y = p: len() of the parameter
#   [18,x,p,n] r = walk(x) with `def walk(l_p): for i in range(len(l_p)): mon.write(l_p[i]) / return 0`  (harness-level: sent to the model as the
#       reads f(x, 0) .. f(x, n-1), n = the length x has whenever the statement runs: x is never modified in such a program)
#   programs with "t": True use the vocabulary of coq/Device/DListLen.v (0 1 2(x = x) 3 4 5 6 8 9 10(names only) 12 13 14 17 18) and
#   go to the model in wire mode 2 (parse-time list copies, folded len())
#   a program may carry "lines": {"head","setup","body"} - the literal script lines (witnesses of findings whose
#   statements are outside the wire vocabulary); such programs never go to the model
# --------------------------------------------------------------------------

def par(v: int) -> str:
    return f"({v})" if v < 0 else str(v)


def stmt_lines(s, elem=None):
    """elem == "str": the same statements on lists of strings (every value v is the string "v")"""
    t = s[0]
    if elem == "str":
        if t == 0:
            return [f"l{s[1]} = [" + ", ".join(f'"{v}"' for v in s[2]) + "]"]
        if t == 10:
            rhs = [f"l{r[1]}" if r[0] == 0 else "[" + ", ".join(f'"{v}"' for v in r[1]) + "]" for r in s[2]]
            return [", ".join(f"l{x}" for x in s[1]) + " = " + ", ".join(rhs)]
        if t not in STR_KINDS:
            raise ValueError(s)
    if t == 0:
        return [f"l{s[1]} = [" + ", ".join(str(v) for v in s[2]) + "]"]
    if t == 1:
        a, b, st, m, c = s[2]
        return [f"l{s[1]} = [i * {par(m)} + {par(c)} for i in range({a}, {b}, {st})]"]
    if t == 2:
        return [f"l{s[1]} = l{s[2]}"]
    if t == 3:
        return [f"l{s[1]}.append({s[2]})"]
    if t == 4:
        return [f"l{s[1]}.remove({s[2]})"]
    if t == 5:
        return [f"mon.write(l{s[1]}[{s[2]}])"]
    if t == 6:
        return [f"r = f(l{s[1]}, {s[2]})", "mon.write(r)"]
    if t == 7:
        return [f"r = g(l{s[1]}, {s[2]})", "mon.write(r)"]
    if t == 8:
        return [f"l{s[1]}.append(l{s[2]}[{s[3]}])"]
    if t == 9:
        return [f"l{s[1]}.remove(l{s[2]}[{s[3]}])"]
    if t == 10:
        rhs = [f"l{r[1]}" if r[0] == 0 else "[" + ", ".join(str(v) for v in r[1]) + "]" for r in s[2]]
        return [", ".join(f"l{x}" for x in s[1]) + " = " + ", ".join(rhs)]
    if t == 11:
        return [f"l{s[1]} = ident(l{s[2]})"]
    if t in (12, 13):
        off = s[2]
        arg = "c" if off == 0 else (f"c + {off}" if off > 0 else f"c - {-off}")
        return [f"l{s[1]}.{'append' if t == 12 else 'remove'}({arg})"]
    if t == 14:
        x, y, sg, k = s[1:]
        if sg:
            idx = f"len(l{y})" + ("" if k == 0 else (f" + {k}" if k > 0 else f" - {-k}"))
        else:
            idx = f"-len(l{y})" if k == 0 else f"{par(k)} - len(l{y})"
        return [f"mon.write(l{x}[{idx}])"]
    if t == 15:
        return [f"for i in range(len(l{s[2]})):", f"    mon.write(l{s[1]}[i])"]
    if t == 16:
        x, y, z, th, form = s[1:]
        if form == 0:
            return [f"l{x} = sel_{th}(l{y}, l{z}, c)"]
        return [f"l{x} = l{y} if c > {th} else l{z}"]
    if t == 17:
        return [f"r = {fn_name(s)}(l{s[1]})", "mon.write(r)"]
    if t == 18:
        return [f"r = {fn_name(s)}(l{s[1]})"]
    raise ValueError(s)


def fn_name(s) -> str:
    def n(v):
        return f"m{-v}" if v < 0 else str(v)
    if s[0] == 17:
        return f"h_{s[2]}_{s[3]}_{s[4]}_{n(s[5])}"
    return f"walk_{s[2]}"


def fn_def(s):
    """the `def` lines of the function a statement 17 / 18 calls"""
    if s[0] == 17:
        _, x, p_, y, sg, k = s
        if sg:
            idx = f"len(l{y})" + ("" if k == 0 else (f" + {k}" if k > 0 else f" - {-k}"))
        else:
            idx = f"-len(l{y})" if k == 0 else f"{par(k)} - len(l{y})"
        return [f"def {fn_name(s)}(l{p_}):", f"    return l{p_}[{idx}]"]
    p_ = s[2]
    return [f"def {fn_name(s)}(l{p_}):", f"    for i in range(len(l{p_})):", f"        mon.write(l{p_}[i])", "    return 0"]


def stmt_names(s):
    """every list name a statement mentions"""
    t = s[0]
    if t == 10:
        return list(s[1]) + [r[1] for r in s[2] if r[0] == 0]
    if t in (2, 8, 9, 11, 14, 15):
        return [s[1], s[2]]
    if t == 16:
        return [s[1], s[2], s[3]]
    if t == 17:
        return [s[1]] + [v for v in (s[2], s[3]) if v < FRESH]
    if t == 18:
        return [s[1]] + ([s[2]] if s[2] < FRESH else [])
    return [s[1]]


FRESH = 1000          # parameter names l1000.. never name a global list (and are not renamed when parts are combined)


def gated(prog) -> bool:
    return any(t >= 0 for t in prog.get("gates") or [])


def uses_c(prog) -> bool:
    """the script reads the run-time scalar c = p.read() at the top of every pass"""
    return bool(prog.get("arm")) or gated(prog) or any(s[0] in (12, 13, 16) for s in prog["body"])


def lines_of(prog):
    """-> (head, setup, body) source lines; body lines are relative to the `while True:` block"""
    if prog.get("lines"):
        ln = prog["lines"]
        return list(ln["head"]), list(ln["setup"]), list(ln["body"])
    stmts = prog["setup"] + prog["body"]
    head = ["from Reduino.Communication import SerialMonitor"]
    if uses_c(prog):
        head += ["from Reduino.Sensors import Potentiometer"]
    head += ["mon = SerialMonitor(9600)"]
    if uses_c(prog):
        head += ['p = Potentiometer("A0")']
    if any(s[0] == 6 for s in stmts):
        head += ["def f(xs, k):", "    return xs[k]"]
    if any(s[0] == 7 for s in stmts):
        head += ["def g(xs, v):", "    xs.append(v)", "    return xs[0]"]
    if any(s[0] == 11 for s in stmts):
        head += ["def ident(xs):", "    return xs"]
    for th in sorted({s[4] for s in stmts if s[0] == 16 and s[5] == 0}):
        head += [f"def sel_{th}(a, b, k):", f"    if k > {th}:", "        return a", "    return b"]
    if any(s[0] in (6, 7, 17, 18) for s in stmts):
        head += ["r = 0"]
    elem = prog.get("elem")
    setup = [ln for s in prog["setup"] for ln in stmt_lines(s, elem)]
    seen_fn = []
    for s in stmts:
        if s[0] in (17, 18) and fn_name(s) not in seen_fn:
            seen_fn.append(fn_name(s))
            setup += fn_def(s)          # in front of `while True:`, after every list declaration
    body = ['mon.write("-")']
    if uses_c(prog):
        body.append("c = p.read()")
        for s, t in zip(prog["body"], prog.get("gates") or [-1] * len(prog["body"])):
            if t < 0:
                body += stmt_lines(s, elem)
            else:
                body += [f"if c > {t}:"] + ["    " + ln for ln in stmt_lines(s, elem)]
    else:
        body += [ln for s in prog["body"] for ln in stmt_lines(s, elem)]
    return head, setup, body


def script_of(prog) -> str:
    head, setup, body = lines_of(prog)
    return "\n".join(head + setup + ["while True:"] + ["    " + ln for ln in body]) + "\n"


def mock_input(prog) -> str:
    return ("ar 14 " + " ".join(str(v) for v in prog["gvals"]) + "\n") if uses_c(prog) else ""


def wire_of(prog):
    if prog.get("t"):
        gates = list(prog.get("gates") or [-1] * len(prog["body"]))
        body = prog["body"]
        if any(s[0] == 18 for s in body):
            eb, eg = [], []
            for s_, g_ in zip(body, gates):
                if s_[0] == 18:
                    eb += [[6, s_[1], i] for i in range(s_[3])]
                    eg += [g_] * s_[3]
                else:
                    eb.append(s_)
                    eg.append(g_)
            body, gates = eb, eg
        if any(s[0] == 15 for s in body):
            # `for i in range(len(y)): mon.write(x[i])` = the reads x[0] .. x[n-1] with n the FOLDED len(y)
            ns = iter(track_py(prog)[2])
            eb, eg = [], []
            for s, g in zip(body, gates):
                if s[0] == 15:
                    n = max(next(ns), 0)
                    eb += [[5, s[1], i] for i in range(n)]
                    eg += [g] * n
                else:
                    eb.append(s)
                    eg.append(g)
            body, gates = eb, eg
        return [2, prog["setup"], body, gates, list(prog["gvals"])]
    if gated(prog) or any(s[0] == 16 for s in prog["body"]):
        return [1, prog["setup"], prog["body"], prog.get("gates") or [-1] * len(prog["body"]), prog["gvals"]]
    return [0, prog["setup"], prog["body"], prog["N"]]


def rename(stmts, off):
    out = []
    for s in stmts:
        s = list(s)
        if s[0] == 10:
            s[1] = [x + off for x in s[1]]
            s[2] = [[0, r[1] + off] if r[0] == 0 else [1, list(r[1])] for r in s[2]]
        else:
            s[1] += off
            if s[0] in (2, 8, 9, 11, 14, 15):
                s[2] += off
            elif s[0] == 16:
                s[2] += off
                s[3] += off
            elif s[0] == 17:
                s[2] += off if s[2] < FRESH else 0
                s[3] += off if s[3] < FRESH else 0
            elif s[0] == 18:
                s[2] += off if s[2] < FRESH else 0
        out.append(s)
    return out


def nvars(part):
    m = -1
    for s in part["setup"] + part["body"]:
        m = max([m] + stmt_names(s))
    return m + 1


def combine(parts, N):
    setup, body, gates, off = [], [], [], 0
    gvals = None
    for p in parts:
        setup += rename(p["setup"], off)
        body += rename(p["body"], off)
        gates += list(p.get("gates") or [-1] * len(p["body"]))
        if p.get("gvals"):
            gvals = p["gvals"]
        off += nvars(p)
    out = {"setup": setup, "body": body, "N": N, "gates": gates, "gvals": gvals or [0] * N}
    if parts and parts[0].get("elem"):
        out["elem"] = parts[0]["elem"]
    if parts and all(p.get("t") for p in parts):
        out["t"] = True
    return out


def history(prog):
    """the statements pass k executes (gates resolved against the run-time value of the pass, statement 16 resolved to the
    assignment from the list its call returns: [11,x,w] resp. [2,x,w]) - what coq/Wire/C09W.v mode 1 hands to the model"""
    gates = prog.get("gates") or [-1] * len(prog["body"])
    gv = prog.get("gvals") or [0] * prog["N"]
    out = []
    for k in range(prog["N"]):
        g = gv[k] if k < len(gv) else gv[-1]
        ss = []
        for st, t in zip(prog["body"], gates):
            if not t < g:
                continue
            if st[0] == 16:
                w = st[2] if st[4] < g else st[3]
                st = [11 if st[5] == 0 else 2, st[1], w]
            ss.append(st)
        out.append(ss)
    return out


def guard_fz(prog) -> bool:
    """frozen_ok of coq/Device/DListProg.v (read-only sharing), re-implemented for the oracle (cross-checked against the
    model's bit on every case that goes to the model in wire mode 0 / 1)"""
    if prog.get("lines") or prog.get("t"):
        return False
    hist = history(prog) if (uses_c(prog) or gated(prog)) else [prog["body"]] * prog["N"]
    fz = set()
    for st in prog["setup"] + [st for ss in hist for st in ss]:
        if st[0] == 11 or (st[0] == 2 and st[1] != st[2]):
            fz.update([st[1], st[2]])
    decl = []

    def use_ok3(st):
        k = st[0]
        if k in (3, 4):
            return st[1] in decl and st[1] not in fz
        if k in (5, 6):
            return st[1] in decl
        if k in (8, 9):
            return st[1] in decl and st[1] not in fz and st[2] in decl
        if k == 2:
            if st[1] == st[2]:
                return st[1] in decl
            return st[1] in decl and st[2] in decl          # both are in fz by construction
        if k == 11:
            return st[1] != st[2] and st[1] in decl and st[2] in decl
        return False

    for st in prog["setup"]:
        if st[0] in (0, 1):
            if st[1] in decl:
                return False
            decl.append(st[1])
        elif not use_ok3(st):
            return False
    return all(use_ok3(st) for ss in hist for st in ss)


def guard_py(prog) -> bool:
    """the oracle's FULL domain (memory-safety clause and leak clause): single_owner / len_ok / frozen_ok of the Coq models, or
    value_ok (every name declared before it is used; C09_value_semantics_safe) on a program whose CPython run never
    differs - name by name, after every statement - from the run with VALUE semantics (sim2: no alias is ever observable)"""
    if guard_so(prog) or guard_fz(prog):
        return True
    if not guard_vs(prog):
        return False
    d = sim2(prog)
    return bool(d and d["py_ok"] and d["same"])


def guard_safe(prog) -> bool:
    """the oracle's memory-safety-only domain: value_ok programs CPython runs without exception and whose run with VALUE
    semantics (what the repaired firmware does: `b = a`, by-value parameters, function results, tuple temporaries are
    copies) raises no IndexError either.  The leak clause is not judged here (copies where Python aliases make the amount
    of data differ: F-C09-clone-divergence-*, F-C09-call-result-copy-heap-varies)."""
    if not guard_vs(prog):
        return False
    d = sim2(prog)
    return bool(d and d["py_ok"] and d["val_ok"])


def guard_vs(prog) -> bool:
    """value_ok of coq/Device/DListProg.v on the history the passes execute (cross-checked against the model's bit):
    every name a statement uses is declared when it runs; a tuple assignment has at least as many right-hand sides as targets"""
    if prog.get("lines") or prog.get("t"):
        return False
    hist = history(prog) if (uses_c(prog) or gated(prog)) else [prog["body"]] * prog["N"]
    decl = []

    def add(x):
        if x not in decl:
            decl.append(x)

    def ok(st, in_setup):
        k = st[0]
        if k in (0, 1):
            add(st[1])
            return True
        if k in (2, 11):
            if st[2] not in decl:
                return False
            add(st[1])
            return True
        if k in (3, 4, 5, 6, 7):
            return st[1] in decl
        if k in (8, 9):
            return st[1] in decl and st[2] in decl
        if k == 10:
            xs, rs = st[1], st[2]
            if any(r[0] == 0 and r[1] not in decl for r in rs) or len(xs) > len(rs):
                return False
            for x in xs:
                add(x)
            return True
        return False

    if not all(ok(st, True) for st in prog["setup"]):
        return False
    return all(ok(st, False) for ss in hist for st in ss)


def sim2(prog):
    """CPython's semantics (names are references) and VALUE semantics (every `x = y`, by-value parameter, function result
    and tuple temporary is a copy; remove of an absent value is a no-op) side by side on the history the passes execute.
    -> {"py_ok": CPython raises nothing, "val_ok": the value-semantics run indexes inside its lists,
        "same": as long as both run, every name holds equal contents after every statement}, None for programs outside the
    vocabulary (len layer, literal lines)"""
    if prog.get("lines") or prog.get("t"):
        return None
    hist = history(prog) if (uses_c(prog) or gated(prog)) else [prog["body"]] * prog["N"]
    ref, val = {}, {}
    out = {"py_ok": True, "val_ok": True, "same": True}

    def idx(lst, i):
        return lst[i]          # IndexError when outside -len .. len-1

    def ex(st):
        k = st[0]
        # ---- CPython
        if out["py_ok"]:
            try:
                if k == 0:
                    ref[st[1]] = list(st[2])
                elif k == 1:
                    v = comp_vals(st[2])
                    if v is None:
                        raise ValueError
                    ref[st[1]] = v
                elif k in (2, 11):
                    ref[st[1]] = ref[st[2]]
                elif k in (3, 7):
                    ref[st[1]].append(st[2])
                    if k == 7:
                        idx(ref[st[1]], 0)
                elif k == 4:
                    ref[st[1]].remove(st[2])
                elif k in (5, 6):
                    idx(ref[st[1]], st[2])
                elif k == 8:
                    ref[st[1]].append(idx(ref[st[2]], st[3]))
                elif k == 9:
                    ref[st[1]].remove(idx(ref[st[2]], st[3]))
                elif k == 10:
                    vals = [ref[r[1]] if r[0] == 0 else list(r[1]) for r in st[2]]
                    if len(vals) != len(st[1]):
                        raise ValueError
                    for x, v in zip(st[1], vals):
                        ref[x] = v
                else:
                    raise KeyError(k)
            except (IndexError, ValueError, KeyError):
                out["py_ok"] = False
        # ---- value semantics
        if out["val_ok"]:
            try:
                if k == 0:
                    val[st[1]] = list(st[2])
                elif k == 1:
                    val[st[1]] = comp_vals(st[2]) or []
                elif k in (2, 11):
                    val[st[1]] = list(val[st[2]])
                elif k == 3:
                    val[st[1]].append(st[2])
                elif k == 7:
                    idx(val[st[1]] + [st[2]], 0)
                elif k == 4:
                    if st[2] in val[st[1]]:
                        val[st[1]].remove(st[2])
                elif k in (5, 6):
                    idx(val[st[1]], st[2])
                elif k == 8:
                    val[st[1]].append(idx(val[st[2]], st[3]))
                elif k == 9:
                    e = idx(val[st[2]], st[3])
                    if e in val[st[1]]:
                        val[st[1]].remove(e)
                elif k == 10:
                    vals = [list(val[r[1]]) if r[0] == 0 else list(r[1]) for r in st[2]]
                    for x, v in zip(st[1], vals):
                        val[x] = list(v)
                else:
                    raise KeyError(k)
            except (IndexError, KeyError):
                out["val_ok"] = False
        if out["py_ok"] and out["val_ok"] and ref != val:
            out["same"] = False

    for st in prog["setup"]:
        ex(st)
    for ss in hist:
        for st in ss:
            ex(st)
    if not out["val_ok"]:
        out["same"] = False
    return out


def guard_so(prog) -> bool:
    """single_owner of coq/Device/DListProg.v on the elaborated program, re-implemented for the oracle
    (cross-checked against the model's guard bit on every case)"""
    if prog.get("lines"):
        return False
    if prog.get("t"):
        return track_py(prog)[0]
    decl = []

    def use_ok(s):
        t = s[0]
        if t == 2:
            return s[1] == s[2] and s[1] in decl
        if t in (3, 4, 5, 6):
            return s[1] in decl
        if t in (8, 9):
            return s[1] in decl and s[2] in decl
        return False          # tuple assignments: outside single_owner since the value-semantics repair (value_ok covers them)

    for s in prog["setup"]:
        t = s[0]
        if t in (0, 1):
            if s[1] in decl:
                return False
            decl.append(s[1])
        elif not use_ok(s):
            return False
    if gated(prog) or any(st[0] == 16 for st in prog["body"]):
        return all(use_ok(st) for ss in history(prog) for st in ss)          # as the model: the statements the passes execute
    return all(use_ok(s) for s in prog["body"])


def swrites(s):
    """the names a statement binds or mutates (parser._written_names; DListLen.swrites)"""
    k = s[0]
    if k in (0, 1, 2, 3, 4, 8, 9, 12, 13):
        return [s[1]]
    if k == 10:
        return list(s[1])
    return []


def track_py(prog):
    """mirror of coq/Device/DListLen.v (track1, loop_env, rebound, len_ok) for the oracle's guard, cross-checked against the
    model on every case: the REPAIRED parser's parse-time copy of every list (an append / remove with a run-time argument
    and every write under an `if` take the copy away; the body of `while True:` is parsed without the copies of the names
    it writes; a function body does not fold names with more than one write site).
    -> (len_ok, [folded len() of every len() read of the body, -1 = run-time],
        [folded len() of every `for i in range(len(y))` of the body])"""
    t, decl, ok, folded, folded_for = {}, [], True, [], []
    gates = prog.get("gates") or [-1] * len(prog["body"])
    sites = [x for s in prog["setup"] + prog["body"] for x in swrites(s)]
    rebound = {x for x in sites if sites.count(x) > 1}

    def cur(x):
        v = t.get(x)
        return v if isinstance(v, list) else None

    def arg_val(s):
        # _eval_const of the argument: only a literal is a constant (a run-time scalar and ANY subscript y[i] are not)
        return s[2] if s[0] in (3, 4) else None

    def use_ok(s):
        k = s[0]
        if k == 2:
            return s[1] == s[2] and s[1] in decl
        if k in (3, 4, 5, 6, 12, 13):
            return s[1] in decl
        if k in (8, 9, 14, 15):
            return s[1] in decl and s[2] in decl
        if k == 18:
            return s[1] in decl
        if k == 17:
            x, p_, y = s[1:4]
            if x not in decl:
                return False
            if y == p_:
                return True
            if y not in decl:
                return False
            key = tuple(s[2:6])
            if key not in fenv:
                return True          # the function's first call: its list variant is parsed here, with the copies as they are now
            c0 = fenv[key].get(y)          # the copy the function body was parsed with
            return c0 is None or (cur(y) is not None and len(cur(y)) == len(c0))
        return False          # k == 10: tuple assignments are outside len_ok since the value-semantics repair

    fenv = {}

    def step(s, g, in_setup):
        nonlocal ok
        k, is_g = s[0], g >= 0
        if k in (0, 1):
            if not in_setup or s[1] in decl or is_g:
                ok = False
            if is_g:
                t[s[1]] = None
            else:
                t[s[1]] = list(s[2]) if k == 0 else None
            if s[1] not in decl:
                decl.append(s[1])
            return
        if not use_ok(s) or (is_g and in_setup) or (in_setup and k in (17, 18)):
            ok = False
        x = s[1]
        if k == 17 and tuple(s[2:6]) not in fenv:
            fenv[tuple(s[2:6])] = {z: (list(v) if isinstance(v, list) and z not in rebound else None) for z, v in t.items()}
        if k == 14 and not in_setup:
            cy = cur(s[2])
            folded.append(len(cy) if cy is not None else -1)
        elif k == 15:
            cy = cur(s[2])
            folded_for.append(len(cy) if cy is not None else -1)
        if is_g:
            for z in swrites(s):          # parsed on a private copy; forgotten after the `if`
                t[z] = None
            return
        c = cur(x) if k != 10 else None
        if k in (3, 8, 12):
            v = arg_val(s)
            if c is not None:
                if v is not None:
                    c.append(v)
                else:
                    t[x] = None
        elif k in (4, 9, 13):
            v = arg_val(s)
            if c is not None:
                if v is not None:
                    if v in c:
                        c.remove(v)
                    else:
                        ok = False          # remove_hits: CPython raises (or the list shrinks and the copy does not)
                else:
                    t[x] = None
        elif k == 2:
            t[x] = None
        elif k == 10:
            for z in s[1]:
                t[z] = None

    for s in prog["setup"]:
        step(s, -1, True)
    for s in prog["body"]:                # loop_env: the body is parsed without the copies of the names it writes
        for z in swrites(s):
            t[z] = None
    at_loop = {x: len(v) for x, v in t.items() if isinstance(v, list)}
    for s, g in zip(prog["body"], gates):
        step(s, g, False)
    for x, n in at_loop.items():
        if cur(x) is None or len(cur(x)) != n:
            ok = False
    return ok, folded, folded_for


# --------------------------------------------------------------------------
# a tiny straight-line simulation used ONLY to steer the generators towards valid programs
# (the verdicts come from the model, CPython and the firmware)
# --------------------------------------------------------------------------

def comp_vals(c):
    a, b, st, m, k = c
    return [i * m + k for i in range(a, b, st)] if st != 0 else None


def sim(prog, named=False):
    """-> live list data (named: counted per name) after setup and after each pass when plain Python would run setup + N passes without
    exception, else None"""
    env = {}

    def live():
        if named:
            return sum(len(v) for v in env.values())
        seen, tot = set(), 0
        for v in env.values():
            if id(v) not in seen:
                seen.add(id(v))
                tot += len(v)
        return tot

    def ex(s, c=0):
        t = s[0]
        if t == 12:
            env[s[1]].append(c + s[2])
        elif t == 13:
            env[s[1]].remove(c + s[2])
        elif t == 14:
            n = len(env[s[2]])
            env[s[1]][(n + s[4]) if s[3] else (s[4] - n)]
        elif t == 15:
            for i in range(len(env[s[2]])):
                env[s[1]][i]
        elif t == 16:
            env[s[1]] = env[s[2]] if c > s[4] else env[s[3]]
        elif t == 17:
            n = len(env[s[1]]) if s[3] == s[2] else len(env[s[3]])
            env[s[1]][(n + s[5]) if s[4] else (s[5] - n)]
        elif t == 18:
            if len(env[s[1]]) != s[3]:
                raise ValueError          # the harness-level expansion assumes the length never changes
        elif t == 0:
            env[s[1]] = list(s[2])
        elif t == 1:
            v = comp_vals(s[2])
            if v is None:
                raise ValueError
            env[s[1]] = v
        elif t == 2:
            env[s[1]] = env[s[2]]
        elif t == 3:
            env[s[1]].append(s[2])
        elif t == 4:
            env[s[1]].remove(s[2])
        elif t in (5, 6):
            env[s[1]][s[2]]
        elif t == 7:
            env[s[1]].append(s[2])
        elif t == 8:
            env[s[1]].append(env[s[2]][s[3]])
        elif t == 9:
            env[s[1]].remove(env[s[2]][s[3]])
        elif t == 10:
            vals = [env[r[1]] if r[0] == 0 else list(r[1]) for r in s[2]]
            if len(vals) != len(s[1]):
                raise ValueError
            for x, v in zip(s[1], vals):
                env[x] = v
        elif t == 11:
            env[s[1]] = env[s[2]]
    lives = []
    try:
        for s in prog["setup"]:
            ex(s)
        lives.append(live())
        gates = prog.get("gates") or [-1] * len(prog["body"])
        gv = prog.get("gvals") or [0] * prog["N"]
        for k in range(prog["N"]):
            for s, t in zip(prog["body"], gates):
                if t < gv[k]:
                    ex(s, gv[k])
            lives.append(live())
    except (IndexError, ValueError, KeyError):
        return None
    return lives


def gen_decl(rng, x):
    if rng.random() < 0.6:
        return [0, x, [rng.choice(VALS) for _ in range(rng.choice([1, 1, 2, 3, 4]))]]
    a = rng.choice([0, 0, 1, -2, 5])
    st = rng.choice([1, 1, 2, -1, -2])
    n = rng.choice([0, 1, 2, 3, 5])
    b = a + st * n - (rng.choice([0, 1]) if abs(st) > 1 and n > 0 else 0) * (1 if st > 0 else -1)
    return [1, x, [a, b, st, rng.choice([1, 2, -1, 0]), rng.choice([0, 1, -3])]]


def cur_lists(stmts, c=0):
    """contents after running stmts once (generator steering only)"""
    env = {}
    for s in stmts:
        t = s[0]
        try:
            if t == 12:
                env[s[1]].append(c + s[2])
            elif t == 13:
                env[s[1]].remove(c + s[2])
            elif t == 16:
                env[s[1]] = env[s[2]] if c > s[4] else env[s[3]]
            elif t == 0:
                env[s[1]] = list(s[2])
            elif t == 1:
                env[s[1]] = comp_vals(s[2]) or []
            elif t == 2:
                env[s[1]] = env[s[2]]
            elif t in (3, 7):
                env[s[1]].append(s[2])
            elif t == 4:
                env[s[1]].remove(s[2])
            elif t == 8:
                env[s[1]].append(env[s[2]][s[3]])
            elif t == 9:
                env[s[1]].remove(env[s[2]][s[3]])
            elif t == 10:
                vals = [env[r[1]] if r[0] == 0 else list(r[1]) for r in s[2]]
                for x, v in zip(s[1], vals):
                    env[x] = v
            elif t == 11:
                env[s[1]] = env[s[2]]
        except (ValueError, KeyError, IndexError):
            pass
    return env


def gen_index(rng, n):
    return rng.choice([0, -1, n - 1, -n, rng.randrange(-n, n)])


def gen_perm(rng, names):
    """a tuple assignment among 2..n of the declared names: swap, rotation or a random permutation"""
    k = rng.randint(2, min(len(names), 4))
    xs = rng.sample(names, k)
    shape = rng.choice(["rot", "rot", "swap", "perm"])
    if shape == "swap" or k == 2:
        ys = list(xs)
        ys[0], ys[1] = ys[1], ys[0]
    elif shape == "rot":
        ys = xs[1:] + xs[:1]
    else:
        ys = list(xs)
        rng.shuffle(ys)
    return [10, xs, [[0, y] for y in ys]]


def gen_use(rng, stmts, names, allow=(3, 4, 5, 6, 2, 8, 8, 9, 10)):
    """one in-guard statement that is valid right after `stmts`"""
    env = cur_lists(stmts)
    x = rng.choice(names)
    cur = env.get(x, [])
    t = rng.choice(allow)
    if t == 10:
        if len(names) >= 2:
            return gen_perm(rng, names)
        t = 8
    if t == 8:
        # the appended value is an element of a list: of x itself (argument aliasing) two times out of three
        y = x if rng.random() < 0.67 else rng.choice(names)
        if not env.get(y):
            y = x
        if env.get(y):
            return [8, x, y, gen_index(rng, len(env[y]))]
        t = 3
    if t == 9:
        if cur:
            cands = [(y, i) for y in names for i, v in enumerate(env.get(y, [])) if v in cur and (y == x or rng.random() < 0.5)]
            y, i = rng.choice(cands)
            n = len(env[y])
            return [9, x, y, rng.choice([i, i - n])]
        t = 3
    if t == 4 and not cur:
        t = 3
    if t in (5, 6) and not cur:
        t = 3
    if t == 3:
        return [3, x, rng.choice(VALS + [9, 11])]
    if t == 4:
        return [4, x, rng.choice(cur)]
    if t in (5, 6):
        n = len(cur)
        return [t, x, rng.choice([0, -1, n - 1, -n, rng.randrange(-n, n)])]
    return [2, x, x]


GPATTERNS = [[2, 0, 3, 1], [0, 3, 3, 0], [1, 1, 2, 0]]
GATES = [-1, -1, 0, 1, 2]


def gen_guard_part(rng, N, balanced, pattern=None):
    """pattern: None = ungated, else the per-pass run-time values the gates `if c > t:` are compared with"""
    def gate():
        return rng.choice(GATES) if pattern is not None else -1
    for _ in range(40):
        nv = rng.choice([1, 1, 2, 3])
        names = list(range(nv))
        setup = [gen_decl(rng, x) for x in names]
        for _ in range(rng.randint(0, 4)):
            setup.append(gen_use(rng, setup, names))
        body, gates = [], []
        if balanced:
            fresh = 100
            for _ in range(rng.randint(1, 3)):
                x = rng.choice(names)
                cur = cur_lists(setup + body).get(x, [])
                r = rng.random()
                if cur and r < 0.25:
                    # rotate through the list's own elements: x.append(x[i]); x.remove(x[j])
                    n = len(cur)
                    pair = [[8, x, x, gen_index(rng, n)], [9, x, x, rng.choice([0, -1, -(n + 1), n])]]
                elif cur and r < 0.35:
                    y = rng.choice(names)
                    if not cur_lists(setup + body).get(y):
                        y = x
                    pair = [[8, x, y, gen_index(rng, len(cur_lists(setup + body)[y]))], [9, x, x, -1]]
                elif cur and r < 0.6:
                    e = cur[0]          # rotate: remove the first occurrence, append it again
                    pair = [[4, x, e], [3, x, e]]
                else:
                    fresh += 1
                    pair = [[3, x, fresh], [4, x, fresh]]
                pos = rng.randint(0, len(body))
                body[pos:pos] = pair
                t = gate()
                gates[pos:pos] = [t, t]
            for _ in range(rng.randint(0, 3)):
                pos = rng.randint(0, len(body))
                body.insert(pos, gen_use(rng, setup + body[:pos], names, allow=(5, 6, 2, 5, 10, 10)))
                gates.insert(pos, gate())
        else:
            for _ in range(rng.randint(1, 5)):
                body.append(gen_use(rng, setup + body, names))
                gates.append(gate())
        kind = ("guard-balanced" if balanced else "guard-free") + ("-gated" if pattern is not None else "")
        part = {"setup": setup, "body": body, "N": N, "kind": kind, "gates": gates, "gvals": pattern}
        if sim(part) is not None:
            return part
    return {"setup": [[0, 0, [1, 2]]], "body": [[5, 0, -1]], "N": N, "kind": "guard-fallback", "gates": [-1], "gvals": pattern}


def gen_str_part(rng, N):
    """in-guard program over lists of STRINGS: rotation through the list's own elements, elements of other lists,
    permutations, reads - the only list operations a script can apply to string lists"""
    for _ in range(40):
        names = list(range(rng.choice([1, 2, 2, 3])))
        setup = [[0, x, [rng.choice(VALS) for _ in range(rng.choice([1, 2, 3, 4]))]] for x in names]
        for _ in range(rng.randint(0, 2)):
            setup.append(gen_use(rng, setup, names, allow=(8, 8, 9, 10, 5)))
        body = []
        for _ in range(rng.randint(1, 3)):
            x = rng.choice(names)
            env = cur_lists(setup + body)
            if not env.get(x):
                continue
            n = len(env[x])
            y = rng.choice(names) if rng.random() < 0.3 else x
            if not env.get(y):
                y = x
            pair = [[8, x, y, gen_index(rng, len(env[y]))], [9, x, x, rng.choice([0, -1, -(n + 1), n])]]
            pos = rng.randint(0, len(body))
            body[pos:pos] = pair
        for _ in range(rng.randint(0, 3)):
            pos = rng.randint(0, len(body))
            body.insert(pos, gen_use(rng, setup + body[:pos], names, allow=(5, 10, 10, 2, 5)))
        part = {"setup": setup, "body": body, "N": N, "kind": "guard-strings", "gates": [-1] * len(body), "gvals": None, "elem": "str"}
        if body and all(s[0] in STR_KINDS for s in setup + body) and sim(part) is not None:
            return part
    return {"setup": [[0, 0, [1, 2]]], "body": [[8, 0, 0, 0], [9, 0, 0, 0]], "N": N, "kind": "guard-strings", "gates": [-1, -1],
            "gvals": None, "elem": "str"}



def gen_len_part(rng, N, pattern, flavour="in"):
    """programs over the vocabulary of coq/Device/DListLen.v: indices built from len() (folded by the parser from its
    parse-time copy of the list), append / remove of the RUN-TIME scalar c + off (c = p.read() of the pass), next to the
    literal / element arguments, `x = x`, permutations, comprehension lists (no copy: run-time len).
    flavour "in": aimed at the guard len_ok (balanced pairs, gates only on reads); "out": one of the stale-copy classes
    (an append / remove / re-binding under a run-time condition, an unbalanced body, a constant remove after a run-time remove)"""
    for _ in range(80):
        cs = sorted(set(pattern))
        names = list(range(rng.choice([1, 2, 2, 3])))
        off = rng.choice([0, 0, 1, -1, 2])
        l0 = [c + off for c in cs] + [rng.choice(VALS) for _ in range(rng.choice([0, 0, 1, 2]))]
        rng.shuffle(l0)
        setup = [[0, 0, l0]] + [gen_decl(rng, x) for x in names[1:]]
        for _ in range(rng.randint(0, 3)):
            setup.append(gen_use(rng, setup, names, allow=(3, 8, 8, 4, 5, 10, 2, 3, 8)))
        if rng.random() < 0.4:
            # a len() read before the main loop (folded against the copy as it is at that line)
            pos = rng.randint(len(names), len(setup))
            env = cur_lists(setup[:pos])
            x = rng.choice(names)
            y = x if rng.random() < 0.7 else rng.choice(names)
            nx, ny = len(env.get(x, [])), len(env.get(y, []))
            if nx:
                target = rng.choice([nx - 1, 0, -1, -nx])
                setup.insert(pos, [14, x, y, 1, target - ny])
        body, gates, fresh = [], [], 200
        for _ in range(rng.randint(1, 3)):
            r = rng.random()
            x = rng.choice(names)
            cur = cur_lists(setup + body, pattern[0]).get(x, [])
            if r < 0.45:
                pair = [[13, 0, off], [12, 0, off]]       # rotation by the run-time value (l0 holds every c + off)
                if rng.random() < 0.25:
                    pair.reverse()
            elif r < 0.6 and cur:
                n = len(cur)
                pair = [[8, x, x, gen_index(rng, n)], [9, x, x, rng.choice([0, -1, -(n + 1), n])]]
            elif r < 0.8 and cur:
                e = rng.choice(cur)
                pair = [[4, x, e], [3, x, e]]
            else:
                fresh += 1
                pair = [[3, x, fresh], [4, x, fresh]]
            pos = rng.randint(0, len(body))
            body[pos:pos] = pair
            gates[pos:pos] = [-1, -1]
        if rng.random() < 0.25 and len(names) >= 2:
            pos = rng.randint(0, len(body))
            body.insert(pos, gen_perm(rng, names))        # ungated re-binding: the targets lose their copy
            gates.insert(pos, -1)
        for _ in range(rng.randint(2, 4)):
            pos = rng.randint(0, len(body))
            env = cur_lists(setup + body[:pos], pattern[0])
            x = rng.choice(names)
            y = x if rng.random() < 0.7 else rng.choice(names)
            nx, ny = len(env.get(x, [])), len(env.get(y, []))
            if nx == 0:
                continue
            sg = rng.random() < 0.7
            target = rng.choice([nx - 1, nx - 1, 0, -1, -nx, rng.randrange(-nx, nx)])
            k = target - ny if sg else target + ny
            if not sg and k < 0:
                continue
            body.insert(pos, [14, x, y, 1 if sg else 0, k])
            gates.insert(pos, rng.choice([-1, -1, -1, 0, 1, 2]))
        if rng.random() < 0.4:
            pos = rng.randint(0, len(body))
            body.insert(pos, gen_use(rng, setup + body[:pos], names, allow=(5, 6, 5)))
            gates.insert(pos, rng.choice([-1, -1, 1]))
        if flavour == "out":
            shape = rng.choice(["gate", "gate", "drop", "rebind", "pop"])
            idx = [i for i, s in enumerate(body) if s[0] in (3, 4, 8, 9, 12, 13)]
            if shape == "gate" and idx:
                gates[rng.choice(idx)] = rng.choice([0, 1, 2])
            elif shape == "drop" and idx:
                i = rng.choice(idx)
                del body[i], gates[i]
            elif shape == "rebind" and len(names) >= 2:
                pos = rng.randint(0, len(body))
                body.insert(pos, gen_perm(rng, names))
                gates.insert(pos, rng.choice([0, 1]))
            else:
                i = next((i for i, s in enumerate(body) if s[0] == 13), None)
                if i is not None:
                    e = l0[0]
                    body[i + 1:i + 1] = [[4, 0, e], [14, 0, 0, 1, -1], [3, 0, e]]
                    gates[i + 1:i + 1] = [-1, -1, -1]
        if not any(s[0] == 14 for s in body):
            continue
        part = {"setup": setup, "body": body, "N": N, "kind": "len-" + flavour, "gates": gates, "gvals": list(pattern), "t": True}
        if flavour == "in" and rng.random() < 0.4 and track_py(part)[0] and sim(part) is not None:
            # the other place a folded len() ends up in: `for i in range(len(y)): mon.write(x[i])`, y with a parse-time copy
            pos = rng.randint(0, len(body))
            env = cur_lists(setup + body[:pos], pattern[0])
            y = rng.choice(names)
            xs_ok = [x for x in names if len(env.get(x, [])) >= len(env.get(y, []))]
            body2, gates2 = list(body), list(gates)
            body2.insert(pos, [15, rng.choice(xs_ok), y])
            gates2.insert(pos, rng.choice([-1, -1, 1]))
            part2 = dict(part, body=body2, gates=gates2)
            if -1 not in track_py(part2)[2] and sim(part2) is not None:
                part = part2
        if flavour == "out" or sim(part) is not None:
            return part
    return {"setup": [[0, 0, [c for c in sorted(set(pattern))]]], "body": [[13, 0, 0], [12, 0, 0], [14, 0, 0, 1, -1]], "N": N,
            "kind": "len-fallback", "gates": [-1, -1, -1], "gvals": list(pattern), "t": True}


def gen_share_part(rng, N, pattern, flavour="in"):
    """read-only sharing (frozen_ok of coq/Device/DListProg.v): a group of lists that are only read and re-assigned among each
    other through calls that return one of their list arguments (`x = sel_t(y, z, c)`: WHICH list is decided by the run-time value
    of the pass, so the source alternates from pass to pass), `x = ident(y)`, `x = y` and conditional expressions between
    names, next to a single-owner list that takes elements of the shared ones.
    flavour "out": one of the shared names is also appended to / removed from (Python's alias diverges from the firmware's copy)"""
    for _ in range(60):
        L = rng.choice([1, 2, 3, 3, 4])
        same_len = rng.random() < 0.75
        nsrc = rng.choice([2, 2, 3])
        ntgt = rng.choice([1, 1, 2])
        names = list(range(nsrc + ntgt))
        srcs, tgts = names[:nsrc], names[nsrc:]
        lens = {x: (L if same_len else rng.choice([1, 2, 3, 4])) for x in names}
        setup = []
        for x in names:
            if rng.random() < 0.8 or not same_len:
                setup.append([0, x, [rng.choice(VALS + [9, 11]) for _ in range(lens[x])]])
            else:
                setup.append([1, x, [0, lens[x], 1, rng.choice([1, 2, -1]), rng.choice([0, 1, -3])]])
        lit = {s[1] for s in setup if s[0] == 0}
        w = None
        if rng.random() < 0.5:
            w = len(names)
            setup.append([0, w, [rng.choice(VALS) for _ in range(rng.choice([1, 2, 3]))]])
        lmin = min(lens.values())
        body, gates = [], []

        def assign():
            x = rng.choice(tgts)
            cands = [y for y in names if y != x]
            y, z = rng.sample(cands, 2)
            r = rng.random()
            plain_ok = same_len and x in lit and y in lit and z in lit          # `x = y` between lists of one static length
            if r < 0.6:
                return [16, x, y, z, rng.choice([0, 1, 2]), 0], -1
            if r < 0.75 and plain_ok:
                return [16, x, y, z, rng.choice([0, 1, 2]), 1], -1
            if r < 0.9:
                return [11, x, y], rng.choice([-1, -1, 0, 1, 2])
            if plain_ok:
                return [2, x, y], rng.choice([-1, 0, 1])
            return [16, x, y, z, rng.choice([0, 1, 2]), 0], -1

        if rng.random() < 0.3:
            st, _ = assign()
            if st[0] != 16:
                setup.append(st)          # a first copy before the main loop
        for _ in range(rng.randint(1, 3)):
            st, g = assign()
            body.append(st)
            gates.append(g)
        for _ in range(rng.randint(1, 4)):
            pos = rng.randint(0, len(body))
            x = rng.choice(names)
            body.insert(pos, [rng.choice([5, 5, 6]), x, rng.choice([0, -1, lmin - 1, -lmin, rng.randrange(-lmin, lmin)])])
            gates.insert(pos, rng.choice([-1, -1, -1, 1]))
        if w is not None:
            y = rng.choice(names)
            pair = [[8, w, y, rng.choice([0, -1, lmin - 1, -lmin])], [9, w, w, -1]]
            pos = rng.randint(0, len(body))
            body[pos:pos] = pair
            gates[pos:pos] = [-1, -1]
            if rng.random() < 0.5:
                body.append([5, w, rng.choice([0, -1])])
                gates.append(-1)
        if flavour == "out":
            x = rng.choice(names)
            pos = rng.randint(0, len(body))
            body[pos:pos] = [[3, x, 77], [4, x, 77]] if rng.random() < 0.6 else [[3, x, 77]]
            gates[pos:pos] = [-1] * (len(body) - len(gates))
        part = {"setup": setup, "body": body, "N": N, "kind": "share-" + flavour, "gates": gates, "gvals": list(pattern)}
        if flavour == "out":
            return part
        if any(s[0] == 16 for s in body) and sim(part) is not None and guard_fz(combine([part], N)):
            return part
    return {"setup": [[0, 0, [1, 2, 3]], [0, 1, [4, 5, 6]], [0, 2, [0, 0, 0]]], "body": [[16, 2, 0, 1, 1, 0], [5, 0, -1], [5, 2, 1]],
            "N": N, "kind": "share-fallback", "gates": [-1, -1, -1], "gvals": list(pattern)}


def gen_fn_part(rng, N, pattern, flavour="in"):
    """len() inside FUNCTION bodies (coq/Device/DListLen.v: fn_env, TCallLen): `def h(P): return P[len(Y) + k]` and
    `def walk(P): for i in range(len(P)): mon.write(P[i])`, defined in front of the main loop after every list declaration.
    The parameter P carries the name of a global list two times out of three - of a list whose parse-time copy has ANOTHER
    length than the argument of the call -, Y is the parameter or a global list (folded against the copy at the function's first call).
    flavour "out": the global list Y is modified between the function's first call (where its list variant is parsed and
    len(Y) folded) and a second call"""
    for _ in range(80):
        cs = sorted(set(pattern))
        nl = rng.choice([2, 2, 3])
        names = list(range(nl))
        lens = rng.sample([1, 2, 3, 4, 5], nl)                 # pairwise different lengths
        setup = []
        for x, n in zip(names, lens):
            if x == 0 or rng.random() < 0.75:
                setup.append([0, x, [rng.choice(VALS + [9]) for _ in range(n)]])
            else:
                setup.append([1, x, [0, n, 1, rng.choice([1, 2]), rng.choice([0, 1])]])
        # the list the run-time rotation works on (holds every c)
        rot = None
        if rng.random() < 0.5 or flavour == "out":
            rot = nl
            vals = list(cs) + [rng.choice(VALS) for _ in range(rng.choice([0, 1]))]
            rng.shuffle(vals)
            setup.append([0, rot, vals])
            lens = lens + [len(vals)]
            names = names + [rot]
        ln = dict(zip(names, lens))
        body, gates = [], []
        if rot is not None:
            body += [[13, rot, 0], [12, rot, 0]]
            gates += [-1, -1]
        for _ in range(rng.randint(2, 4)):
            x = rng.choice(names)
            r = rng.random()
            pcands = [q for q in names if q != x and ln[q] != ln[x]]
            p_ = rng.choice(pcands) if (pcands and r < 0.67) else (x if r < 0.8 else FRESH + rng.randrange(3))
            y = p_ if rng.random() < 0.7 else rng.choice(names)
            if y != p_ and y == rot:
                y = p_
            n = ln[x] if y == p_ else ln[y]
            nx = ln[x]
            sg = rng.random() < 0.7
            target = rng.choice([nx - 1, nx - 1, 0, -1, -nx, rng.randrange(-nx, nx)])
            k = target - n if sg else target + n
            st = [17, x, p_, y, 1 if sg else 0, k]
            if x == rot:
                pos = len(body)          # after the rotation pair: the list has its full length again
            else:
                pos = rng.randint(0, len(body))
                if rot is not None and pos == 1:
                    pos = 2 if y != rot else pos
            body.insert(pos, st)
            gates.insert(pos, rng.choice([-1, -1, -1, 0, 1]))
        if rng.random() < 0.6:
            x = rng.choice([q for q in names if q != rot])
            pcands = [q for q in names if q != x and ln[q] > ln[x]] or [q for q in names if q != x]
            p_ = rng.choice(pcands) if rng.random() < 0.75 else FRESH
            pos = rng.randint(2 if rot is not None else 0, len(body))
            body.insert(pos, [18, x, p_, ln[x]])
            gates.insert(pos, rng.choice([-1, -1, 1]))
        if rng.random() < 0.5:
            x = rng.choice([q for q in names if q != rot])
            pos = rng.randint(2 if rot is not None else 0, len(body))
            body.insert(pos, [14, x, x, 1, -1])
            gates.insert(pos, -1)
        if flavour == "out":
            # len(<global rot>) is folded where the function is parsed - at its FIRST call -; the second call stands between
            # the run-time remove and the append
            call = [17, rot, FRESH + 1, rot, 1, -1]
            body[1:1] = [list(call)]
            gates[1:1] = [-1]
            body[0:0] = [list(call)]
            gates[0:0] = [rng.choice([-1, -1, 2])]
        part = {"setup": setup, "body": body, "N": N, "kind": "fn-" + flavour, "gates": gates, "gvals": list(pattern), "t": True}
        if flavour == "out":
            return part
        if track_py(part)[0] and sim(part) is not None:
            return part
    return {"setup": [[0, 0, [1, 2, 3]], [0, 1, [7]]], "body": [[17, 1, 0, 0, 1, -1], [18, 1, 0, 1]], "N": N, "kind": "fn-fallback",
            "gates": [-1, -1], "gvals": list(pattern), "t": True}


def gen_index_error_part(rng, N):
    part = gen_guard_part(rng, N, rng.random() < 0.5)
    where = rng.choice(["setup", "body"])
    seq = part[where]
    pos = rng.randint(0, len(seq))
    prefix = part["setup"] + (part["body"][:pos] if where == "body" else [])
    if where == "setup":
        prefix = part["setup"][:pos]
    env = cur_lists(prefix)
    names = sorted(env) or [0]
    if not env:
        return None
    x = rng.choice(names)
    n = len(env[x])
    i = rng.choice([n, n, n + 1, -n - 1, -n - 5, -n - 6, n + 3])
    t = rng.choice([5, 5, 6, 8, 8, 9])
    if t in (8, 9):
        seq.insert(pos, [t, rng.choice(names), x, i])      # x2.append(x[i]) / x2.remove(x[i]) with i out of range
    else:
        seq.insert(pos, [t, x, i])
    if where == "body":
        part["gates"].insert(pos, -1)
    part["kind"] = "index-error"
    return part


def gen_outside_part(rng, N):
    """aliasing, re-assignment, loop locals, by-value mutation: outside the single-owner guard"""
    kind = rng.choice(["alias", "alias", "reassign", "looplocal", "byvalue", "mixed", "clone", "tuple", "tuple", "ret"])
    a = [0, 0, [rng.choice(VALS) for _ in range(rng.choice([1, 2, 3]))]]
    setup, body = [a], []
    slen = {0: len(a[2])}
    if kind == "alias":
        setup.append([2, 1, 0])
        ops = [[3, 0, 9], [3, 1, 8], [5, 0, 0], [5, 1, 0], [5, 1, -1], [4, 0, a[2][0]], [6, 1, 0], [2, 1, 0], [2, 0, 1],
               [0, 1, [5] * len(a[2])], [2, 1, 1]]
        for _ in range(rng.randint(1, 4)):
            (setup if rng.random() < 0.5 else body).append(rng.choice(ops))
    elif kind == "clone":
        # c declared by its own literal (same static length), then `c = a`: __redu_list_assign deep copy
        setup.append([0, 1, [rng.choice(VALS) for _ in range(slen[0])]])
        (setup if rng.random() < 0.6 else body).append([2, 1, 0])
        ops = [[3, 1, 5], [4, 0, 5], [3, 0, 6], [4, 1, 6], [5, 0, -1], [5, 1, 0], [3, 0, 8], [4, 0, 8], [2, 1, 0], [2, 0, 1]]
        for _ in range(rng.randint(1, 4)):
            body.append(rng.choice(ops))
    elif kind == "tuple":
        # tuple assignments that are NOT a permutation of declared names: a literal on the right (the target's old
        # buffer is dropped without delete[]), the same name twice (two owners), undeclared targets (struct copies)
        b = [0, 1, [rng.choice(VALS) for _ in range(rng.choice([1, 2, 3]))]]
        setup.append(b)
        shape = rng.choice(["lit", "lit", "dup", "new", "lit2", "self-elem"])
        where = body if rng.random() < 0.7 else setup
        if shape == "lit":
            where.append([10, [0, 1], [[1, [rng.choice(VALS) for _ in range(slen[0])]], [0, 0]]])
        elif shape == "lit2":
            where.append([10, [0, 1], [[1, [7] * slen[0]], [1, [8] * len(b[2])]]])
        elif shape == "dup":
            where.append([10, [0, 1], [[0, 1], [0, 1]]])
            body += rng.choice([[[5, 0, 0]], [[3, 0, 9], [5, 1, 0]], [[3, 1, 9], [4, 1, 9], [5, 0, -1]]])
        elif shape == "new":
            # all targets new: at top level two global struct copies, in the loop two locals of loop()
            where.append([10, [2, 3], [[0, 1], [0, 0]]])
            (body if where is body or rng.random() < 0.5 else setup).append([5, 2, 0])
            if rng.random() < 0.5:
                body += [[3, 0, 9], [5, 3, 0]]
        else:
            where.append([10, [0, 1], [[0, 1], [0, 0]]])
            body += [[8, 0, 1, 0], [9, 0, 0, -1]]
        body.append([5, 0, -1])
    elif kind == "ret":
        # x = ident(y): __redu_list_assign from a temporary struct copy of y (x == y: the deleted buffer is the source)
        setup.append([0, 1, [rng.choice(VALS) for _ in range(slen[0])]])
        shape = rng.choice(["self", "self", "other", "new"])
        where = body if rng.random() < 0.6 else setup
        if shape == "self":
            where.append([11, 0, 0])
        elif shape == "other":
            where.append([11, 1, 0])
            body += rng.choice([[[5, 1, 0]], [[3, 1, 5], [4, 1, 5]], [[3, 0, 5], [5, 1, -1], [4, 0, 5]]])
        else:
            where.append([11, 2, 0])
            body += [[5, 2, 0]]
        body.append([5, 0, 0])
    elif kind == "reassign":
        where = body if rng.random() < 0.7 else setup
        if rng.random() < 0.5:
            where.append([0, 0, [rng.choice(VALS) for _ in range(slen[0])]])
        else:
            where.append([1, 0, [0, slen[0], 1, rng.choice([1, 2]), rng.choice([0, 1])]])
        where.append([5, 0, -1])
        if rng.random() < 0.5:
            body += [[3, 0, 50], [4, 0, 50]]
    elif kind == "looplocal":
        t = gen_decl(rng, 1)
        body.append(t)
        n = len(t[2]) if t[0] == 0 else len(comp_vals(t[2]) or [])
        if n:
            body.append([5, 1, rng.choice([0, -1, n - 1])])
        if rng.random() < 0.4:
            body.append([2, 2, 0])          # w = a (struct copy local to loop())
            body.append([5, 2, 0])
            if rng.random() < 0.5:
                body += [[3, 0, 60], [4, 0, 60], [5, 2, 0]]
        if rng.random() < 0.3:
            body += [[3, 1, 4], [5, 1, -1]]
    elif kind == "byvalue":
        seq = [[7, 0, 9], [5, 0, 0]]
        if rng.random() < 0.5:
            seq = [[7, 0, 9]]
        if rng.random() < 0.5:
            setup += seq
        else:
            body += seq
    else:
        setup.append([2, 1, 0])
        body += [[0, 2, [1, 2]], [3, 0, 70], [4, 0, 70], [5, 2, 1]]
        if rng.random() < 0.5:
            body.append([5, 1, 0])
    if not body:
        body.append([5, 0, 0])
    return {"setup": setup, "body": body, "N": N, "kind": "outside-" + kind}


def gen_value_part(rng, N, flavour):
    """a program inside the region the value-semantics repair opened (C09_value_semantics_safe): aliases `b = a` into new and
    declared names, re-assignment from literals / comprehensions, lists first assigned in the main loop, a callee that
    mutates its by-value list parameter, `x = ident(y)` / `a = ident(a)`, tuple assignments with literals, repeated names, new
    targets and permutations.  flavour "rebind": only re-binding statements and reads (CPython's aliases are never
    observable: full oracle domain, leak clause included); "mutate": appends / removes / by-value mutation mixed in (the
    memory-safety clause; the leak clause where the two semantics still agree).  Every list has the static length L when it
    is (re)assigned (the transpiler rejects `x = <list of another known length>` on a declared list)."""
    for _ in range(60):
        L = rng.choice([1, 2, 2, 3])
        nv = rng.choice([2, 2, 3])
        names = list(range(nv))
        fresh = [nv]

        def lit():
            return [rng.choice(VALS) for _ in range(L)]

        def decl(x):
            if rng.random() < 0.7:
                return [0, x, lit()]
            return [1, x, [0, L, 1, rng.choice([1, 2, -1]), rng.choice([0, 1, -3])]]

        def new_name():
            fresh[0] += 1
            return fresh[0] - 1

        def rebind(known, in_body):
            x, y = rng.choice(known), rng.choice(known)
            r = rng.choice(["alias-new", "clone", "relit", "relit", "ident-self", "ident", "ident-new", "tuple-lit", "tuple-lit2",
                            "tuple-dup", "tuple-new", "perm", "local", "read", "read", "call-read"])
            if r == "alias-new":
                z = new_name()
                known.append(z)
                return [[2, z, y]]
            if r == "clone":
                return [[2, x, y]]
            if r == "relit":
                return [decl(x)]
            if r == "ident-self":
                return [[11, x, x]]
            if r == "ident":
                return [[11, x, y]]
            if r == "ident-new":
                z = new_name()
                known.append(z)
                return [[11, z, y]]
            if r == "tuple-lit":
                return [[10, [x, y] if x != y else [x], [[1, lit()], [0, x]][:2 if x != y else 1]]]
            if r == "tuple-lit2" and x != y:
                return [[10, [x, y], [[1, lit()], [1, lit()]]]]
            if r == "tuple-dup" and x != y:
                return [[10, [x, y], [[0, y], [0, y]]]]
            if r == "tuple-new":
                z, w = new_name(), new_name()
                known.extend([z, w])
                return [[10, [z, w], [[0, y], [0, x]]]]
            if r == "perm" and len(known) >= 2:
                return [gen_perm(rng, known)]
            if r == "local" and in_body:
                z = new_name()
                known.append(z)
                return [decl(z), [5, z, rng.choice([0, -1])]]
            if r == "call-read":
                return [[6, x, rng.choice([0, -1, L - 1, -L])]]
            return [[5, x, rng.choice([0, -1, L - 1, -L])]]

        def mutate(known):
            x, y = rng.choice(known), rng.choice(known)
            r = rng.choice(["byvalue", "byvalue", "pair", "pair", "append", "elem", "rot"])
            if r == "byvalue":
                return [[7, x, rng.choice([9, 11])]] + ([[5, x, rng.choice([0, -1])]] if rng.random() < 0.6 else [])
            if r == "pair":
                v = rng.choice([50, 60, 70])
                return [[3, x, v], [4, x, v]]
            if r == "append":
                return [[3, x, rng.choice(VALS)], [5, y, rng.choice([0, -1])]]
            if r == "elem":
                return [[8, x, y, rng.choice([0, -1])]]
            return [[8, x, x, 0], [9, x, x, 0]]

        setup = [decl(x) for x in names]
        known = list(names)
        for _ in range(rng.randint(0, 3)):
            setup += rebind(known, False) if (flavour == "rebind" or rng.random() < 0.6) else mutate(known)
        body = []
        for _ in range(rng.randint(1, 4)):
            body += rebind(known, True) if (flavour == "rebind" or rng.random() < 0.55) else mutate(known)
        body.append([5, rng.choice(names), rng.choice([0, -1])])
        part = {"setup": setup, "body": body, "N": N, "kind": "value-" + flavour}
        if guard_vs(part) and guard_safe(part) and (flavour == "mutate" or guard_py(part)):
            return part
    return {"setup": [[0, 0, [1, 2]]], "body": [[2, 1, 0], [5, 1, -1]], "N": N, "kind": "value-fallback"}


EX_ALPHABET = [[3, 0, 5], [4, 0, 5], [4, 0, 1], [5, 0, -1], [5, 0, 1], [5, 0, 2], [2, 0, 0], [2, 1, 0], [0, 0, [7, 8]],
               [5, 1, 0], [3, 1, 6], [7, 0, 9], [6, 0, -2], [8, 0, 0, -1], [9, 0, 0, 0], [11, 0, 0]]


def gen_exhaustive_parts(max_len, N):
    parts = []
    for L in range(1, max_len + 1):
        for seq in itertools.product(range(len(EX_ALPHABET)), repeat=L):
            stmts = [list(EX_ALPHABET[i]) for i in seq]
            has_l1 = False
            ok = True
            for s in stmts:
                if s[0] == 2 and s[1] == 1:
                    has_l1 = True
                elif s[1] == 1 and not has_l1:
                    ok = False          # l1 used before any assignment: NameError in Python, not a list script
                    break
            if not ok:
                continue
            parts.append({"setup": [[0, 0, [1, 2]]], "body": stmts, "N": N, "kind": f"exhaustive-{L}"})
    return parts


# --------------------------------------------------------------------------
# running
# --------------------------------------------------------------------------

# --------------------------------------------------------------------------
# sibling arms of ONE if / elif / else (try / except) statement in front of the main loop (coq/Device/DListArm.v, wire mode 3)
# --------------------------------------------------------------------------

ARM_FORMS = ["if-else", "if-elif-else", "if-elif-else", "if-elif", "try-except"]


def arm_stmt_lines(s):
    """an arm statement; the run-time scalar of setup code is c0 = p.read() (first reading, always 0)"""
    return [re.sub(r"\bc\b", "c0", ln) for ln in stmt_lines(s)]


def arm_lines(prog_arm):
    """-> the source lines of the if / try statement"""
    a = prog_arm
    arms, k, form, sel = a["arms"], a["taken"], a["form"], a["sel"]
    out = []
    if form == "try-except":
        heads = ["try:", "except Exception:"]
    else:
        heads = []
        for j in range(len(arms)):
            if form.endswith("else") and j == len(arms) - 1:
                heads.append("else:")
                continue
            if sel == "mode":
                cond = f"mode == {j}"
            else:
                cond = "c0 > 0" if j < k else ("c0 > -1" if j == k else "c0 > 5")
            heads.append(("if " if j == 0 else "elif ") + cond + ":")
    for h, arm in zip(heads, arms):
        out.append(h)
        body = [ln for s_ in arm for ln in arm_stmt_lines(s_)] or ["mon.write(0)"]
        out += ["    " + ln for ln in body]
    return out


def arm_prog(a, N, pattern):
    """a = {"pre", "arms", "taken", "form", "sel", "body"} -> program with literal lines (never batched: one sketch each)"""
    head = ["from Reduino.Communication import SerialMonitor", "from Reduino.Sensors import Potentiometer",
            "mon = SerialMonitor(9600)", 'p = Potentiometer("A0")']
    setup = [ln for s_ in a["pre"] for ln in stmt_lines(s_)] + ["c0 = p.read()"]
    if a["sel"] == "mode" and a["form"] != "try-except":
        setup.append(f"mode = {a['taken']}")
    setup += arm_lines(a)
    setup += [ln for s_ in a.get("post", []) for ln in stmt_lines(s_)]
    body = ['mon.write("-")', "c = p.read()"] + [ln for s_ in a["body"] for ln in stmt_lines(s_)]
    return {"lines": {"head": head, "setup": setup, "body": body}, "setup": [], "body": [], "N": N, "gates": [],
            "gvals": [0] + list(pattern), "arm": a, "kind": "arm-" + a["form"]}


def arm_wire(prog):
    a = prog["arm"]
    return [3, a["pre"], a["arms"], a["taken"], a.get("post", []), a["body"], list(prog["gvals"][1:])]


def gen_arm_part(rng, N, pattern, form=None, focus=True):
    """literal-initialised lists, constant appends / removes at top level, then ONE if / elif / else (or try / except) statement
    whose arms append / remove CONSTANTS (rarely a run-time scalar: the name loses its copy) and read `x[len(y) + k]` / `x[k - len(y)]`
    (target index boundary-heavy: last, first, -1, -len - valid for the list AS THE ARM ITSELF leaves it, i.e. valid under CPython
    when that arm is the one taken), then a balanced main loop.  focus: an EARLIER arm changes the length of a list whose len() a LATER
    arm folds, and that later arm is the one taken at run time."""
    form = form or rng.choice(ARM_FORMS)
    cs = sorted(set(pattern))
    for _ in range(60):
        base = {0: cs + [rng.choice([11, 12, 13]) for _ in range(rng.choice([0, 1, 2]))],
                1: [rng.choice([21, 22, 23, 24]) for _ in range(rng.choice([1, 2, 3]))]}
        rng.shuffle(base[0])
        pre = [[0, 0, list(base[0])], [0, 1, list(base[1])]]
        names = [0, 1]
        if rng.random() < 0.3:
            pre.append([1, 2, [0, rng.choice([1, 2, 3]), 1, 1, 0]])      # a comprehension list: no parse-time copy
            base[2] = list(range(pre[-1][2][1]))
            names.append(2)
        for _ in range(rng.choice([0, 0, 1, 2])):
            x = rng.choice([0, 1])
            if rng.random() < 0.7:
                v = rng.choice([31, 32, 33])
                pre.append([3, x, v])
                base[x].append(v)
            else:
                cand = [v for v in base[x] if v not in cs]
                if cand and len(base[x]) > 1:
                    v = rng.choice(cand)
                    pre.append([4, x, v])
                    base[x].remove(v)
        n_arms = {"if-else": 2, "if-elif-else": 3, "if-elif": rng.choice([2, 3]), "try-except": 2}[form]
        arms, finals, writes, reads = [], [], [], []
        for j in range(n_arms):
            cur = {x: list(v) for x, v in base.items()}
            arm, wr, rd, force = [], set(), set(), []
            if form == "try-except" and j == 0 and rng.random() < 0.6:
                # the try arm always runs: a constant remove there must be forgotten AFTER the statement
                x = rng.choice([0, 1])
                cand = [v for v in cur[x] if v not in cs]
                if cand and len(cur[x]) >= 2:
                    v = rng.choice(cand)
                    arm.append([4, x, v])
                    cur[x].remove(v)
                    wr.add(x)
            for _ in range(rng.choice([0, 1, 1, 2, 3])):
                x = rng.choice([0, 1])
                r = rng.random()
                if r < 0.55:
                    v = rng.choice([41, 42, 43, 44])
                    arm.append([3, x, v])
                    cur[x].append(v)
                elif r < 0.8:
                    cand = [v for v in cur[x] if v not in cs]
                    if not cand or len(cur[x]) < 2:
                        continue
                    v = rng.choice(cand)
                    arm.append([4, x, v])
                    cur[x].remove(v)
                elif r < 0.88:
                    off = rng.choice([51, 52])
                    arm.append([12, x, off])
                    cur[x].append(off)               # c0 = 0
                else:
                    cand = [v for v in cur[x] if v not in cs and v != 0]
                    if not cand or len(cur[x]) < 2:
                        continue
                    v = rng.choice(cand)
                    arm.append([13, x, v])
                    cur[x].remove(v)
                    force.append(x)
                wr.add(x)
            for _ in range(rng.choice([1, 1, 2, 3])):
                x = rng.choice(names)
                y = x if rng.random() < 0.75 else rng.choice(names)
                nx, ny = len(cur[x]), len(cur[y])
                if nx == 0:
                    continue
                sg = rng.random() < 0.75
                target = rng.choice([nx - 1, nx - 1, nx - 1, 0, -1, -nx, rng.randrange(-nx, nx)])
                k = target - ny if sg else target + ny
                if not sg and k < 0:
                    continue
                arm.insert(rng.randint(0, len(arm)) if rng.random() < 0.3 else len(arm), [14, x, y, 1 if sg else 0, k])
                rd.add(y)
            for x in force:
                arm.append([14, x, x, 1, -1])       # the last element of a list a run-time remove has just shrunk
            if rng.random() < 0.3:
                x = rng.choice(names)
                if cur[x]:
                    arm.append([5, x, gen_index(rng, len(cur[x]))])
            arms.append(arm)
            writes.append(wr)
            reads.append(rd)
        # reads placed in front of a mutation were computed against the final lengths: re-validate every arm under CPython's order
        def arm_ok(arm):
            cur = {x: list(v) for x, v in base.items()}
            for s_ in arm:
                if s_[0] == 3:
                    cur[s_[1]].append(s_[2])
                elif s_[0] == 4:
                    if s_[2] not in cur[s_[1]]:
                        return None
                    cur[s_[1]].remove(s_[2])
                elif s_[0] == 12:
                    cur[s_[1]].append(s_[2])
                elif s_[0] == 13:
                    if s_[2] not in cur[s_[1]]:
                        return None
                    cur[s_[1]].remove(s_[2])
                elif s_[0] == 14:
                    i = len(cur[s_[2]]) + s_[4] if s_[3] else s_[4] - len(cur[s_[2]])
                    if not -len(cur[s_[1]]) <= i < len(cur[s_[1]]):
                        return None
                elif s_[0] == 5:
                    if not -len(cur[s_[1]]) <= s_[2] < len(cur[s_[1]]):
                        return None
            return cur
        finals = [arm_ok(a_) for a_ in arms]
        if any(f is None for f in finals):
            continue
        # the pairs (earlier arm writes x, later arm folds len(x))
        pairs = [(i, j) for j in range(n_arms) for i in range(j) if writes[i] & reads[j]]
        if form == "try-except":
            taken = 0
        elif focus:
            rt_arms = [j for j, a_ in enumerate(arms) if any(s_[0] == 13 for s_ in a_)]
            if rt_arms and rng.random() < 0.5:
                taken = rng.choice(rt_arms)
            elif not pairs:
                continue
            else:
                taken = rng.choice(pairs)[1]
        else:
            taken = rng.randrange(n_arms)
        if form == "if-elif" and rng.random() < 0.15 and not focus:
            taken = n_arms           # no arm taken
        cur = finals[taken] if taken < n_arms else {x: list(v) for x, v in base.items()}
        # top-level reads AFTER the statement (the names some arm writes are forgotten there: run-time len)
        post = []
        wr_taken = sorted(writes[taken]) if taken < n_arms else []
        if rng.random() < 0.7:
            for _ in range(rng.choice([1, 1, 2])):
                x = rng.choice(wr_taken) if wr_taken and rng.random() < 0.7 else rng.choice(names)
                y = x if rng.random() < 0.75 else rng.choice(names)
                nx, ny = len(cur[x]), len(cur[y])
                if nx == 0:
                    continue
                sg = rng.random() < 0.75
                target = rng.choice([nx - 1, nx - 1, 0, -1, -nx])
                k = target - ny if sg else target + ny
                if not sg and k < 0:
                    continue
                post.append([14, x, y, 1 if sg else 0, k])
        if taken < n_arms:
            # a list the taken arm SHRANK: its last element is read after the statement (a length kept from before would be too long)
            for x in sorted({s_[1] for s_ in arms[taken] if s_[0] in (4, 13)}):
                if cur[x] and (form == "try-except" or rng.random() < 0.6):
                    post.append([14, x, x, 1, -1])
        # a balanced main loop over the lists as the taken arm left them
        body = []
        r = rng.random()
        if r < 0.5:
            body = [[13, 0, 0], [12, 0, 0]]
            if rng.random() < 0.3:
                body.reverse()
        elif r < 0.8:
            x = rng.choice([0, 1])
            body = [[3, x, 61], [4, x, 61]]
        x = rng.choice([0, 1])
        y = x if rng.random() < 0.7 else rng.choice([0, 1])
        if wr_taken and rng.random() < 0.5:
            x = y = rng.choice(wr_taken)
        # lengths at the read position: the body is balanced, a read between the two halves sees one element more / less
        pos = rng.randint(0, len(body))
        env = {z: list(v) for z, v in cur.items()}
        for s_ in body[:pos]:
            if s_[0] in (3, 12):
                env[s_[1]].append(0)
            else:
                env[s_[1]].pop()
        nx, ny = len(env[x]), len(env[y])
        if nx == 0:
            continue
        target = rng.choice([nx - 1, 0, -1, -nx])
        body.insert(pos, [14, x, y, 1, target - ny])
        a = {"pre": pre, "arms": arms, "taken": taken, "form": form, "sel": rng.choice(["mode", "mode", "c0"]), "body": body, "post": post,
             "focus": bool(pairs) and taken < n_arms and any(j == taken for _, j in pairs)}
        if form == "if-elif" and taken >= n_arms:
            a["sel"] = "mode"
        return arm_prog(a, N, pattern)
    return None


def emitted_arm_lens(cpp, prog):
    """the lengths the real parser folded in the arms, read off the emitted setup(): one entry per [14] statement of every arm in
    source order (-1: emitted as the run-time __redu_len) -> list per arm, then one list for the statements after the if / try statement
    | None when the text has another shape"""
    try:
        body = cpp[cpp.index("void setup()"):cpp.index("void loop()")]
    except ValueError:
        return None
    gets = []
    for ln in body.splitlines():
        i = ln.find("__redu_list_get(")
        if i >= 0:
            inner = ln[i + len("__redu_list_get("):]
            inner = inner[inner.index(",") + 1:]
            gets.append(inner)
    out, it = [], iter(gets)
    for arm in list(prog["arm"]["arms"]) + [prog["arm"].get("post", [])]:
        row = []
        for s_ in arm:
            if s_[0] not in (14, 5):
                continue
            idx = next(it, None)
            if idx is None:
                return None
            if s_[0] == 5:
                continue
            if "__redu_len" in idx:
                row.append(-1)
                continue
            ints = [int(v) for v in re.findall(r"(?<![\w.])-?\d+", idx)]
            if not ints:
                return None
            if s_[3]:
                row.append(ints[0])
            else:
                row.append(abs(ints[0]) if s_[4] == 0 else abs(ints[-1]))
        out.append(row)
    if next(it, None) is not None:
        return None
    return out


def model_arm_lens(m, prog, which=4):
    """the model's folded lengths restricted to the [14] statements (wire: one entry per statement)"""
    out = []
    for arm, row in zip(prog["arm"]["arms"], m[which]):
        out.append([v for s_, v in zip(arm, row) if s_[0] == 14])
    if len(m) > 6:
        out.append([v for s_, v in zip(prog["arm"].get("post", []), m[6][0]) if s_[0] == 14])
    return out


def classify_stderr(r) -> int | None | str:
    """class of the sanitizer report: 0 out-of-bounds (incl. null), 1 use-after-free, 2 double free; None = clean"""
    heaperr = any(e.startswith("HEAPERR") for e in r["events"])
    if r["rc"] == 0 and not heaperr:
        return None
    se = r["stderr"]
    if "attempting double-free" in se:
        return 2
    if "heap-use-after-free" in se:
        m = re.search(r"SUMMARY: AddressSanitizer: heap-use-after-free [^\n]* in ([^\n]*)", se)
        return 2 if (m and "operator delete" in m.group(1)) else 1
    if "heap-buffer-overflow" in se:
        return 0
    if "null pointer" in se or "SEGV" in se:
        return 0
    if heaperr:
        return 2
    return "other"


def fw_phases(events):
    """-> [(outs, blocks, bytes)] for setup and every pass"""
    pre, setup, loops = fw.split_phases(events)
    out = []
    for ph in [setup] + loops:
        outs, heap = [], None
        for e in ph:
            if e.startswith("S "):
                t = e[2:].strip()
                if re.fullmatch(r"-?\d+", t):
                    outs.append(int(t))
            elif e.startswith("HEAP "):
                f = e.split()
                heap = (int(f[1]), int(f[2]))
        out.append((outs, heap[0] if heap else None, heap[1] if heap else None))
    return out


def run_all(progs):
    """-> list of {"py": reference result, "tr": transpile result, "fw": run result | None, "script"}"""
    jobs = []
    for p in progs:
        head, setup, body = lines_of(p)
        jobs.append({"head": [ln for ln in head if "Potentiometer" not in ln], "setup": setup, "body": body, "N": p["N"],
                     "gvals": p["gvals"] if uses_c(p) else None})
    pys = []
    for i in range(0, len(jobs), 400):
        pys += C.run_impl("c09_impl.py", {"jobs": jobs[i:i + 400]})
    scripts = [script_of(p) for p in progs]
    trs = fw.transpile_many(scripts)
    sk, where = [], []
    for n, (p, t) in enumerate(zip(progs, trs)):
        if t.get("ok"):
            sk.append({"cpp": t["cpp"], "loops": p["N"], "env": {"REDU_HEAP": "1"}, "run_timeout": 60, "input": mock_input(p)})
            where.append(n)
    res = [None] * len(progs)
    for n, r in zip(where, fw.run_sketches(sk, san=True)):
        res[n] = r
    return [{"py": py, "tr": t, "fw": r, "script": s} for py, t, r, s in zip(pys, trs, res, scripts)]


def py_ok(py, N) -> bool:
    ph = py.get("phases", [])
    return "head_exc" not in py and len(ph) == N + 1 and all("exc" not in q for q in ph)


def oracle(prog, res, leak=True):
    """the statement of C09 on the real artefacts -> list of (key, what, expected, observed); leak=False: memory-safety clause only"""
    out = []
    r = res["fw"]
    if r is None or not r.get("compiled"):
        return out          # not a C09 matter (C01/C06); reported as a disagreement by the caller
    cls = classify_stderr(r)
    if cls is not None:
        name = KIND_NAMES.get(cls, str(cls))
        tail = [ln for ln in r["stderr"].splitlines() if "SUMMARY" in ln or "runtime error" in ln][-2:]
        out.append((f"memory-error-{name}", f"CPython runs the script without exception, the firmware has a memory error ({name})",
                    "clean run under ASan/UBSan", {"class": name, "rc": r["rc"], "report": tail}))
        return out
    if not leak:
        return out
    ph = fw_phases(r["events"])
    pyp = res["py"]["phases"]
    if len(ph) != len(pyp):
        return out
    def usage(q):
        # new String[n] stores the element count in front of the block (8 bytes under the mock): allocator bookkeeping that
        # follows the number of non-empty lists, not the amount of live data - left out of the comparison
        return q[2] - STR_COOKIE * q[1] if prog.get("elem") == "str" else q[2]
    for k in range(1, len(ph) - 1):
        if (pyp[k]["live"] == pyp[k + 1]["live"] and pyp[k].get("named") == pyp[k + 1].get("named")
                and ph[k][2] is not None and ph[k + 1][2] is not None and usage(ph[k]) != usage(ph[k + 1])):
            out.append(("leak", f"CPython's live list data is {pyp[k]['live']} elements after pass {k - 1} and after pass {k}, the "
                                f"firmware's live heap went from {ph[k][2]} to {ph[k + 1][2]} bytes ({ph[k][1]} -> {ph[k + 1][1]} blocks)",
                        ph[k][2], ph[k + 1][2]))
            break
    return out


def public(prog):
    out = {"setup": prog["setup"], "body": prog["body"], "N": prog["N"], "gates": prog.get("gates"), "gvals": prog.get("gvals")}
    if prog.get("elem"):
        out["elem"] = prog["elem"]
    if prog.get("t"):
        out["t"] = True
    return out


def reduce_failure(case, key):
    """find a single part of a batch that fails the same way"""
    parts = case.get("parts") or []
    if len(parts) <= 1:
        return None
    progs = [combine([p], case["prog"]["N"]) for p in parts]
    for p, res in zip(progs, run_all(progs)):
        if (guard_py(p) or guard_safe(p)) and py_ok(res["py"], p["N"]):
            for f in oracle(p, res, leak=guard_py(p)):
                if f[0] == key:
                    return p, f
    return None


# --------------------------------------------------------------------------
# known findings
# --------------------------------------------------------------------------

def load_findings(ctx):
    items = {f["id"]: f for f in ctx.findings}
    p = C.VERIF / "known_findings.d" / "C09.json"
    if p.exists():
        for f in json.loads(p.read_text()):
            items[f["id"]] = f          # the work package's own file is the newer one
    return list(items.values())          # kind=fixed entries too: a fixed entry suppresses nothing, its witness is replayed


def finding_reproduces(f) -> bool:
    w = f["witness"]
    prog = dict(w["program"])
    if prog.get("lines"):
        prog.setdefault("setup", [])
        prog.setdefault("body", [])
    res = run_all([prog])[0]
    if not py_ok(res["py"], prog["N"]):
        return False            # the witness must be a script CPython runs without exception
    r = res["fw"]
    if r is None or not r.get("compiled"):
        return False
    cls = classify_stderr(r)
    if w["expect"] == "leak":
        if cls is not None:
            return False
        ph = fw_phases(r["events"])
        pyp = res["py"]["phases"]
        return any(pyp[k]["live"] == pyp[k + 1]["live"] and ph[k][2] is not None and ph[k + 1][2] is not None and ph[k][2] < ph[k + 1][2]
                   for k in range(1, min(len(ph), len(pyp)) - 1))
    return cls == {"use-after-free": 1, "double-free": 2, "out-of-bounds": 0}[w["expect"]]


# --------------------------------------------------------------------------
# main
# --------------------------------------------------------------------------

def model_verdict(m):
    """-> (guard, fw_phases [(outs, blocks, cells)], fw_err kind|None, py_phases [(outs, live)], py_exc code|None)"""
    if not m or m[0] != 0:
        return None
    guard = bool(m[1])
    fph, ferr = [], None
    for q in m[2]:
        if q[0] == 0:
            fph.append((list(q[1]), q[2], q[3]))
        else:
            ferr = q[1]
    pph, perr = [], None
    for q in m[3]:
        if q[0] == 0:
            pph.append((list(q[1]), q[2], q[3] if len(q) > 3 else None))
        else:
            perr = q[1]
    fz = bool(m[4]) if len(m) > 4 and isinstance(m[4], int) else None          # frozen_ok (wire modes 0 / 1 only)
    vs = bool(m[5]) if len(m) > 5 and isinstance(m[5], int) else None          # value_ok (wire modes 0 / 1 only)
    return guard, fph, ferr, pph, perr, fz, vs


def run(ctx: C.Ctx):
    rng = ctx.rng
    thorough = ctx.tier == "thorough"
    N = 4
    # ---- parts
    parts = []
    n_guard = 800 if thorough else 110
    for i in range(n_guard):
        pattern = None if i % 2 == 0 else GPATTERNS[(i // 2) % len(GPATTERNS)]
        parts.append(gen_guard_part(rng, N, balanced=(i % 3 != 2), pattern=pattern))
    for i in range(300 if thorough else 24):
        p = gen_index_error_part(rng, N)
        if p:
            parts.append(p)
    for i in range(500 if thorough else 60):
        parts.append(gen_outside_part(rng, N))
    for i in range(700 if thorough else 90):
        parts.append(gen_value_part(rng, N, "rebind" if i % 2 == 0 else "mutate"))
    for i in range(150 if thorough else 20):
        parts.append(gen_str_part(rng, N))
    for i in range(600 if thorough else 70):
        parts.append(gen_len_part(rng, N, GPATTERNS[i % len(GPATTERNS)], "in"))
    for i in range(240 if thorough else 24):
        parts.append(gen_len_part(rng, N, GPATTERNS[i % len(GPATTERNS)], "out"))
    for i in range(500 if thorough else 60):
        parts.append(gen_share_part(rng, N, GPATTERNS[i % len(GPATTERNS)], "in"))
    for i in range(120 if thorough else 10):
        parts.append(gen_share_part(rng, N, GPATTERNS[i % len(GPATTERNS)], "out"))
    for i in range(500 if thorough else 60):
        parts.append(gen_fn_part(rng, N, GPATTERNS[i % len(GPATTERNS)], "in"))
    for i in range(100 if thorough else 8):
        parts.append(gen_fn_part(rng, N, GPATTERNS[i % len(GPATTERNS)], "out"))
    ex_parts = gen_exhaustive_parts(3 if thorough else 2, N)
    parts += ex_parts
    # ---- classify every part with the model: safe-expected parts are batched, the others run alone
    have_model = ctx.exe is not None
    if have_model:
        pm = [model_verdict(m) for m in ctx.model([wire_of(p) for p in parts])]
    else:
        pm = [None] * len(parts)
    safe_parts, single = [], []
    for p, v in zip(parts, pm):
        if v is not None:
            expect_safe = v[2] is None
        else:
            expect_safe = p["kind"].startswith("guard")
        (safe_parts if expect_safe else single).append(p)
    cap = 900 if thorough else 44
    if len(single) > cap:
        # keep every kind represented: shuffle deterministically, keep the first `cap`
        rng.shuffle(single)
        single = single[:cap]
    # in-guard parts and outside parts are batched separately (a batch is inside the guard iff all its parts are)
    #  - in-guard parts CPython runs without exception: oracle domain; those whose live data is constant from pass to
    #    pass are batched together so that the batch's live data is constant too (leak clause applies to every pass)
    #  - in-guard parts on which CPython raises (ValueError of remove): correspondence only
    in_const, in_var, in_exc, in_safe, out_g = [], [], [], [], []
    for p in safe_parts:
        if not guard_py(combine([p], N)):
            (in_safe if guard_safe(combine([p], N)) else out_g).append(p)
            continue
        lv = sim(combine([p], N))
        lvn = sim(combine([p], N), named=True)
        if lv is None:
            in_exc.append(p)
        elif len(set(lv[1:])) == 1 and len(set(lvn[1:])) == 1:
            in_const.append(p)
        else:
            in_var.append(p)
    cases = []
    for group0, fam in ((in_const, "batch-in-guard-constant-live-data"), (in_var, "batch-in-guard-varying-live-data"),
                        (in_exc, "batch-in-guard-python-raises"), (in_safe, "batch-value-semantics-safety-only"),
                        (out_g, "batch-outside-guard")):
        # one potentiometer per sketch: parts of a batch share the per-pass run-time values
        def pkey(p):
            return (tuple(p["gvals"]) if p.get("gvals") else None, p.get("elem"), bool(p.get("t")), p["kind"].startswith("share"))
        pats = []
        for p in group0:
            if pkey(p) not in pats:
                pats.append(pkey(p))
        for k in pats:
            group = [p for p in group0 if pkey(p) == k]
            for i in range(0, len(group), BATCH):
                chunk = group[i:i + BATCH]
                cases.append({"prog": combine(chunk, N), "parts": chunk,
                              "family": fam + ("-gated" if k[0] else "") + ("-strings" if k[1] else "") + ("-len" if k[2] else "")
                                        + ("-shared" if k[3] else "")})
    for p in single:
        cases.append({"prog": combine([p], N), "parts": [p], "family": "single-" + p["kind"].split("-")[0]})

    progs = [c["prog"] for c in cases]
    results = run_all(progs)
    models = [model_verdict(m) for m in ctx.model([wire_of(p) for p in progs])] if have_model else [None] * len(progs)

    st = {"sketches": len(cases), "parts": len(parts), "families": {}, "part_kinds": {}, "transpile_rejected": 0,
          "model_fw_safe": 0, "model_fw_unsafe": {"out-of-bounds": 0, "use-after-free": 0, "double-free": 0},
          "fw_reports": {"clean": 0, "out-of-bounds": 0, "use-after-free": 0, "double-free": 0, "other": 0},
          "oob_not_detected_by_asan": 0, "py_exceptions": {}, "in_guard_py_ok": 0, "phases_compared": 0,
          "leak_pairs_checked": 0, "shared_phases": 0, "stmt_kinds": {}, "prints_compared": 0, "gated_statements": 0, "gated_sketches": 0}
    for p in parts:
        st["part_kinds"][p["kind"]] = st["part_kinds"].get(p["kind"], 0) + 1
    distinct = set()
    evaluations = 0
    samples = []
    seen_fail = set()

    for case, res, mv in zip(cases, results, models):
        prog = case["prog"]
        st["families"][case["family"]] = st["families"].get(case["family"], 0) + 1
        for s in prog["setup"] + prog["body"]:
            st["stmt_kinds"][str(s[0])] = st["stmt_kinds"].get(str(s[0]), 0) + 1
        g = guard_py(prog)
        gs = (not g) and guard_safe(prog)
        g_old = guard_so(prog) or guard_fz(prog)
        st["gated_statements"] += sum(1 for t in prog["gates"] if t >= 0)
        st["gated_sketches"] += gated(prog)
        py = res["py"]
        for q in py.get("phases", []):
            if "exc" in q:
                st["py_exceptions"][q["exc"]] = st["py_exceptions"].get(q["exc"], 0) + 1
        info = {"script": res["script"], "program": public(prog), "loops": prog["N"]}
        # ---- transpile / compile
        if not res["tr"].get("ok"):
            st["transpile_rejected"] += 1
            if g_old:
                ctx.disagree("a single-owner list script was rejected by the transpiler: " + str(res["tr"].get("exc")) + ": " +
                             str(res["tr"].get("msg")), info, "accepted", res["tr"])
            continue
        r = res["fw"]
        if not r["compiled"]:
            ctx.disagree("emitted C++ of a generated list script does not compile", info, "compiles", r["compile_log"][-800:])
            continue
        cls = classify_stderr(r)
        st["fw_reports"]["clean" if cls is None else KIND_NAMES.get(cls, "other")] += 1
        ph = fw_phases(r["events"]) if cls is None else []
        # ---- correspondence: model CPython run vs real CPython
        if mv is not None:
            guard_m, mf, mferr, mp, mperr, fz_m, vs_m = mv
            if guard_m != guard_so(prog):
                ctx.disagree("guard: model single_owner / len_ok vs harness guard_so", info, guard_m, guard_so(prog))
            if fz_m is not None and fz_m != guard_fz(prog):
                ctx.disagree("guard: model frozen_ok vs harness guard_fz", info, fz_m, guard_fz(prog))
            if vs_m is not None and vs_m != guard_vs(prog):
                ctx.disagree("guard: model value_ok vs harness guard_vs", info, vs_m, guard_vs(prog))
            pyp = py.get("phases", [])
            real_exc = next((q["exc"] for q in pyp if "exc" in q), None)
            if (mperr is None) != (real_exc is None) or (mperr is not None and EXC_CODE.get(real_exc) != mperr):
                ctx.disagree("CPython reference: exception differs (model vs real CPython)", info, mperr, real_exc)
            else:
                for k, (a, b) in enumerate(zip(mp, pyp)):
                    if "exc" in b:
                        break
                    ints = [x for x in b["out"] if isinstance(x, int)]
                    if prog.get("elem") == "str":
                        ints = [int(x) for x in b["out"] if isinstance(x, str) and re.fullmatch(r"-?\d+", x)]
                    if a[0] != ints or a[1] != b["live"] or (a[2] is not None and a[2] != b.get("named")):
                        ctx.disagree(f"CPython reference, phase {k}: printed values / live data (per object, per name) differ (model vs real CPython)",
                                     info, [a[0], a[1], a[2]], [ints, b["live"], b.get("named")])
                        break
            # ---- correspondence: model firmware run vs real firmware under ASan/UBSan
            if mferr is None:
                st["model_fw_safe"] += 1
                if cls is not None:
                    ctx.disagree(f"model: firmware run is memory-safe; real firmware: sanitizer report ({KIND_NAMES.get(cls, cls)})",
                                 info, "safe", {"class": cls, "stderr": r["stderr"][-600:]})
                elif len(ph) != len(mf):
                    ctx.disagree("number of phases (setup + passes) differs", info, len(mf), len(ph))
                else:
                    for k, (a, b) in enumerate(zip(mf, ph)):
                        st["phases_compared"] += 1
                        st["prints_compared"] += len(b[0])
                        if a[0] != b[0]:
                            ctx.disagree(f"phase {k}: printed list elements differ (model vs firmware)", info, a[0], b[0])
                            break
                        mbytes = a[2] * ELEM if prog.get("elem") != "str" else a[2] * STR_ELEM + a[1] * STR_COOKIE
                        if a[1] != b[1] or mbytes != b[2]:
                            ctx.disagree(f"phase {k}: live heap differs (model blocks/cells vs firmware blocks/bytes)", info,
                                         [a[1], a[2]], [b[1], b[2]])
                            break
            else:
                st["model_fw_unsafe"][KIND_NAMES[mferr]] += 1
                if cls is None:
                    if mferr == 0:
                        st["oob_not_detected_by_asan"] += 1       # e.g. data[-1]: lands in the counter's own header
                        for k, (a, b) in enumerate(zip(mf, ph)):
                            if a[0] != b[0] or a[1] != b[1] or (prog.get("elem") != "str" and a[2] * ELEM != b[2]):
                                ctx.disagree(f"phase {k} (before the out-of-bounds access): model vs firmware", info, list(a), list(b))
                                break
                    else:
                        ctx.disagree(f"model: {KIND_NAMES[mferr]}; real firmware ran clean under ASan/UBSan", info,
                                     KIND_NAMES[mferr], "clean")
                elif cls != mferr:
                    if mferr == 0:
                        # the out-of-bounds read went unnoticed (own header / another live block) and the run went on
                        # to a later error: nothing left to compare
                        st["oob_not_detected_by_asan"] += 1
                    else:
                        ctx.disagree("class of the memory error differs (model vs sanitizer report)", info, KIND_NAMES[mferr],
                                     {"class": KIND_NAMES.get(cls, cls), "stderr": r["stderr"][-600:]})
        # ---- property oracle on the implementation (inside the guard, CPython exception-free)
        if (g or gs) and py_ok(py, prog["N"]):
            st["in_guard_py_ok"] += 1
            st["value_region_judged"] = st.get("value_region_judged", 0) + (0 if g_old else 1)
            st["safety_only_judged"] = st.get("safety_only_judged", 0) + (1 if gs else 0)
            evaluations += prog["N"] + 1
            pyp = py["phases"]
            st["leak_pairs_checked"] += sum(1 for k in range(1, len(pyp) - 1)
                                            if g and pyp[k]["live"] == pyp[k + 1]["live"] and pyp[k].get("named") == pyp[k + 1].get("named"))
            st["shared_phases"] += sum(1 for q in pyp if q.get("named") != q.get("live"))
            for key, what, exp, obs in oracle(prog, res, leak=g):
                fcase, fwhat, fexp, fobs = info, what, exp, obs
                if key not in seen_fail:
                    seen_fail.add(key)
                    try:
                        red = reduce_failure(case, key)
                        if red:
                            fcase = {"script": script_of(red[0]), "program": public(red[0]), "loops": red[0]["N"]}
                            _, fwhat, fexp, fobs = red[1]
                    except Exception:  # noqa
                        pass
                ctx.fail(fwhat, fcase, fexp, fobs, key=key)
        else:
            evaluations += 1
        for p in case["parts"]:
            if len(p["body"]) + len(p["setup"]) > 2:
                distinct.add(json.dumps([p["setup"], p["body"]]))
        if len(samples) < 3 and case["family"] in ("batch-in-guard-constant-live-data-gated", "single-outside", "single-index"):
            if not any(s["family"] == case["family"] for s in samples):
                samples.append({"family": case["family"], "script": res["script"][:1800]})

    # ---- sibling arms of one if / elif / else (try / except) statement (wire mode 3; one sketch per program)
    arm_st = {"programs": 0, "forms": {}, "taken_arm": {}, "focus_programs": 0, "arms_compared": 0, "folded_reads": 0, "runtime_reads": 0,
              "in_guard_py_ok": 0, "outside_guard": 0, "selector": {}, "earlier_arm_stmt_kinds": {}}
    arm_progs = []
    n_arm = 160 if thorough else 26
    for i in range(n_arm):
        form = ARM_FORMS[i % len(ARM_FORMS)]
        ap = gen_arm_part(rng, N, GPATTERNS[i % len(GPATTERNS)], form=form, focus=(i % 4 != 3))
        if ap:
            arm_progs.append(ap)
    arm_res = run_all(arm_progs) if arm_progs else []
    arm_models = ctx.model([arm_wire(p_) for p_ in arm_progs]) if (have_model and arm_progs) else [None] * len(arm_progs)
    for prog, res, m in zip(arm_progs, arm_res, arm_models):
        a = prog["arm"]
        arm_st["programs"] += 1
        arm_st["forms"][a["form"]] = arm_st["forms"].get(a["form"], 0) + 1
        arm_st["taken_arm"][str(a["taken"])] = arm_st["taken_arm"].get(str(a["taken"]), 0) + 1
        arm_st["selector"][a["sel"]] = arm_st["selector"].get(a["sel"], 0) + 1
        arm_st["focus_programs"] += bool(a.get("focus"))
        for arm in a["arms"][:-1]:
            for s_ in arm:
                arm_st["earlier_arm_stmt_kinds"][str(s_[0])] = arm_st["earlier_arm_stmt_kinds"].get(str(s_[0]), 0) + 1
        info = {"script": res["script"], "program": {k_: v_ for k_, v_ in prog.items() if k_ != "kind"}, "loops": prog["N"]}
        py = res["py"]
        mv = model_verdict(m) if m is not None else None
        if m is not None and mv is None:
            ctx.disagree("wire: the model could not decode an arm program", info, "decoded", m)
        in_guard = mv[0] if mv is not None else True       # by construction when the model is not available
        if not res["tr"].get("ok"):
            if in_guard:
                ctx.disagree("a list script with an if / try statement in front of the main loop was rejected by the transpiler: "
                             + str(res["tr"].get("exc")) + ": " + str(res["tr"].get("msg")), info, "accepted", res["tr"])
            continue
        r = res["fw"]
        if not r["compiled"]:
            ctx.disagree("emitted C++ of a generated list script does not compile", info, "compiles", r["compile_log"][-800:])
            continue
        cls = classify_stderr(r)
        ph = fw_phases(r["events"]) if cls is None else []
        # correspondence 1: what the real parser folded in EVERY arm (taken or not) vs the model's arms
        em = emitted_arm_lens(res["tr"]["cpp"], prog)
        if mv is not None:
            ml = model_arm_lens(m, prog, 4)
            arm_st["arms_compared"] += len(ml) - 1
            arm_st["post_reads"] = arm_st.get("post_reads", 0) + len(ml[-1])
            arm_st["folded_reads"] += sum(1 for row in ml for v in row if v >= 0)
            arm_st["runtime_reads"] += sum(1 for row in ml for v in row if v < 0)
            if em is None:
                ctx.disagree("the emitted setup() of an arm program has another shape than one __redu_list_get per read", info, ml, None)
            elif em != ml:
                ctx.disagree("lengths folded in the arms of one if / try statement: model (every arm from the snapshot in front of the statement, "
                             "independently) vs the emitted C++", info, ml, em)
            # correspondence 2: CPython reference
            mf, mferr, mp, mperr = mv[1], mv[2], mv[3], mv[4]
            pyp = py.get("phases", [])
            real_exc = next((q["exc"] for q in pyp if "exc" in q), None)
            if (mperr is None) != (real_exc is None) or (mperr is not None and EXC_CODE.get(real_exc) != mperr):
                ctx.disagree("CPython reference of an arm program: exception differs (model vs real CPython)", info, mperr, real_exc)
            elif mperr is None:
                for k, (a_, b_) in enumerate(zip(mp, pyp)):
                    ints = [x for x in b_["out"] if isinstance(x, int)]
                    if a_[0] != ints or a_[1] != b_["live"]:
                        ctx.disagree(f"CPython reference of an arm program, phase {k}: printed values / live data differ (model of the taken path vs real CPython)",
                                     info, [a_[0], a_[1]], [ints, b_["live"]])
                        break
            # correspondence 3: firmware run of the taken path
            if mferr is None and cls is None and len(ph) == len(mf):
                for k, (a_, b_) in enumerate(zip(mf, ph)):
                    st["phases_compared"] += 1
                    if a_[0] != b_[0] or a_[1] != b_[1] or a_[2] * ELEM != b_[2]:
                        ctx.disagree(f"arm program, phase {k}: printed values / live heap differ (model of the taken path vs firmware)", info,
                                     [a_[0], a_[1], a_[2]], [b_[0], b_[1], b_[2]])
                        break
            elif mferr is None and cls is not None:
                ctx.disagree(f"model: the firmware run of the taken path is memory-safe; real firmware: sanitizer report ({KIND_NAMES.get(cls, cls)})",
                             info, "safe", {"class": cls, "stderr": r["stderr"][-600:]})
        # property oracle: inside len_ok of the taken path, CPython exception-free => clean under ASan/UBSan, constant heap
        if in_guard and py_ok(py, prog["N"]):
            arm_st["in_guard_py_ok"] += 1
            st["in_guard_py_ok"] += 1
            evaluations += prog["N"] + 1
            for key, what, exp, obs in oracle(prog, res, leak=True):
                taken_txt = f"arm {a['taken']} of the {a['form']} statement is the one taken"
                ctx.fail(what + " [" + taken_txt + "; folded in the arms: " + json.dumps(em) + "]", info, exp, obs, key="arm-" + key)
        else:
            arm_st["outside_guard"] += 1
            evaluations += 1
        distinct.add(json.dumps([a["pre"], a["arms"], a["taken"], a["body"]]))
        if len(samples) < 4 and a.get("focus") and not any(s_.get("family") == "arm" for s_ in samples):
            samples.append({"family": "arm", "script": res["script"][:1800]})
    st["arms"] = arm_st

    # ---- known findings: replay every listed witness on the real transpiler + firmware
    for f in load_findings(ctx):
        try:
            if finding_reproduces(f):
                if f.get("kind") == "fixed":
                    # a repaired defect is back: a property failure, with the witness as replay
                    w = f["witness"]
                    ctx.fail(f"the repaired defect {f['id']} is back: the firmware run of its witness is {w.get('expect')} although CPython raises no exception",
                             {"finding": f["id"], "script": w.get("script"), "program": w.get("program")},
                             "memory-safe run, heap usage constant", w.get("expect"), key="fixed-finding-returned:" + f["id"])
                else:
                    ctx.known(f"{f['id']}: {f['what']}")
        except Exception as e:  # noqa
            ctx.notes.append(f"replay of {f['id']} failed to run: {e}")

    ctx.coverage.update({
        "evaluations": evaluations,
        "distinct_nontrivial": len(distinct),
        "rule": "parts = small list programs (setup statements + main-loop body, N = 4 passes): (a) single-owner programs, 1-3 lists "
                "declared by literals / range comprehensions (boundary ranges: empty, negative step, partial last step), then append / "
                "remove / index (0, -1, len-1, -len, random) / by-value reader call / `x = x` / append and remove whose argument is an element "
                "`y[i]` of a declared list (two times out of three of the SAME list: argument aliasing through the helpers' `const T&`) / tuple "
                "assignments that permute 2-4 declared lists (swap, rotation, random permutation) - the same shapes also over lists of STRINGS "
                "(kind guard-strings: literals, element-argument append/remove, permutations, reads) -, with bodies that are balanced (append+remove "
                "pairs, rotations by value and through the list's own elements `x.append(x[i]); x.remove(x[j])`, permutations: live data constant "
                "from pass to pass) or free (growing / shrinking); (b) the same with one index "
                "just outside the range (len, len+1, len+3, -len-1, -len-5, -len-6) somewhere in setup or body, also inside an append/remove "
                "argument; (c) programs outside the guard: tuple assignments with a literal on the right, the same name twice, undeclared targets "
                "(top level and main loop), `x = ident(y)` / `x = ident(x)` through a list-returning function, "
                "`b = a` aliases used after the other name appends / removes, re-assignment from literals and comprehensions, lists local "
                "to the main loop, struct copies local to loop(), a callee mutating its by-value list parameter; half of the (a) parts put "
                "their loop statements under run-time conditions `if c > t:` (t in -1 (none), 0, 1, 2; c = analogRead per pass from 3 input "
                "patterns), so that different passes execute different statement sequences (append/remove pairs share a gate); (d) every statement "
                "sequence of length <= 2 (quick) / <= 3 (thorough) over a 16-statement boundary alphabet (incl. l0.append(l0[-1]), l0.remove(l0[0]), l0 = ident(l0)) on l0 = [1, 2] as loop body; "
                "(e) kind len-in / len-out (coq/Device/DListLen.v, wire mode 2): a list l0 holding every run-time value c + off of the input pattern plus boundary values, 0-2 further lists "
                "(literal: the parser keeps a copy; comprehension: no copy, run-time __redu_len), setup uses (constant / element appends - elements of comprehension lists leave "
                "placeholders in the copy -, constant removes, `x = x`, permutations: the targets lose their copy), 40 % with a len() read before the loop; loop body = 1-3 balanced pairs "
                "(rotation by the RUN-TIME value `l0.remove(c + off); l0.append(c + off)` - also append first -, by an own element, by a constant of the list, by a fresh constant), "
                "25 % an ungated permutation, 2-4 reads `x[len(y) + k]` / `x[k - len(y)]` (y = x 70 %; target index boundary-heavy: len-1, 0, -1, -len, random) under gates -1 / 0 / 1 / 2, "
                "optional plain read; len-out applies one stale-copy change: a gate on an append / remove, one statement of a pair dropped, a gated permutation, a constant remove of the "
                "copy's first entry after the run-time remove; (f) kind share-in / share-out (frozen_ok): 2-3 source lists and 1-2 target lists (75 % of one length, literals / comprehensions), optionally a "
                "single-owner list w; loop body = 1-3 assignments into a target - 60 % `x = sel_t(y, z, c)` (def sel_t(a, b, k): if k > t: return a / return b; t in 0, 1, 2 against the three input patterns, so the "
                "returned list alternates between passes), `x = y if c > t else z`, `x = ident(y)` and `x = y` (plain / gated) -, 30 % a first copy before the loop, 1-4 reads (plain / by-value call, boundary indices "
                "valid for every list of the group), w.append(y[i]); w.remove(w[-1]) with y shared; share-out additionally appends to / removes from a shared name; (g) kind fn-in / fn-out (fn_env / first_env, wire mode 2): "
                "2-3 lists of pairwise DIFFERENT lengths (+ a list rotated by the run-time value), 2-4 calls r = h(x) of `def h(l_p): return l_p[len(l_y) + k]` / `l_p[k - len(l_y)]` whose parameter l_p is, two times out of "
                "three, the NAME OF ANOTHER GLOBAL LIST (shadowing; else the argument's own name or a fresh name), y = the parameter (70 %) or a global, target index boundary-heavy, gates -1 / 0 / 1; 60 % a call of "
                "`def walk(l_p): for i in range(len(l_p)): mon.write(l_p[i])` with a shadowing parameter of a LONGER global; the defs stand after every list declaration, right in front of `while True:`; fn-out calls a function "
                "that reads len() of a global once before and once after that global shrank; (h) kind arm-* (coq/Device/DListArm.v, wire mode 3, one sketch per program): two literal lists (l0 holds every run-time value of the input pattern) "
                "and 30 % a comprehension list, 0-2 constant appends / removes at top level, c0 = p.read() (first reading, 0), then ONE statement of the form if-else / if-elif-else / if-elif (2-3 arms) / try-except whose arms hold 0-3 of "
                "append(const) 55 % / remove(const of the list) 25 % / append(c0 + off) 8 % / remove(c0 + off) 12 % (run-time argument: the name loses its copy; a run-time remove is followed by a read of the list's last element and its arm is then often the taken one) and 1-3 reads x[len(y) + k] / x[k - len(y)] (y = x 75 %; target index last (3x), first, -1, -len, random; "
                "valid for the lists as THAT arm leaves them; 30 % placed in front of the arm's mutations) plus 30 % a plain read; three programs out of four are FOCUSED: an earlier arm changes the length of a list whose len() a later arm folds and the later arm is the one taken "
                "(selected by `mode = k` / `mode == j` conditions or by comparisons of the run-time c0; try-except: the try arm runs, the except arm is only compared statically); 70 % 1-2 len() reads AFTER the statement (names written in some arm are forgotten there; 70 % of them on a list the TAKEN arm wrote); "
                "then a balanced main loop (rotation by the run-time value / append+remove of a fresh constant / nothing) with one len() read of a list the loop does not write. Every "
                "part is classified by the model; parts it expects to run safely are batched 10 per sketch (disjoint names), the others "
                "run one per sketch (quick tier: a seeded sample). evaluations = phases (setup + passes) of in-guard exception-free "
                "sketches judged by the oracle + 1 per other sketch compared; distinct non-trivial = distinct parts with more than 2 statements.",
        "samples": samples,
        "programs": len(parts),
        "traces_validated_against_impl": st["phases_compared"],
        "distribution": st,
        "exhaustive": False,
        "exhaustive_part": f"loop bodies of length <= {3 if thorough else 2} over the 16-statement alphabet (classified by the model; "
                      f"{'all' if thorough else 'a seeded sample of the unsafe ones'} run on the firmware)",
        "guard": "Arm programs: len_ok of the TAKEN PATH (statements in front of the if / try statement + the statements of the arm taken at run time + the statements after it; the model's bit) AND CPython raises nothing: memory-safety and leak clause. "
                 "FULL domain (memory-safety clause and leak clause): single_owner OR len_ok OR frozen_ok (harness guard_so / track_py / guard_fz, each cross-checked against the model's bit on every case) OR "
                 "[value_ok (harness guard_vs, cross-checked against the model's bit: every name is declared when a statement uses it) AND CPython's run equals, name by name after every statement, the run with VALUE "
                 "semantics (harness sim2: no alias is ever observable)]. SAFETY-ONLY domain (memory-safety clause): value_ok AND CPython raises nothing AND the value-semantics run indexes inside its lists - `b = a` then "
                 "mutation, by-value parameters the callee mutates, `x = ident(y)`, tuple assignments with repeated names; the leak clause is not judged there and an index that is valid in CPython only because of an alias is "
                 "outside (listed findings F-C09-clone-divergence-heap-growth, F-C09-clone-divergence-out-of-bounds, F-C09-call-result-copy-heap-varies: the firmware copies where Python aliases - a VALUE divergence, property C01). "
                 "single_owner (coq/Device/DListProg.v): lists declared before the main loop from a literal or a range comprehension, each under a fresh name; afterwards append / remove / index / by-value read-only call / "
                 "`x = x` / `x.append(y[i])`, `x.remove(y[i])`; tuple assignments are outside single_owner and len_ok since the repair (covered by value_ok). frozen_ok: read-only sharing as before. len_ok: as before, without "
                 "tuple assignments. The seven ownership findings (alias use-after-free / double free, by-value parameter, loop-local leak, re-assignment temporary leak, `a = ident(a)`, tuple literal leak) are kind=fixed: their "
                 "witnesses are replayed first and a failing one is a VIOLATION. Oracle also requires CPython to run the script without any exception. Programs outside the domains still go through the correspondence.",
        "unmodelled": ["the Python-simulation theorems (heap usage = CPython's live data: C09_python_safe_partial, C09_no_leak_partial, C09_len_fold_*) do not cover tuple assignments any more - with value semantics a tuple assignment is a block of copies "
                       "(temporaries __tmp_assign_k, copy assignments, destructors), proved memory-safe and leak-free for every program by C09_value_semantics_safe, exercised by the correspondence and judged by the oracle, but the simulation proof for permutations was not redone "
                       "(C09_stale_len_rebind_repaired keeps only its computed run facts)",
                       "lifetime of temporaries and by-value parameters INSIDE a statement / block: the model destroys the temporaries of a tuple assignment right after its stores (the C++ objects live until the closing brace of the enclosing block) and reads "
                       "through the caller's buffer where a callee only reads its by-value copy (f(xs, k), ident(xs)): allocation and release of such a copy cancel; heap usage is observed after setup() and after every pass only",
                       "the heap behaviour INSIDE String elements and str indexing (Arduino String of the mock; element values are abstract in the model). Lists OF strings "
                       "are exercised (family *-strings: rotations through own elements, elements of other lists, permutations, reads) and compared with the model on "
                       "printed values, live blocks and live bytes (32 bytes per String + 8 per block under the mock)",
                       "C int overflow in __redu_list_from_range's counting loop; element type conversions (static_cast<T>)",
                       "control flow other than `if <run-time value> > <const>:` around single list statements of the main loop and ONE if / elif / else or try / except statement with straight-line arms in front of the main loop: "
                       "for / while in front of the main loop, statements nested inside arms, multi-arm statements inside the main loop or inside function bodies (there every list the block writes is already forgotten: run-time len), declarations inside conditionals; "
                       "an except arm never runs on the device (`raise` is rejected, list helpers do not throw): its folded lengths are compared with the model statically (correspondence), no run can fail there",
                       "subscript stores `a[i] = v` (the transpiler drops the line: C07's domain; the model keeps list_set as a helper-level operation only)",
                       "allocator behaviour of the real AVR heap (fragmentation, new[] failure); out-of-bounds reads that ASan cannot see "
                       "(1-4 ints before the buffer fall into the mock counter's own header: counted in distribution.oob_not_detected_by_asan)",
                       "len() outside an index of the forms `len(y) + k`, `k - len(y)` at statement level or as the returned subscript of a one-parameter function (`n = len(a)` stored in a variable, len() of strings / literals, len() in conditions; "
                       "`for i in range(len(a))` is exercised at harness level only: expanded to the reads the model is sent); functions with several list parameters, functions that build and return a FRESH list, conditional expressions mixing a name with a list literal (the temporary leaks: outside every guard); "
                       "the order in which function variants of different signatures are parsed (one list signature per function here); "
                       "list literals with run-time elements (`[1, c]`: no parse-time copy); run-time scalars other than `c + off` with c read once per pass, run-time scalars before the main loop",
                       "append/remove arguments that are expressions over list elements (`a.append(a[0] + 1)`: a temporary, by value); list literals built from elements of lists (`b = [a[1], a[0]]`)",
                       "tuple assignments that mix lists and scalars, or declare some targets and assign others inside setup() (the new names become locals of setup(): C06's domain)",
                       "the order of evaluation of `list.data[i] == value` inside __redu_list_remove when BOTH operands are invalid (outside the guard only)"],
        "trusted_base": C.COMMON_TRUSTED + [
            "mock/mock_core.cpp operator new[]/delete[] interposition (live blocks / bytes, sampled after setup() and every pass), mock Serial printing",
            "clang++ 14 -fsanitize=address,undefined -O0 as the memory checker (halting on the first report; class read from its SUMMARY line)",
            "harness/fw.py, harness/impl/transpile_impl.py (real parse+emit), harness/impl/c09_impl.py (CPython exec of the same lines; live data = total length of distinct list objects bound to module names)",
            "harness/props/c09.py: script text of a statement, guard_so / guard_fz / track_py (cross-checked against the model's single_owner / frozen_ok / len_ok on every case), history() (which list a `sel` call returns in which pass), classification of sanitizer reports"],
    })
    ctx.assumptions += ["the mock core + ASan/UBSan define 'memory error' (DESIGN.md section 3); freed blocks are quarantined, so a stale pointer never aliases a newer block during a run",
                        "sizeof(int) = 4 under the mock (live bytes = 4 * live cells)",
                        "list elements are ints within C int range"]


def replay(data):
    case = data.get("case") or {}
    prog = case.get("program")
    if not isinstance(prog, dict):
        print("replay: no program in this file (correspondence / proof failure: see the fields above)")
        return 0
    if prog.get("lines"):
        prog.setdefault("setup", [])
        prog.setdefault("body", [])
    res = run_all([prog])[0]
    if prog.get("lines") or data.get("key", "").startswith("fixed-finding-returned") or (case.get("finding")):
        # witness of a listed (fixed) finding: CPython must run it, the firmware must run clean with constant heap usage
        if not py_ok(res["py"], prog["N"]):
            print("replay: CPython raises on this witness")
            return 0
        F = oracle(prog, res, leak=True)
        for key, what, exp, obs in F:
            print(f"REPRODUCED [{key}] {what} (expected {exp}, observed {obs})")
        if not F:
            print("replay: the property holds on this case now")
        return 1 if F else 0
    if not ((guard_py(prog) or guard_safe(prog)) and py_ok(res["py"], prog["N"])):
        print("replay: the program is outside the oracle's domain (guard / CPython exception)")
        return 0
    F = oracle(prog, res, leak=guard_py(prog))
    for key, what, exp, obs in F:
        print(f"REPRODUCED [{key}] {what} (expected {exp}, observed {obs})")
    if not F:
        print("replay: the property holds on this case now")
    return 1 if F else 0
